-------------------------------- MODULE Wire --------------------------------
(***************************************************************************)
(* Pure-function part of the specification (properties C12 and C14).       *)
(*                                                                         *)
(* (a) The call-data grammar of /repo/parsers and /repo/txDataBuilder:     *)
(*     tokenize, hex decoding, the call-arguments, deploy-arguments,       *)
(*     storage-updates and ESDT-transfer parsers, and the builders.        *)
(* (b) An independent reference encoder for the protobuf wire format of    *)
(*     /repo/data/esdt (ESDigitalToken, ESDTRoles, MetaData) and the       *)
(*     amount codec of /repo/data/bigIntCaster.go, with Size and a decoder *)
(*     that is the inverse of the encoder on the encoder's image.          *)
(*                                                                         *)
(* A STRING IS A SEQUENCE OF BYTES (integers 0..255): Go strings are byte  *)
(* strings, the grammar is defined on bytes, and function names, call      *)
(* data, arguments and encodings all live in the same universe.            *)
(*                                                                         *)
(* Numbers that do not fit TLC's 32-bit integers are never computed:       *)
(* amounts and nonces are kept as canonical big-endian magnitudes          *)
(* (no leading zero byte; <<>> is zero), varint-typed protobuf fields as   *)
(* base-128 digit strings, least significant digit first, no trailing zero *)
(* digit (<<>> is zero).                                                   *)
(*                                                                         *)
(* Parser results are records [cls |-> "value", v |-> ...],                *)
(* [cls |-> "error"] or [cls |-> "unspec"]; the last class marks the few   *)
(* inputs on which the property statement fixes nothing but totality.      *)
(***************************************************************************)
EXTENDS Integers, Sequences, FiniteSets, SequencesExt, FiniteSetsExt

Byte == 0..255
AT == 64                                              \* '@'

Val(v) == [cls |-> "value", v |-> v]
Err == [cls |-> "error"]
Unspec == [cls |-> "unspec"]

\* ------------------------------------------------------------------ bytes
Cat(ss) == FlattenSeq(ss)                             \* concatenation of a sequence of sequences

StripZeros(b) ==                                      \* canonical magnitude of the big-endian number b
  LET nz == {i \in 1..Len(b) : b[i] # 0} IN
  IF nz = {} THEN <<>> ELSE SubSeq(b, Min(nz), Len(b))

Low8(b) == IF Len(b) > 8 THEN SubSeq(b, Len(b) - 7, Len(b)) ELSE b
U64(b) == StripZeros(Low8(b))                         \* canonical magnitude of (b mod 2^64): big.Int.SetBytes(b).Uint64()

\* value of a canonical magnitude of at most 3 bytes (callers test the length first)
RECURSIVE BEVal(_)
BEVal(b) == IF b = <<>> THEN 0 ELSE 256 * BEVal(SubSeq(b, 1, Len(b) - 1)) + b[Len(b)]

\* canonical magnitude of a natural number (TLC-sized)
RECURSIVE BEBytes(_)
BEBytes(n) == IF n = 0 THEN <<>> ELSE BEBytes(n \div 256) \o <<n % 256>>

\* -------------------------------------------------------------------- hex
IsDigit(c) == c >= 48 /\ c <= 57
IsLowerHex(c) == c >= 97 /\ c <= 102
IsUpperHex(c) == c >= 65 /\ c <= 70
IsHexChar(c) == IsDigit(c) \/ IsLowerHex(c) \/ IsUpperHex(c)
HexVal(c) == IF IsDigit(c) THEN c - 48 ELSE IF IsLowerHex(c) THEN c - 87 ELSE c - 55
HexChar(n) == IF n < 10 THEN 48 + n ELSE 87 + n       \* the encoder emits lower case

\* encoding/hex.DecodeString succeeds exactly on even-length strings of hex digits (both cases)
HexOK(t) == Len(t) % 2 = 0 /\ \A i \in 1..Len(t) : IsHexChar(t[i])
HexDecode(t) == [i \in 1..(Len(t) \div 2) |-> 16 * HexVal(t[2 * i - 1]) + HexVal(t[2 * i])]
HexEncode(b) == [i \in 1..(2 * Len(b)) |-> HexChar(IF i % 2 = 1 THEN b[(i + 1) \div 2] \div 16 ELSE b[i \div 2] % 16)]
LowerHex(c) == IF IsUpperHex(c) THEN c + 32 ELSE c

\* --------------------------------------------------------------- tokenize
\* strings.Split(data, "@"): the maximal '@'-free pieces, in order; n separators give n+1 tokens
Split(s) ==
  LET cuts == <<0>> \o SetToSortSeq({i \in 1..Len(s) : s[i] = AT}, LAMBDA x, y : x < y) \o <<Len(s) + 1>> IN
  [k \in 1..(Len(cuts) - 1) |-> SubSeq(s, cuts[k] + 1, cuts[k + 1] - 1)]

Join(toks) == Cat([k \in 1..Len(toks) |-> IF k = 1 THEN toks[k] ELSE <<AT>> \o toks[k]])

\* tokenize fails exactly when the first token is empty
TokenizeOK(toks) == toks[1] # <<>>

\* ---------------------------------------------------- call-arguments parser
\* function@argHex@argHex...   (the function name is raw, every argument is hex)
ParseCall(s) ==
  LET toks == Split(s) IN
  IF ~TokenizeOK(toks) THEN Err
  ELSE IF \E i \in 2..Len(toks) : ~HexOK(toks[i]) THEN Err
  ELSE Val([fn |-> toks[1], args |-> [i \in 1..(Len(toks) - 1) |-> HexDecode(toks[i + 1])]])

\* --------------------------------------------------- deploy-arguments parser
\* codeHex@vmTypeHex@codeMetadataHex@argHex...; the VM type must be non-empty; code metadata is
\* two flag bytes (any other length reads as "no flag set")
Bit(b, mask) == (b \div mask) % 2 = 1
CodeMeta(b) ==
  IF Len(b) # 2 THEN [up |-> FALSE, rd |-> FALSE, pay |-> FALSE]
  ELSE [up |-> Bit(b[1], 1), rd |-> Bit(b[1], 4), pay |-> Bit(b[2], 2)]
CodeMetaBytes(m) == <<(IF m.up THEN 1 ELSE 0) + (IF m.rd THEN 4 ELSE 0), IF m.pay THEN 2 ELSE 0>>

ParseDeploy(s) ==
  LET toks == Split(s) IN
  IF ~TokenizeOK(toks) THEN Err
  ELSE IF Len(toks) < 3 THEN Err
  ELSE IF ~HexOK(toks[1]) THEN Err
  ELSE IF toks[2] = <<>> \/ ~HexOK(toks[2]) THEN Err
  ELSE IF ~HexOK(toks[3]) THEN Err
  ELSE IF \E i \in 4..Len(toks) : ~HexOK(toks[i]) THEN Err
  ELSE Val([code |-> HexDecode(toks[1]), vm |-> HexDecode(toks[2]), meta |-> CodeMeta(HexDecode(toks[3])),
            args |-> [i \in 1..(Len(toks) - 3) |-> HexDecode(toks[i + 3])]])

\* --------------------------------------------------- storage-updates parser
\* [@]offsetHex@dataHex@offsetHex@dataHex...: one optional leading separator, an even number of tokens
TrimLeadingAt(s) == IF Len(s) > 0 /\ s[1] = AT THEN SubSeq(s, 2, Len(s)) ELSE s

ParseSU(s) ==
  LET toks == Split(TrimLeadingAt(s)) IN
  IF ~TokenizeOK(toks) THEN Err
  ELSE IF Len(toks) % 2 # 0 THEN Err
  ELSE IF \E i \in 1..Len(toks) : ~HexOK(toks[i]) THEN Err
  ELSE Val([k \in 1..(Len(toks) \div 2) |-> [o |-> HexDecode(toks[2 * k - 1]), d |-> HexDecode(toks[2 * k])]])

\* ---------------------------------------------------------------- builders
\* txDataBuilder.ToString: function, then separator + element for every element; every element
\* constructor hex-encodes (lower case) the bytes it is given
Build(f, args) == f \o Cat([i \in 1..Len(args) |-> <<AT>> \o HexEncode(args[i])])

\* the bytes a builder element stands for; elements are records [t |-> kind, ...]
TrueBytes == <<116, 114, 117, 101>>                   \* "true"
FalseBytes == <<102, 97, 108, 115, 101>>              \* "false"
ElemBytes(e) ==
  CASE e.t \in {"bytes", "str"} -> e.b                \* Bytes, Str (the bytes of the string)
    [] e.t = "byte" -> <<e.n>>                        \* Byte
    [] e.t \in {"int", "int64"} -> BEBytes(IF e.n < 0 THEN 0 - e.n ELSE e.n)   \* Int, Int64: big.NewInt(n).Bytes() is the magnitude
    [] e.t = "big" -> StripZeros(e.b)                 \* BigInt: Bytes() of the number with this magnitude
    [] e.t = "bool" -> IF e.n = 1 THEN TrueBytes ELSE FalseBytes
BuildElems(f, es) == Build(f, [i \in 1..Len(es) |-> ElemBytes(es[i])])

\* deploy data is written with the same builder: the code takes the function's place
BuildDeploy(code, vm, meta, args) == Build(HexEncode(code), <<vm, CodeMetaBytes(meta)>> \o args)

\* storageUpdatesParser.CreateDataFromStorageUpdate
CreateSU(us) == Join(Cat([k \in 1..Len(us) |-> <<HexEncode(us[k].o), HexEncode(us[k].d)>>]))

\* the built-in functions' message encoder (addOutputTransferToVMOutput / addNFTTransferToVMOutput):
\* function name followed by "@" + hex of every argument -- the same grammar as the builder
EncodeMsg(fn, args) == Build(fn, args)

\* ------------------------------------------------------------ amount codec
\* Amount values: [k |-> "nil"] or [k |-> "int", neg |-> BOOLEAN, mag |-> canonical magnitude]
NilAmt == [k |-> "nil"]
Amt(neg, mag) == [k |-> "int", neg |-> neg /\ mag # <<>>, mag |-> mag]
IsAmt(a) == a.k = "nil" \/ (a.k = "int" /\ a.mag = StripZeros(a.mag) /\ (a.neg => a.mag # <<>>))

\* one sign byte (0 = non-negative, 1 = negative) followed by the big-endian magnitude;
\* nil is the single byte 0, zero is 0,0
EncAmount(a) ==
  IF a.k = "nil" THEN <<0>>
  ELSE IF a.mag = <<>> THEN <<0, 0>>
  ELSE <<IF a.neg THEN 1 ELSE 0>> \o a.mag
SizeAmount(a) == IF a.k = "nil" THEN 1 ELSE IF a.mag = <<>> THEN 2 ELSE Len(a.mag) + 1

\* BigIntCaster.Unmarshal, complete (it is total on byte strings)
DecAmount(b) ==
  IF Len(b) = 0 THEN Err
  ELSE IF Len(b) = 1 THEN Val(NilAmt)
  ELSE IF Len(b) = 2 /\ b[2] = 0 THEN Val(Amt(FALSE, <<>>))
  ELSE IF b[1] \notin {0, 1} THEN Err
  ELSE Val(Amt(b[1] = 1, StripZeros(Tail(b))))

\* ------------------------------------------------------------ protobuf wire
\* varint of a TLC-sized natural (lengths)
RECURSIVE VarintN(_)
VarintN(n) == IF n < 128 THEN <<n>> ELSE <<128 + (n % 128)>> \o VarintN(n \div 128)
\* varint of a number given by its base-128 digits (least significant first, no trailing zero)
VarintD(d) == IF d = <<>> THEN <<0>> ELSE [i \in 1..Len(d) |-> IF i < Len(d) THEN 128 + d[i] ELSE d[i]]
IsDigits(d, maxLen, maxTop) ==
  /\ Len(d) <= maxLen /\ \A i \in 1..Len(d) : d[i] \in 0..127
  /\ (d # <<>> => d[Len(d)] # 0)
  /\ (Len(d) = maxLen => d[Len(d)] <= maxTop)
IsU32(d) == IsDigits(d, 5, 15)                        \* 32 = 4*7 + 4 bits
IsU64(d) == IsDigits(d, 10, 1)                        \* 64 = 9*7 + 1 bit
\* sizes are computed arithmetically, independently of the encoders (sovEsdt)
SizeVarintN(n) == IF n < 128 THEN 1 ELSE IF n < 16384 THEN 2 ELSE IF n < 2097152 THEN 3 ELSE IF n < 268435456 THEN 4 ELSE 5
SizeVarintD(d) == IF d = <<>> THEN 1 ELSE Len(d)

Tag(field, wt) == 8 * field + wt                      \* fields 1..15: a single byte
VarField(f, d) == IF d = <<>> THEN <<>> ELSE <<Tag(f, 0)>> \o VarintD(d)                 \* proto3: zero is omitted
LenField(f, b) == <<Tag(f, 2)>> \o VarintN(Len(b)) \o b                                 \* always written
BytesField(f, b) == IF b = <<>> THEN <<>> ELSE LenField(f, b)                           \* proto3: empty is omitted
RepField(f, bs) == Cat([i \in 1..Len(bs) |-> LenField(f, bs[i])])                       \* repeated: every element, even empty

SizeVarField(d) == IF d = <<>> THEN 0 ELSE 1 + SizeVarintD(d)
SizeLen(n) == 1 + n + SizeVarintN(n)
SizeBytesField(b) == IF b = <<>> THEN 0 ELSE SizeLen(Len(b))
RECURSIVE SumSeq(_)
SumSeq(ns) == IF ns = <<>> THEN 0 ELSE Head(ns) + SumSeq(Tail(ns))
SizeRepField(bs) == SumSeq([i \in 1..Len(bs) |-> SizeLen(Len(bs[i]))])

\* MetaData: Nonce=1 (uint64) Name=2 Creator=3 Royalties=4 (uint32) Hash=5 URIs=6 (repeated) Attributes=7
IsMeta(m) == IsU64(m.nonce) /\ IsU32(m.roy)
EncMeta(m) ==
  VarField(1, m.nonce) \o BytesField(2, m.name) \o BytesField(3, m.creator) \o VarField(4, m.roy)
  \o BytesField(5, m.hash) \o RepField(6, m.uris) \o BytesField(7, m.attr)
SizeMeta(m) ==
  SizeVarField(m.nonce) + SizeBytesField(m.name) + SizeBytesField(m.creator) + SizeVarField(m.roy)
  + SizeBytesField(m.hash) + SizeRepField(m.uris) + SizeBytesField(m.attr)

\* ESDigitalToken: Type=1 (uint32) Value=2 (amount codec, ALWAYS present) Properties=3 TokenMetaData=4 Reserved=5
\* the metadata is [has |-> FALSE] or [has |-> TRUE, m |-> MetaData]; a present empty message is written (tag, length 0)
NoMeta == [has |-> FALSE]
HasMeta(m) == [has |-> TRUE, m |-> m]
IsToken(t) == IsU32(t.type) /\ IsAmt(t.value) /\ (t.meta.has => IsMeta(t.meta.m))
EncToken(t) ==
  VarField(1, t.type) \o LenField(2, EncAmount(t.value)) \o BytesField(3, t.props)
  \o (IF t.meta.has THEN LenField(4, EncMeta(t.meta.m)) ELSE <<>>) \o BytesField(5, t.reserved)
SizeToken(t) ==
  SizeVarField(t.type) + SizeLen(SizeAmount(t.value)) + SizeBytesField(t.props)
  + (IF t.meta.has THEN SizeLen(SizeMeta(t.meta.m)) ELSE 0) + SizeBytesField(t.reserved)

\* ESDTRoles: Roles=1 (repeated bytes)
EncRoles(rs) == RepField(1, rs)
SizeRoles(rs) == SizeRepField(rs)

\* ------------------------------------------------------------------ decoder
\* A reader for the subset of the wire format the encoders above produce or nearly produce:
\* single-byte tags, wire types 0 (varint) and 2 (length-delimited), lengths below 2^21.  Anything
\* else is "unknown": the specification does not say how arbitrary bytes decode (DESIGN.md 5 C14 L).
ReadVarint(b, p) ==                                   \* [ok, raw digits, nx]
  LET ends == {i \in p..Len(b) : b[i] < 128} IN
  IF ends = {} THEN [ok |-> FALSE]
  ELSE LET e == Min(ends) IN
       IF e - p + 1 > 10 THEN [ok |-> FALSE]
       ELSE [ok |-> TRUE, d |-> [i \in 1..(e - p + 1) |-> b[p + i - 1] % 128], nx |-> e + 1]

NormDigits(d) ==                                      \* drop trailing zero digits
  LET nz == {i \in 1..Len(d) : d[i] # 0} IN IF nz = {} THEN <<>> ELSE SubSeq(d, 1, Max(nz))
RECURSIVE DigitsVal(_)
DigitsVal(d) == IF d = <<>> THEN 0 ELSE d[1] + 128 * DigitsVal(Tail(d))

RECURSIVE ReadFields(_, _, _)
ReadFields(b, p, acc) ==                              \* [ok, fs] ; fs: sequence of [num, wt, d] / [num, wt, p]
  IF p > Len(b) THEN [ok |-> TRUE, fs |-> acc]
  ELSE LET tag == b[p] IN
       IF tag >= 128 \/ tag \div 8 = 0 THEN [ok |-> FALSE]
       ELSE IF tag % 8 = 0 THEN
              LET v == ReadVarint(b, p + 1) IN
              IF ~v.ok THEN [ok |-> FALSE]
              ELSE ReadFields(b, v.nx, Append(acc, [num |-> tag \div 8, wt |-> 0, d |-> NormDigits(v.d), p |-> <<>>]))
       ELSE IF tag % 8 = 2 THEN
              LET v == ReadVarint(b, p + 1) IN
              IF ~v.ok \/ (v.ok /\ Len(NormDigits(v.d)) > 3) THEN [ok |-> FALSE]
              ELSE LET n == DigitsVal(NormDigits(v.d)) IN
                   IF v.nx + n - 1 > Len(b) THEN [ok |-> FALSE]
                   ELSE ReadFields(b, v.nx + n, Append(acc, [num |-> tag \div 8, wt |-> 2, d |-> <<>>, p |-> SubSeq(b, v.nx, v.nx + n - 1)]))
       ELSE [ok |-> FALSE]
Fields(b) == ReadFields(b, 1, <<>>)

Unknown == [cls |-> "unknown"]
FieldsOf(fs, num) == SelectSeq(fs, LAMBDA f : f.num = num)
Once(fs, nums) == \A n \in nums : Len(FieldsOf(fs, n)) <= 1
Digits1(fs, num) == LET x == FieldsOf(fs, num) IN IF x = <<>> THEN <<>> ELSE x[1].d
Bytes1(fs, num) == LET x == FieldsOf(fs, num) IN IF x = <<>> THEN <<>> ELSE x[1].p

DecMeta(b) ==
  LET r == Fields(b) IN
  IF ~r.ok THEN Unknown
  ELSE LET fs == r.fs IN
       IF \E i \in 1..Len(fs) : <<fs[i].num, fs[i].wt>> \notin {<<1, 0>>, <<2, 2>>, <<3, 2>>, <<4, 0>>, <<5, 2>>, <<6, 2>>, <<7, 2>>} THEN Unknown
       ELSE IF ~Once(fs, {1, 2, 3, 4, 5, 7}) THEN Unknown
       ELSE IF ~IsU64(Digits1(fs, 1)) \/ ~IsU32(Digits1(fs, 4)) THEN Unknown
       ELSE Val([nonce |-> Digits1(fs, 1), name |-> Bytes1(fs, 2), creator |-> Bytes1(fs, 3), roy |-> Digits1(fs, 4),
                 hash |-> Bytes1(fs, 5), uris |-> [i \in 1..Len(FieldsOf(fs, 6)) |-> FieldsOf(fs, 6)[i].p], attr |-> Bytes1(fs, 7)])

DecToken(b) ==
  LET r == Fields(b) IN
  IF ~r.ok THEN Unknown
  ELSE LET fs == r.fs IN
       IF \E i \in 1..Len(fs) : <<fs[i].num, fs[i].wt>> \notin {<<1, 0>>, <<2, 2>>, <<3, 2>>, <<4, 2>>, <<5, 2>>} THEN Unknown
       ELSE IF ~Once(fs, {1, 2, 3, 4, 5}) THEN Unknown
       ELSE IF ~IsU32(Digits1(fs, 1)) THEN Unknown
       ELSE LET amt == IF FieldsOf(fs, 2) = <<>> THEN Val(NilAmt) ELSE DecAmount(Bytes1(fs, 2))     \* an absent Value field reads as nil
                md == IF FieldsOf(fs, 4) = <<>> THEN Val(NoMeta)
                      ELSE LET m == DecMeta(Bytes1(fs, 4)) IN IF m.cls = "value" THEN Val(HasMeta(m.v)) ELSE m IN
            IF amt.cls = "error" THEN Err
            ELSE IF md.cls # "value" THEN Unknown
            ELSE Val([type |-> Digits1(fs, 1), value |-> amt.v, props |-> Bytes1(fs, 3), meta |-> md.v, reserved |-> Bytes1(fs, 5)])

DecRoles(b) ==
  LET r == Fields(b) IN
  IF ~r.ok THEN Unknown
  ELSE IF \E i \in 1..Len(r.fs) : <<r.fs[i].num, r.fs[i].wt>> # <<1, 2>> THEN Unknown
  ELSE Val([i \in 1..Len(r.fs) |-> r.fs[i].p])

\* canonical order: the field numbers of an encoding never decrease
TagsAscend(b) == LET r == Fields(b) IN r.ok /\ \A i \in 1..(Len(r.fs) - 1) : r.fs[i].num <= r.fs[i + 1].num

\* ---------------------------------------------------- ESDT-transfer parser
FnESDTTransfer == <<69, 83, 68, 84, 84, 114, 97, 110, 115, 102, 101, 114>>                                              \* "ESDTTransfer"
FnESDTNFTTransfer == <<69, 83, 68, 84, 78, 70, 84, 84, 114, 97, 110, 115, 102, 101, 114>>                                \* "ESDTNFTTransfer"
FnMultiESDTNFTTransfer == <<77, 117, 108, 116, 105, 69, 83, 68, 84, 78, 70, 84, 84, 114, 97, 110, 115, 102, 101, 114>>  \* "MultiESDTNFTTransfer"
Fungible == 0
NonFungible == 1

\* one parsed transfer: token id, nonce (canonical magnitude of the low 64 bits), type, amount
Xfer(tok, nonce, type, val) == [tok |-> tok, nonce |-> nonce, type |-> type, val |-> val]
Parsed(rcv, xs, fn, args) == Val([rcv |-> rcv, xs |-> xs, fn |-> fn, args |-> args])
Rest(args, from) == IF from > Len(args) THEN <<>> ELSE SubSeq(args, from, Len(args))
ArgOr(args, i) == IF i <= Len(args) THEN args[i] ELSE <<>>

\* item i (0-based) of a multi-transfer whose first item starts at argument `first` (1-based)
MultiItem(args, first, i, atSender) ==
  LET tok == args[first + 3 * i]
      nonce == U64(args[first + 3 * i + 1])
      raw == args[first + 3 * i + 2] IN
  IF nonce = <<>> THEN Val(Xfer(tok, nonce, Fungible, Amt(FALSE, StripZeros(raw))))
  ELSE IF atSender THEN Val(Xfer(tok, nonce, NonFungible, Amt(FALSE, StripZeros(raw))))
  ELSE \* destination side: the third argument of an NFT item is a marshalled ESDigitalToken
       LET t == DecToken(raw) IN
       IF t.cls = "error" THEN Err
       ELSE IF t.cls = "unknown" THEN Unspec           \* arbitrary bytes: value or error, the statement fixes only totality
       ELSE IF t.v.value.k = "nil" THEN Unspec         \* payload without an amount: value or error, never a panic
       ELSE Val(Xfer(tok, nonce, NonFungible, t.v.value))

ParseTransfers(snd, rcv, fn, args) ==
  IF fn = FnESDTTransfer THEN
    IF Len(args) < 2 THEN Err
    ELSE Parsed(rcv, <<Xfer(args[1], <<>>, Fungible, Amt(FALSE, StripZeros(args[2])))>>, ArgOr(args, 3), Rest(args, 4))
  ELSE IF fn = FnESDTNFTTransfer THEN
    IF Len(args) < 4 THEN Err
    ELSE Parsed(IF snd = rcv THEN args[4] ELSE rcv,
                <<Xfer(args[1], U64(args[2]), NonFungible, Amt(FALSE, StripZeros(args[3])))>>, ArgOr(args, 5), Rest(args, 6))
  ELSE IF fn = FnMultiESDTNFTTransfer THEN
    IF Len(args) < 4 THEN Err
    ELSE LET atSender == snd = rcv
             cnt == U64(IF atSender THEN args[2] ELSE args[1])        \* the count is truncated to 64 bits, as in the ledger
             first == IF atSender THEN 3 ELSE 2 IN                    \* 1-based position of the first item
         \* a count larger than the arguments can hold is an error: 3*cnt + (first-1) is computed over the
         \* integers, never modulo 2^64.  Argument lists are far shorter than 2^24, so a count of more than
         \* three bytes is always too large.
         IF Len(cnt) > 3 THEN Err
         ELSE LET n == BEVal(cnt)
                  need == 3 * n + first - 1 IN
              IF Len(args) < need THEN Err
              ELSE LET items == [i \in 1..n |-> MultiItem(args, first, i - 1, atSender)]
                       bad == {i \in 1..n : items[i].cls # "value"} IN
                   IF bad # {} THEN [cls |-> items[Min(bad)].cls]     \* the first failing item decides
                   ELSE Parsed(IF atSender THEN args[1] ELSE rcv, [i \in 1..n |-> items[i].v], ArgOr(args, need + 1), Rest(args, need + 2))
  ELSE Err

\* comparison of an observed / expected result: the class, and the value when it is a value
SameRes(obs, exp) == obs.cls = exp.cls /\ (exp.cls = "value" => obs.v = exp.v)

\* ------------------------------------------------ the builder as a state machine
\* txDataBuilder is a mutable object: a function name and a list of ELEMENT TEXTS (what is written between
\* the separators).  Every appending method hex-encodes the bytes it is given; SetLast stores its text as
\* it is; Func replaces the name; Clear empties both.  ToString / ToBytes / GetLast only observe.
B0 == [fn |-> <<>>, es |-> <<>>]
BPush(st, bytes) == [st EXCEPT !.es = Append(@, HexEncode(bytes))]
BPushElem(st, e) == BPush(st, ElemBytes(e))
IntElem(n) == [t |-> "int64", n |-> n]
StrElem(b) == [t |-> "str", b |-> b]
BoolElem(v) == [t |-> "bool", n |-> v]
FnIssue == <<105, 115, 115, 117, 101>>                                             \* "issue"
FnESDTBurn == <<69, 83, 68, 84, 66, 117, 114, 110>>                          \* "ESDTBurn"
CanName(w) ==
  CASE w = "canFreeze" -> <<99, 97, 110, 70, 114, 101, 101, 122, 101>>
    [] w = "canWipe" -> <<99, 97, 110, 87, 105, 112, 101>>
    [] w = "canPause" -> <<99, 97, 110, 80, 97, 117, 115, 101>>
    [] w = "canMint" -> <<99, 97, 110, 77, 105, 110, 116>>
    [] w = "canBurn" -> <<99, 97, 110, 66, 117, 114, 110>>
    [] w = "canTransferNFTCreateRole" -> <<99, 97, 110, 84, 114, 97, 110, 115, 102, 101, 114, 78, 70, 84, 67, 114, 101, 97, 116, 101, 82, 111, 108, 101>>
    [] w = "canAddSpecialRoles" -> <<99, 97, 110, 65, 100, 100, 83, 112, 101, 99, 105, 97, 108, 82, 111, 108, 101, 115>>
CanNames == {"canFreeze", "canWipe", "canPause", "canMint", "canBurn", "canTransferNFTCreateRole", "canAddSpecialRoles"}
BOp(st, o) ==
  CASE o.op = "func" -> [st EXCEPT !.fn = o.f]
    [] o.op = "elem" -> BPushElem(st, o.e)
    [] o.op = "true" -> BPushElem(st, BoolElem(1))
    [] o.op = "false" -> BPushElem(st, BoolElem(0))
    [] o.op = "setlast" -> IF st.es = <<>> THEN [st EXCEPT !.es = <<o.s>>] ELSE [st EXCEPT !.es[Len(st.es)] = o.s]
    [] o.op = "clear" -> B0
    \* the ESDT conveniences: the function name is REPLACED, the arguments are appended to what is there
    [] o.op = "issue" -> BPushElem(BPushElem(BPushElem(BPushElem([st EXCEPT !.fn = FnIssue], StrElem(o.tok)), StrElem(o.tick)), IntElem(o.sup)), [t |-> "byte", n |-> o.dec])
    [] o.op = "xfer" -> BPushElem(BPushElem([st EXCEPT !.fn = FnESDTTransfer], StrElem(o.tok)), IntElem(o.val))
    [] o.op = "xfernft" -> BPushElem(BPushElem(BPushElem([st EXCEPT !.fn = FnESDTNFTTransfer], StrElem(o.tok)), [t |-> "int", n |-> o.nonce]), IntElem(o.val))
    [] o.op = "burn" -> BPushElem(BPushElem([st EXCEPT !.fn = FnESDTBurn], StrElem(o.tok)), IntElem(o.val))
    [] o.op = "can" -> BPushElem(BPushElem(st, StrElem(CanName(o.w))), BoolElem(o.v))
BToString(st) == st.fn \o Cat([i \in 1..Len(st.es) |-> <<AT>> \o st.es[i]])
BLast(st) == IF st.es = <<>> THEN <<>> ELSE st.es[Len(st.es)]
\* the states a builder goes through under a sequence of operations (one per operation, after it)
RECURSIVE BRun(_, _, _)
BRun(st, ops, i) == IF i > Len(ops) THEN <<>> ELSE LET s2 == BOp(st, ops[i]) IN <<s2>> \o BRun(s2, ops, i + 1)
\* what the call-data grammar can represent: a non-empty name without '@', every element text valid hex
BRepresentable(st) == st.fn # <<>> /\ (\A i \in 1..Len(st.fn) : st.fn[i] # AT) /\ (\A i \in 1..Len(st.es) : HexOK(st.es[i]))
BMeaning(st) == [fn |-> st.fn, args |-> [i \in 1..Len(st.es) |-> HexDecode(st.es[i])]]

=============================================================================
