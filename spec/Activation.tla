----------------------------- MODULE Activation -----------------------------
(***************************************************************************)
(* Property C18: activation of built-in functions by confirmed epochs      *)
(* (builtInFunctions/baseEnabled.go), the registry the factory builds      *)
(* (builtInFunctions/factory.go, names of constants.go) and the binding of *)
(* every protocol name to the behaviour of that name.                      *)
(*                                                                         *)
(* Part 1 is a small state machine: a container is built for an activation *)
(* epoch, then epochs are confirmed in any order (regressions, repeats).   *)
(* The three functions that embed baseEnabled keep a flag that every       *)
(* notification overwrites; ActiveIff says that what they report is a      *)
(* function of the LAST notification only - "a notification was received   *)
(* and the last confirmed epoch >= the activation epoch" - and that every  *)
(* other function is always active.  Epochs are abstract values with an    *)
(* order Geq: small naturals for the exhaustive run, pairs of 16-bit limbs *)
(* (most significant first; TLC integers are 32-bit) for the 32-bit        *)
(* boundary run and for everything recorded from the real code.            *)
(*                                                                         *)
(* Part 2 describes, for every protocol name, one distinguishing scenario  *)
(* on a small world (start state S0, the call, the expected change of the  *)
(* complete projected world).  A factory that registers the behaviour of   *)
(* another name under a name produces a different change (checked for all  *)
(* 23 x 22 wrong bindings by the harness's self-test).                     *)
(***************************************************************************)
EXTENDS Helpers, TLC

(***************************************************************************)
(* The registry: the protocol's 23 built-in function names (constants.go)  *)
(***************************************************************************)
Registry ==
  {"ClaimDeveloperRewards", "ChangeOwnerAddress", "SetUserName", "SaveKeyValue",
   "ESDTTransfer", "ESDTBurn", "ESDTFreeze", "ESDTUnFreeze", "ESDTWipe", "ESDTPause", "ESDTUnPause",
   "ESDTSetRole", "ESDTUnSetRole", "ESDTLocalBurn", "ESDTLocalMint",
   "ESDTNFTAddQuantity", "ESDTNFTBurn", "ESDTNFTCreate", "ESDTNFTTransfer", "ESDTNFTCreateRoleTransfer",
   "ESDTNFTUpdateAttributes", "ESDTNFTAddURI", "MultiESDTNFTTransfer"}

\* the functions that embed baseEnabled and subscribe to the epoch notifier (ESDTNFTImprovementV1ActivationEpoch)
GatedFns == {"ESDTNFTAddURI", "ESDTNFTUpdateAttributes", "MultiESDTNFTTransfer"}

ASSUME Cardinality(Registry) = 23 /\ GatedFns \subseteq Registry

None == <<>>          \* no epoch confirmed yet; otherwise last = <<e>>

\* THE SPECIFICATION OF ACTIVATION: what function f must report after the notifications seen so far
ShouldBeActive(f, act, last, Geq(_, _)) == (f \in GatedFns) => (last # None /\ Geq(last[1], act))

GeqInt(a, b) == a >= b
GeqLimb(a, b) == LimbGeq(a, b)
\* the 32-bit boundaries 0, 1, 2^31-1, 2^31, 2^32-1 as limb pairs
BoundaryEpochs == {<<0, 0>>, <<0, 1>>, <<32767, 65535>>, <<32768, 0>>, <<65535, 65535>>}

(***************************************************************************)
(* Part 1: the state machine                                               *)
(***************************************************************************)
CONSTANTS Epochs,        \* epochs that may be confirmed
          ActEpochs,     \* activation epochs a container may be built for
          MaxLen,        \* length of the notification sequences explored
          Geq(_, _),     \* the order on epochs
          Emit,          \* TRUE: print every maximal behaviour for replay against the real containers
          Variant        \* "spec"; "strict" (> for >=) and "sticky" (never deactivates) must violate ActiveIff (non-vacuity)

VARIABLES act,           \* activation epoch the container was built with
          flag,          \* the activation flag of every gated function (atomic.Flag in baseEnabled)
          last,          \* <<the most recently confirmed epoch>>, or None
          hist           \* the notifications so far

avars == <<act, flag, last, hist>>

AInit == /\ act \in ActEpochs
         /\ flag = [f \in GatedFns |-> FALSE]       \* a fresh flag is unset
         /\ last = None
         /\ hist = <<>>

\* baseEnabled.EpochConfirmed, delivered to every subscriber: flag := epoch >= activationEpoch
Confirm(e) == /\ Len(hist) < MaxLen
              /\ flag' = [f \in GatedFns |-> CASE Variant = "strict" -> Geq(e, act) /\ e # act
                                               [] Variant = "sticky" -> flag[f] \/ Geq(e, act)
                                               [] OTHER -> Geq(e, act)]
              /\ last' = <<e>>
              /\ hist' = Append(hist, e)
              /\ UNCHANGED act

ANext == \E e \in Epochs : Confirm(e)
ASpec == AInit /\ [][ANext]_avars

IsActive(f) == IF f \in GatedFns THEN flag[f] ELSE TRUE      \* baseEnabled.IsActive / baseAlwaysActive.IsActive

ActiveIff == \A f \in Registry : IsActive(f) = ShouldBeActive(f, act, last, Geq)

\* consequences: activation is not sticky (a regression below the activation epoch deactivates) and not delayed
NotSticky == (last # None /\ ~Geq(last[1], act)) => \A f \in GatedFns : ~IsActive(f)
Immediate == (last # None /\ Geq(last[1], act)) => \A f \in GatedFns : IsActive(f)

\* generation: every behaviour of maximal length, printed once (its prefixes are the shorter behaviours)
EmitBehaviours == (Emit /\ Len(hist) = MaxLen) => PrintT(<<"BEH", act, hist>>)

(***************************************************************************)
(* Part 2: name -> behaviour.  The world: shard 0 of an n-shard world with *)
(* users u0a, u0b, contract c0a (owner u0a, developer reward 7), DNS       *)
(* contract d0; tokens FUNG-01 (u0a 10, u0b 4; u0a holds the local mint    *)
(* and burn roles), GFRZ-02 (u0a 6, frozen), HPAU-03 (paused), NFTK-04     *)
(* (u0a holds 5 of nonce 1 and all five NFT roles).  The world is written  *)
(* as the set of the non-default leaves "path=value" of its projection     *)
(* (harness/act.Flatten); the expected effect of a call is the set of      *)
(* leaves that disappear and the set that appear (the emitted messages and *)
(* the return data are leaves of the post-state).  The frozen and paused   *)
(* flags are shown as the real decoders read them (frozen=true / =true);   *)
(* their byte layout is the business of C20.                               *)
(*                                                                         *)
(* Scenario calls (caller -> recipient, arguments):                        *)
(*   ClaimDeveloperRewards  u0a -> c0a                                     *)
(*   ChangeOwnerAddress     u0a -> c0a, u0b                                *)
(*   SetUserName            d0 -> u0b, "user1"                             *)
(*   SaveKeyValue           u0a -> u0a, "key1", "val1"                     *)
(*   ESDTTransfer           u0a -> u0b, FUNG-01, 3                         *)
(*   ESDTBurn               u0a -> ESDT system contract, FUNG-01, 3        *)
(*   ESDTFreeze             system contract -> u0b, FUNG-01                *)
(*   ESDTUnFreeze / ESDTWipe  system contract -> u0a, GFRZ-02              *)
(*   ESDTPause FUNG-01 / ESDTUnPause HPAU-03   system contract -> system account *)
(*   ESDTSetRole            system contract -> u0b, FUNG-01, LocalMint     *)
(*   ESDTUnSetRole          system contract -> u0a, FUNG-01, LocalMint     *)
(*   ESDTLocalBurn / ESDTLocalMint   u0a -> u0a, FUNG-01, 2                *)
(*   ESDTNFTAddQuantity / ESDTNFTBurn  u0a -> u0a, NFTK-04, nonce 1, 2     *)
(*   ESDTNFTCreate          u0a -> u0a, NFTK-04, 3, name2, 200, hash2, attr2, uri2 *)
(*   ESDTNFTTransfer        u0a -> u0a, NFTK-04, nonce 1, 2, destination u0b *)
(*   ESDTNFTCreateRoleTransfer  system contract -> u0a, NFTK-04, u0b       *)
(*   ESDTNFTUpdateAttributes  u0a -> u0a, NFTK-04, nonce 1, "attr9"        *)
(*   ESDTNFTAddURI          u0a -> u0a, NFTK-04, nonce 1, "uri9"           *)
(*   MultiESDTNFTTransfer   u0a -> u0a, destination u0b, 2 items: (FUNG-01, 0, 2), (NFTK-04, 1, 1) *)
(***************************************************************************)
S0 ==
  {"w.acct.c0a.dev=7",
   "w.acct.c0a.owner=u0a",
   "w.acct.u0a.ctr.'NFTK-04'=1",
   "w.acct.u0a.esdt.'FUNG-01'.val=10",
   "w.acct.u0a.esdt.'GFRZ-02'.frozen=true",
   "w.acct.u0a.esdt.'GFRZ-02'.val=6",
   "w.acct.u0a.esdt.'NFTK-04'#01.hm=true",
   "w.acct.u0a.esdt.'NFTK-04'#01.meta.attrs='attr1'",
   "w.acct.u0a.esdt.'NFTK-04'#01.meta.creator=u0a",
   "w.acct.u0a.esdt.'NFTK-04'#01.meta.hash='hash1'",
   "w.acct.u0a.esdt.'NFTK-04'#01.meta.name='name1'",
   "w.acct.u0a.esdt.'NFTK-04'#01.meta.nonce=1",
   "w.acct.u0a.esdt.'NFTK-04'#01.meta.roy=100",
   "w.acct.u0a.esdt.'NFTK-04'#01.meta.uris.0='uri1'",
   "w.acct.u0a.esdt.'NFTK-04'#01.type=1",
   "w.acct.u0a.esdt.'NFTK-04'#01.val=5",
   "w.acct.u0a.roles.'FUNG-01'.0='ESDTRoleLocalMint'",
   "w.acct.u0a.roles.'FUNG-01'.1='ESDTRoleLocalBurn'",
   "w.acct.u0a.roles.'NFTK-04'.0='ESDTRoleNFTCreate'",
   "w.acct.u0a.roles.'NFTK-04'.1='ESDTRoleNFTAddQuantity'",
   "w.acct.u0a.roles.'NFTK-04'.2='ESDTRoleNFTBurn'",
   "w.acct.u0a.roles.'NFTK-04'.3='ESDTRoleNFTAddURI'",
   "w.acct.u0a.roles.'NFTK-04'.4='ESDTRoleNFTUpdateAttributes'",
   "w.acct.u0b.esdt.'FUNG-01'.val=4",
   "w.paused.0.'HPAU-03'=true"}
Sig(n) ==
  CASE n = "ClaimDeveloperRewards" ->
         [del |-> {"w.acct.c0a.dev=7"},
          add |-> {"w.acct.u0a.egld=7",
                   "w.emitted.0.from=u0a",
                   "w.emitted.0.to=u0a",
                   "w.emitted.0.value=7"}]
    [] n = "ChangeOwnerAddress" ->
         [del |-> {"w.acct.c0a.owner=u0a"},
          add |-> {"w.acct.c0a.owner=u0b"}]
    [] n = "SetUserName" ->
         [del |-> {},
          add |-> {"w.acct.u0b.uname='user1'"}]
    [] n = "SaveKeyValue" ->
         [del |-> {},
          add |-> {"w.acct.u0a.kv.'key1'='val1'"}]
    [] n = "ESDTTransfer" ->
         [del |-> {"w.acct.u0a.esdt.'FUNG-01'.val=10",
                   "w.acct.u0b.esdt.'FUNG-01'.val=4"},
          add |-> {"w.acct.u0a.esdt.'FUNG-01'.val=7",
                   "w.acct.u0b.esdt.'FUNG-01'.val=7"}]
    [] n = "ESDTBurn" ->
         [del |-> {"w.acct.u0a.esdt.'FUNG-01'.val=10"},
          add |-> {"w.acct.u0a.esdt.'FUNG-01'.val=7"}]
    [] n = "ESDTFreeze" ->
         [del |-> {},
          add |-> {"w.acct.u0b.esdt.'FUNG-01'.frozen=true"}]
    [] n = "ESDTUnFreeze" ->
         [del |-> {"w.acct.u0a.esdt.'GFRZ-02'.frozen=true"},
          add |-> {}]
    [] n = "ESDTWipe" ->
         [del |-> {"w.acct.u0a.esdt.'GFRZ-02'.frozen=true",
                   "w.acct.u0a.esdt.'GFRZ-02'.val=6"},
          add |-> {}]
    [] n = "ESDTPause" ->
         [del |-> {},
          add |-> {"w.paused.0.'FUNG-01'=true"}]
    [] n = "ESDTUnPause" ->
         [del |-> {"w.paused.0.'HPAU-03'=true"},
          add |-> {}]
    [] n = "ESDTSetRole" ->
         [del |-> {},
          add |-> {"w.acct.u0b.roles.'FUNG-01'.0='ESDTRoleLocalMint'"}]
    [] n = "ESDTUnSetRole" ->
         [del |-> {"w.acct.u0a.roles.'FUNG-01'.0='ESDTRoleLocalMint'",
                   "w.acct.u0a.roles.'FUNG-01'.1='ESDTRoleLocalBurn'"},
          add |-> {"w.acct.u0a.roles.'FUNG-01'.0='ESDTRoleLocalBurn'"}]
    [] n = "ESDTLocalBurn" ->
         [del |-> {"w.acct.u0a.esdt.'FUNG-01'.val=10"},
          add |-> {"w.acct.u0a.esdt.'FUNG-01'.val=8"}]
    [] n = "ESDTLocalMint" ->
         [del |-> {"w.acct.u0a.esdt.'FUNG-01'.val=10"},
          add |-> {"w.acct.u0a.esdt.'FUNG-01'.val=12"}]
    [] n = "ESDTNFTAddQuantity" ->
         [del |-> {"w.acct.u0a.esdt.'NFTK-04'#01.val=5"},
          add |-> {"w.acct.u0a.esdt.'NFTK-04'#01.val=7"}]
    [] n = "ESDTNFTBurn" ->
         [del |-> {"w.acct.u0a.esdt.'NFTK-04'#01.val=5"},
          add |-> {"w.acct.u0a.esdt.'NFTK-04'#01.val=3"}]
    [] n = "ESDTNFTCreate" ->
         [del |-> {"w.acct.u0a.ctr.'NFTK-04'=1"},
          add |-> {"w.acct.u0a.ctr.'NFTK-04'=2",
                   "w.acct.u0a.esdt.'NFTK-04'#02.hm=true",
                   "w.acct.u0a.esdt.'NFTK-04'#02.meta.attrs='attr2'",
                   "w.acct.u0a.esdt.'NFTK-04'#02.meta.creator=u0a",
                   "w.acct.u0a.esdt.'NFTK-04'#02.meta.hash='hash2'",
                   "w.acct.u0a.esdt.'NFTK-04'#02.meta.name='name2'",
                   "w.acct.u0a.esdt.'NFTK-04'#02.meta.nonce=2",
                   "w.acct.u0a.esdt.'NFTK-04'#02.meta.roy=200",
                   "w.acct.u0a.esdt.'NFTK-04'#02.meta.uris.0='uri2'",
                   "w.acct.u0a.esdt.'NFTK-04'#02.type=1",
                   "w.acct.u0a.esdt.'NFTK-04'#02.val=3",
                   "w.ret.0=0x02"}]
    [] n = "ESDTNFTTransfer" ->
         [del |-> {"w.acct.u0a.esdt.'NFTK-04'#01.val=5"},
          add |-> {"w.acct.u0a.esdt.'NFTK-04'#01.val=3",
                   "w.acct.u0b.esdt.'NFTK-04'#01.hm=true",
                   "w.acct.u0b.esdt.'NFTK-04'#01.meta.attrs='attr1'",
                   "w.acct.u0b.esdt.'NFTK-04'#01.meta.creator=u0a",
                   "w.acct.u0b.esdt.'NFTK-04'#01.meta.hash='hash1'",
                   "w.acct.u0b.esdt.'NFTK-04'#01.meta.name='name1'",
                   "w.acct.u0b.esdt.'NFTK-04'#01.meta.nonce=1",
                   "w.acct.u0b.esdt.'NFTK-04'#01.meta.roy=100",
                   "w.acct.u0b.esdt.'NFTK-04'#01.meta.uris.0='uri1'",
                   "w.acct.u0b.esdt.'NFTK-04'#01.type=1",
                   "w.acct.u0b.esdt.'NFTK-04'#01.val=2"}]
    [] n = "ESDTNFTCreateRoleTransfer" ->
         [del |-> {"w.acct.u0a.ctr.'NFTK-04'=1",
                   "w.acct.u0a.roles.'NFTK-04'.0='ESDTRoleNFTCreate'",
                   "w.acct.u0a.roles.'NFTK-04'.1='ESDTRoleNFTAddQuantity'",
                   "w.acct.u0a.roles.'NFTK-04'.2='ESDTRoleNFTBurn'",
                   "w.acct.u0a.roles.'NFTK-04'.3='ESDTRoleNFTAddURI'",
                   "w.acct.u0a.roles.'NFTK-04'.4='ESDTRoleNFTUpdateAttributes'"},
          add |-> {"w.acct.u0a.roles.'NFTK-04'.0='ESDTRoleNFTAddQuantity'",
                   "w.acct.u0a.roles.'NFTK-04'.1='ESDTRoleNFTBurn'",
                   "w.acct.u0a.roles.'NFTK-04'.2='ESDTRoleNFTAddURI'",
                   "w.acct.u0a.roles.'NFTK-04'.3='ESDTRoleNFTUpdateAttributes'",
                   "w.acct.u0b.ctr.'NFTK-04'=1",
                   "w.acct.u0b.roles.'NFTK-04'.0='ESDTRoleNFTCreate'",
                   "w.emitted.0.args.0='NFTK-04'",
                   "w.emitted.0.args.1=01",
                   "w.emitted.0.fn=ESDTNFTCreateRoleTransfer",
                   "w.emitted.0.from=u0a",
                   "w.emitted.0.to=u0b",
                   "w.emitted.0.value=0"}]
    [] n = "ESDTNFTUpdateAttributes" ->
         [del |-> {"w.acct.u0a.esdt.'NFTK-04'#01.meta.attrs='attr1'"},
          add |-> {"w.acct.u0a.esdt.'NFTK-04'#01.meta.attrs='attr9'"}]
    [] n = "ESDTNFTAddURI" ->
         [del |-> {},
          add |-> {"w.acct.u0a.esdt.'NFTK-04'#01.meta.uris.1='uri9'"}]
    [] n = "MultiESDTNFTTransfer" ->
         [del |-> {"w.acct.u0a.esdt.'FUNG-01'.val=10",
                   "w.acct.u0a.esdt.'NFTK-04'#01.val=5",
                   "w.acct.u0b.esdt.'FUNG-01'.val=4"},
          add |-> {"w.acct.u0a.esdt.'FUNG-01'.val=8",
                   "w.acct.u0a.esdt.'NFTK-04'#01.val=4",
                   "w.acct.u0b.esdt.'FUNG-01'.val=6",
                   "w.acct.u0b.esdt.'NFTK-04'#01.hm=true",
                   "w.acct.u0b.esdt.'NFTK-04'#01.meta.attrs='attr1'",
                   "w.acct.u0b.esdt.'NFTK-04'#01.meta.creator=u0a",
                   "w.acct.u0b.esdt.'NFTK-04'#01.meta.hash='hash1'",
                   "w.acct.u0b.esdt.'NFTK-04'#01.meta.name='name1'",
                   "w.acct.u0b.esdt.'NFTK-04'#01.meta.nonce=1",
                   "w.acct.u0b.esdt.'NFTK-04'#01.meta.roy=100",
                   "w.acct.u0b.esdt.'NFTK-04'#01.meta.uris.0='uri1'",
                   "w.acct.u0b.esdt.'NFTK-04'#01.type=1",
                   "w.acct.u0b.esdt.'NFTK-04'#01.val=1"}]
    [] OTHER -> [del |-> {"no scenario"}, add |-> {"no scenario"}]

\* the steps that build S0 through the real functions must all have succeeded
SetupOK == <<"ESDTTransfer:ok", "ESDTTransfer:ok", "ESDTTransfer:ok", "ESDTFreeze:ok", "ESDTPause:ok", "ESDTSetRole:ok", "ESDTSetRole:ok", "ESDTNFTCreate:ok">>

\* a recorded scenario run (result, setup results, leaves before and after) shows the behaviour of name n
ShowsBehaviour(n, res, setup, pre, post) ==
  /\ res = "ok"
  /\ setup = SetupOK
  /\ pre = S0
  /\ pre \ post = Sig(n).del
  /\ post \ pre = Sig(n).add

\* the 23 scenarios are pairwise different already at the level of the specification
ASSUME \A n1, n2 \in Registry : n1 # n2 => Sig(n1) # Sig(n2)
ASSUME \A n \in Registry : Sig(n).del \subseteq S0 /\ Sig(n).add \cap S0 = {} /\ Sig(n).del \cup Sig(n).add # {}
=============================================================================
