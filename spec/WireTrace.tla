------------------------------ MODULE WireTrace ------------------------------
(***************************************************************************)
(* (T) for C12 and C14: validation of an OBSERVED table.  Every line of    *)
(* observed.ndjson records one execution of the real parsers / builder /   *)
(* Marshal / Unmarshal / Size of /repo on one input (from a TLC-generated  *)
(* case table or from the seeded random drivers of the harness): the       *)
(* input, the result class of every call (value / error / panic) and the   *)
(* values.  One line is consumed per step; TLC re-evaluates the operators  *)
(* of Wire.tla on the recorded INPUT and compares with the recorded        *)
(* OUTPUT.  The names of the violated predicates are printed per line      *)
(* (<<"VIOL", line, {names}>>), the last line printed is                   *)
(* <<"DONE", lines, violations, counters>>.                                *)
(*                                                                         *)
(* Only what the property statements fix is compared: result class and     *)
(* value; never the identity or text of an error.                          *)
(***************************************************************************)
EXTENDS Wire, Json, TLC

CONSTANT Checked                                       \* names of the predicates this run evaluates

Log == ndJsonDeserialize("observed.ndjson")

VARIABLES l, nviol, cnt
tvars == <<l, nviol, cnt>>

Has(r, f) == f \in DOMAIN r
Evaluable(r) == ~Has(r, "big")                         \* rows whose input was too long to log carry only lengths and classes

\* ====================================================================== C12
\* other messages of the built-in functions' own encoder (k = "omsg"): what the data string must say, read off the row's inputs
FnHandover == <<69, 83, 68, 84, 78, 70, 84, 67, 114, 101, 97, 116, 101, 82, 111, 108, 101, 84, 114, 97, 110, 115, 102, 101, 114>>   \* "ESDTNFTCreateRoleTransfer"
OMsgFn(r) == IF r.sub = "handover" THEN FnHandover ELSE r.call[1]
OMsgArgs(r) == IF r.sub = "handover" THEN <<r.tok, StripZeros(r.ctr)>>             \* token id and the counter as a minimal big-endian number
               ELSE [i \in 1..(Len(r.call) - 1) |-> r.call[i + 1]]                 \* the attached call's own arguments, empty ones included

\* P12_Total: every call made for this row returned a value or an error (the harness records "panic"
\* from recover(); the specification has no such outcome)
P12_Total(r) == \A i \in 1..Len(r.cl) : r.cl[i] \in {"value", "error"}

\* builder histories (k = "bhist"): r.ops is the sequence of operations applied to ONE builder object, r.obs[i] what ToString,
\* ToBytes and GetLast returned after operation i and what the real call parser made of that string
BHistAgrees(r) ==
  LET sts == BRun(B0, r.ops, 1) IN
  /\ Len(r.obs) = Len(r.ops)
  /\ \A i \in 1..Len(r.ops) : /\ r.obs[i].s = BToString(sts[i]) /\ r.obs[i].b = r.obs[i].s /\ r.obs[i].last = BLast(sts[i])
                               /\ SameRes(r.obs[i].parse, ParseCall(r.obs[i].s))
BHistInverse(r) ==
  LET sts == BRun(B0, r.ops, 1) IN
  \A i \in 1..Len(r.ops) : BRepresentable(sts[i]) => SameRes(r.obs[i].parse, Val(BMeaning(sts[i])))

Agree(obs, exp) == exp.cls = "unspec" \/ SameRes(obs, exp)

\* the items / receiver / attached call a transfer message must carry, read off the sender-side call
MsgSenderView(r) ==
  IF r.which = FnESDTTransfer THEN ParseTransfers(r.snd, r.rcv, r.which, r.in)
  ELSE ParseTransfers(r.snd, r.snd, r.which, r.in)     \* NFT and multi transfers are addressed to the sender itself

\* P12_Agrees: result class and value equal the transcription's
P12_Agrees(r) ==
  IF ~Evaluable(r) THEN TRUE
  ELSE CASE r.k = "str" -> /\ SameRes(r.call, ParseCall(r.s))
                           /\ SameRes(r.deploy, ParseDeploy(r.s))
                           /\ SameRes(r.su, ParseSU(r.s))
         [] r.k = "xfer" -> Agree(r.res, ParseTransfers(r.snd, r.rcv, r.fn, r.args))
         [] r.k = "build" -> r.bcls = "value" => /\ r.data = BuildElems(r.f, r.es)          \* function + '@' + lower-case hex per element
                                                 /\ SameRes(r.parse, ParseCall(r.data))
         [] r.k = "deploy" -> r.bcls = "value" => /\ r.data = BuildDeploy(r.code, r.vm, r.meta, r.args)
                                                  /\ SameRes(r.parse, ParseDeploy(r.data))
         [] r.k = "su" -> r.bcls = "value" => /\ r.data = CreateSU(r.us)
                                              /\ r.pin \in {r.data, <<AT>> \o r.data}        \* what the parser was given
                                              /\ SameRes(r.parse, ParseSU(r.pin))
         [] r.k = "bhist" -> r.bcls = "value" => BHistAgrees(r)
         [] r.k = "omsg" -> r.res = "ok" => SameRes(r.parse, ParseCall(r.data))
         [] r.k = "msg" -> r.res = "ok" => /\ SameRes(r.parse, ParseCall(r.data))
                                           /\ r.parse.cls = "value" => Agree(r.dst, ParseTransfers(r.snd, r.rcv, r.parse.v.fn, r.parse.v.args))
         [] OTHER -> TRUE

\* P12_Inverse: parse(build(x)) = x for everything the grammar can represent (DESIGN.md 7.4):
\* function names are non-empty without '@'; deploy data has non-empty code and VM type; storage-update
\* lists are non-empty with non-empty offsets; a transfer message carries the sender's items and attached call
InverseDemanded(r) ==
  CASE r.k = "build" -> r.f # <<>> /\ \A i \in 1..Len(r.f) : r.f[i] # AT
    [] r.k = "deploy" -> r.code # <<>> /\ r.vm # <<>>
    [] r.k = "su" -> r.us # <<>> /\ \A i \in 1..Len(r.us) : r.us[i].o # <<>>
    [] r.k = "msg" -> r.res = "ok" /\ MsgSenderView(r).cls = "value"
    [] r.k = "omsg" -> r.res = "ok" /\ (r.sub = "handover" \/ (r.call # <<>> /\ r.call[1] # <<>> /\ \A i \in 1..Len(r.call[1]) : r.call[1][i] # AT))
    [] r.k = "bhist" -> r.bcls = "value" /\ \E i \in 1..Len(r.ops) : BRepresentable(BRun(B0, r.ops, 1)[i])
    [] OTHER -> FALSE
P12_Inverse(r) ==
  IF ~Evaluable(r) \/ ~InverseDemanded(r) THEN TRUE
  ELSE CASE r.k = "build" -> /\ SameRes(r.parse, Val([fn |-> r.f, args |-> [i \in 1..Len(r.es) |-> ElemBytes(r.es[i])]]))
                             /\ r.data2 = r.data                                           \* build - parse - build gives the same string
         [] r.k = "deploy" -> SameRes(r.parse, Val([code |-> r.code, vm |-> r.vm, meta |-> r.meta, args |-> r.args]))
         [] r.k = "su" -> SameRes(r.parse, Val(r.us)) /\ r.data2 = r.data
         [] r.k = "bhist" -> BHistInverse(r)
         [] r.k = "omsg" -> SameRes(r.parse, Val([fn |-> OMsgFn(r), args |-> OMsgArgs(r)]))
         [] r.k = "msg" -> \* what can be observed of the unexported message encoder: the emitted string parses, names the
                           \* function, is exactly what the builder makes of its own parse (so parse inverts the encoder on it),
                           \* and the attached call read off the message is the one the sender attached.  Token amounts and
                           \* payloads are ledger semantics (C01, C10) and are not compared here.
                           /\ r.parse.cls = "value" /\ r.parse.v.fn = r.which
                           /\ Build(r.parse.v.fn, r.parse.v.args) = r.data /\ r.data2 = r.data
                           /\ LET sv == MsgSenderView(r)
                                  dv == ParseTransfers(r.snd, r.rcv, r.parse.v.fn, r.parse.v.args) IN
                              dv.cls = "value" /\ dv.v.fn = sv.v.fn /\ dv.v.args = sv.v.args /\ dv.v.rcv = sv.v.rcv

\* ====================================================================== C14
Enc(k, v) == CASE k = "amt" -> EncAmount(v) [] k = "tok" -> EncToken(v) [] k = "meta" -> EncMeta(v) [] k = "roles" -> EncRoles(v)
SizeOf(k, v) == CASE k = "amt" -> SizeAmount(v) [] k = "tok" -> SizeToken(v) [] k = "meta" -> SizeMeta(v) [] k = "roles" -> SizeRoles(v)
WellTyped(k, v) == CASE k = "amt" -> IsAmt(v) [] k = "tok" -> IsToken(v) [] k = "meta" -> IsMeta(v) [] k = "roles" -> TRUE

\* P14_DecodeTotal: every decoding made for this row returned a value or an error
P14_DecodeTotal(r) == \A i \in 1..Len(r.cl) : r.cl[i] \in {"value", "error"}
\* P14_Bytes: Marshal produces exactly the documented wire format (the reference encoder's bytes)
P14_Bytes(r) == Has(r, "v") => r.mcls = "value" /\ r.b1 = Enc(r.k, r.v)
\* P14_Size: the reported size equals the encoded length
P14_Size(r) == Has(r, "v") => r.size = Len(r.b1) /\ r.size = SizeOf(r.k, r.v)
\* P14_Deterministic: two encodings of the same value are byte-identical
P14_Deterministic(r) == Has(r, "v") => r.b1 = r.b2
\* P14_RoundTrip: decoding the encoding yields an equal value; so does decoding the reference encoder's bytes
P14_RoundTrip(r) == Has(r, "v") => /\ SameRes(r.back, Val(r.v))
                                   /\ Has(r, "tback") => SameRes(r.tback, Val(r.v))

\* ================================================================= dispatch
Pred(name, r) ==
  CASE name = "P12_Total" -> P12_Total(r) [] name = "P12_Agrees" -> P12_Agrees(r) [] name = "P12_Inverse" -> P12_Inverse(r)
    [] name = "P14_Bytes" -> P14_Bytes(r) [] name = "P14_RoundTrip" -> P14_RoundTrip(r) [] name = "P14_Size" -> P14_Size(r)
    [] name = "P14_Deterministic" -> P14_Deterministic(r) [] name = "P14_DecodeTotal" -> P14_DecodeTotal(r)
    [] OTHER -> TRUE
PredNames == {"P12_Total", "P12_Agrees", "P12_Inverse", "P14_Bytes", "P14_RoundTrip", "P14_Size", "P14_Deterministic", "P14_DecodeTotal"}
C12Kinds == {"str", "xfer", "build", "deploy", "su", "msg", "bhist", "omsg"}
C14Kinds == {"amt", "tok", "meta", "roles"}

\* vacuity counters: what the table exercised
Counters == {"rows", "evaluated", "value", "error", "panic", "inverse", "unspec", "table", "random", "illtyped",
             "str", "xfer", "build", "deploy", "su", "msg", "bhist", "bhist_reuse", "omsg", "amt", "tok", "meta", "roles", "decoded", "rejected", "xfer_value", "xfer_error"}
Cnt0 == [k \in Counters |-> 0]
Triggers(r) ==
  {"rows", r.k}
  \cup (IF Evaluable(r) THEN {"evaluated"} ELSE {})
  \cup {c \in {"value", "error", "panic"} : \E i \in 1..Len(r.cl) : r.cl[i] = c}
  \cup (IF r.src = "table" THEN {"table"} ELSE {"random"})
  \cup (IF r.k \in C12Kinds /\ Evaluable(r) /\ InverseDemanded(r) THEN {"inverse"} ELSE {})
  \cup (IF r.k = "xfer" /\ Evaluable(r) THEN (LET e == ParseTransfers(r.snd, r.rcv, r.fn, r.args).cls IN
                                               IF e = "unspec" THEN {"unspec"} ELSE IF e = "value" THEN {"xfer_value"} ELSE {"xfer_error"}) ELSE {})
  \* a builder history in which an observation is followed by a change that does not add an element (Func, SetLast, Clear)
  \cup (IF r.k = "bhist" /\ \E i \in 2..Len(r.ops) : r.ops[i].op \in {"func", "setlast", "clear"} THEN {"bhist_reuse"} ELSE {})
  \cup (IF r.k \in C14Kinds /\ Has(r, "in") THEN (IF r.dcls = "value" THEN {"decoded"} ELSE {"rejected"}) ELSE {})
  \cup (IF r.k \in C14Kinds /\ Has(r, "v") /\ ~WellTyped(r.k, r.v) THEN {"illtyped"} ELSE {})

Init == l = 1 /\ nviol = 0 /\ cnt = Cnt0

Step ==
  /\ l <= Len(Log)
  /\ LET r == Log[l]
         bad == {p \in PredNames \cap Checked : ~Pred(p, r)}
         trig == Triggers(r) IN
     /\ (bad # {} => PrintT(<<"VIOL", l, bad>>))
     /\ nviol' = nviol + Cardinality(bad)
     /\ cnt' = [k \in Counters |-> cnt[k] + (IF k \in trig THEN 1 ELSE 0)]
  /\ l' = l + 1

Next == Step
Spec == Init /\ [][Next]_tvars

\* the run examined the whole table
Finished == (l = Len(Log) + 1) => PrintT(<<"DONE", l - 1, nviol, cnt>>)
=============================================================================
