----------------------------- MODULE StepProps -----------------------------
(***************************************************************************)
(* Step predicates: (w, ev, w2, h, r).  r is the specification's result    *)
(* for the recorded call on the recorded pre-state; r.unk = the model      *)
(* makes no prediction (values outside what it represents).                *)
(***************************************************************************)
EXTENDS Props

Pred(r) == ~r.unk
NoIds(ms) == [i \in 1..Len(ms) |-> [SemMsg(ms[i]) EXCEPT !.id = 0]]
MetaNZ(w) == [a \in Accts(w) |-> [k \in {x \in DOMAIN w.acct[a].esdt : w.acct[a].esdt[x].hm} |-> w.acct[a].esdt[k].meta]]
SupplyFns == {"ESDTLocalMint", "ESDTNFTAddQuantity", "ESDTNFTCreate", "ESDTLocalBurn", "ESDTBurn", "ESDTNFTBurn", "ESDTWipe"}
RoleGated == {"ESDTLocalMint", "ESDTLocalBurn", "ESDTNFTCreate", "ESDTNFTAddQuantity", "ESDTNFTBurn", "ESDTNFTAddURI", "ESDTNFTUpdateAttributes"}
RoleFor(fn) == CASE fn = "ESDTLocalMint" -> RoleMint [] fn = "ESDTLocalBurn" -> RoleBurn [] fn = "ESDTNFTCreate" -> RoleCreate
                 [] fn = "ESDTNFTAddQuantity" -> RoleAddQ [] fn = "ESDTNFTBurn" -> RoleNBurn [] fn = "ESDTNFTAddURI" -> RoleAddURI
                 [] OTHER -> RoleUpd
FlagFns == {"ESDTFreeze", "ESDTUnFreeze", "ESDTPause", "ESDTUnPause"}
AcctFns == {"ChangeOwnerAddress", "ClaimDeveloperRewards", "SetUserName"}
IsIssue(ev) == ev.fn = "ESDTTransfer" /\ ev.caller = ESDTSC

---------------------------------------------------------------------------
\* A refusal that is about gas only: the harness ran the same call on the same pre-state with ample gas first (undone afterwards) and that
\* run succeeded (x.used is logged exactly then).  Whether the price behind such a refusal is right is C06 / C16's question.
GasRefusal(ev) == ev.a = "exec" /\ ~IsOk(ev) /\ "used" \in DOMAIN ev.x

\* C01
\* Exactness is judged against the PERMISSIVE reference rp (flags cleared, everything payable, every role, ample gas): whether the
\* call should have been refused for a flag, payability, a role or gas is the business of C04 / C09 / C03 / C06, not of C01.  Likewise a call
\* the permissive reference refuses (overdraft: C02; inadmissible destination: C09; hash mismatch: C08; malformed shape: C11) but the code accepts
\* is not judged here: what it does to the sums is still covered by TransferConservation.
P01_Exact(w, ev, w2, h, r, rp) ==
  (Call(ev) /\ ev.fn \in TokenFns /\ IsOk(ev) /\ Pred(rp) /\ rp.ok) => (Bal(w2) = Bal(rp.w) /\ Carried(w2) = Carried(rp.w))
\* a cross-shard transfer message the reference accepts (destination not frozen / paused / unpayable) is accepted and credited by the destination shard
P01_DeliveryAccepted(w, ev, w2, h, r) ==
  (ev.a = "deliver" /\ ev.fn \in TokenFns /\ ~ev.rae /\ Pred(r) /\ r.ok) => IsOk(ev)
\* stated without the reference operator: a delivery to a destination that carries no flag at all, is payable and holds no
\* entry with metadata under the delivered keys is accepted
NominalDest(w, ev) ==
  /\ Known(ev.rcpt) /\ ev.rcpt \in Accts(w) /\ ShardOfA(ev.rcpt) >= 0
  /\ \A k \in DOMAIN w.acct[ev.rcpt].esdt : ~FlagSet(w.acct[ev.rcpt].esdt[k].props) /\ w.acct[ev.rcpt].esdt[k].type = 0
  /\ \A t \in DOMAIN w.paused[ShStr(ShardOfA(ev.rcpt))] : ~FlagSet(w.paused[ShStr(ShardOfA(ev.rcpt))][t])
  /\ PayableOK(w, ev.rcpt)
  /\ w.acct[ev.rcpt].bad = <<>>
\* the same, stated without the reference operator, for the plainest destination (NominalDest)
P01_DeliveryNominal(w, ev, w2, h, r) ==
  (ev.a = "deliver" /\ ev.fn \in TokenFns /\ ~ev.rae /\ NominalDest(w, ev) /\ \A x \in Range(MsgItems([fn |-> ev.fn, args |-> ev.args])) : x.qty > 0) => IsOk(ev)
\* a return-after-error refund the reference accepts is accepted and restores exactly the reference's balances
P01_RefundRestores(w, ev, w2, h, r) ==
  (ev.a = "deliver" /\ ev.fn \in TokenFns /\ ev.rae /\ Pred(r) /\ r.ok) => (IsOk(ev) /\ Bal(w2) = Bal(r.w))
\* a refused transfer call changes no balance and adds or removes no in-flight transfer
P01_FailKeeps(w, ev, w2, h, r) ==
  (Call(ev) /\ ev.fn \in TokenFns /\ ~IsOk(ev)) => (Bal(w2) = Bal(w) /\ {<<x[1], x[4]>> : x \in Carried(w2)} = {<<x[1], x[4]>> : x \in Carried(w)})

\* C02
\* a nominal supply call is not refused (gas refusals aside) and an accepted one changes balances by exactly the stated amount (permissive reference); a wipe removes exactly the frozen holding
P02_Delta(w, ev, w2, h, r, rp) ==
  (Call(ev) /\ ev.fn \in SupplyFns) =>
     /\ (Pred(r) /\ r.ok) => (IsOk(ev) \/ GasRefusal(ev))                 \* a nominal call has the stated effect (it is not refused)
     /\ (IsOk(ev) /\ ev.fn # "ESDTWipe" /\ Pred(rp) /\ rp.ok) => Bal(w2) = Bal(rp.w)   \* an accepted call changes exactly the stated amount
     /\ (IsOk(ev) /\ ev.fn = "ESDTWipe" /\ Pred(r)) => (r.ok /\ Bal(w2) = Bal(r.w))
\* "creates exactly the given quantity under a FRESH nonce": never one that was issued before for the token
P02_FreshNonce(w, ev, w2, h, r) ==
  (Call(ev) /\ IsOk(ev) /\ ev.fn = "ESDTNFTCreate" /\ NArgs(ev) >= 2 /\ ev.caller \in Accts(w) /\ ~IsDupTok(Arg(ev,1).h)) =>
     LET t == Arg(ev,1).h
         n == ev.retn IN
     n > MaxN(h, t) /\ ~(<<t, n>> \in h.made)
\* every function outside the supply and transfer families leaves every token balance unchanged
P02_Others(w, ev, w2, h, r) ==
  (~Call(ev) \/ ~(ev.fn \in SupplyFns \cup TokenFns)) => Bal(w2) = Bal(w)
P02_NoOverdraft(w, ev, w2, h, r) ==
  \* taking more than the account holds fails (burn-like operations and transfers, sender side)
  /\ (Call(ev) /\ IsOk(ev) /\ ev.fn \in {"ESDTLocalBurn", "ESDTBurn"} /\ NArgs(ev) >= 2) => Arg(ev,2).q <= ValAt(w, ev.caller, Arg(ev,1).h)
  /\ (Call(ev) /\ IsOk(ev) /\ ev.fn = "ESDTNFTBurn" /\ NArgs(ev) >= 3 /\ Arg(ev,2).n >= 0 /\ Arg(ev,3).q # Bad) =>
        Arg(ev,3).q <= ValAt(w, ev.caller, Arg(ev,1).h \o NBHex(Arg(ev,2).n))

\* C03
\* the freeze state changed: a flag appeared, or a flag disappeared while its entry is still there (or was a fungible entry: the code
\* keeps a frozen fungible entry at balance zero).  The flag of ONE NFT / SFT holding ends with the holding: when the whole quantity
\* leaves (only possible under the return-after-error exemption) the entry is deleted, metadata, flag and all (DESIGN.md 13.10, 17)
EndedHolding(w, w2, p) == w.acct[p[1]].esdt[p[2]].hm /\ (p[1] \notin Accts(w2) \/ p[2] \notin DOMAIN w2.acct[p[1]].esdt)
FrozenChanged(w, w2) == (FrozenSet(w2) \ FrozenSet(w)) # {} \/ (\E p \in FrozenSet(w) \ FrozenSet(w2) : ~EndedHolding(w, w2, p))
\* an accepted role-gated call's caller holds THAT role for THAT token (plus add-quantity for a create of more than one); role lists, pause and freeze state change only by the system contract (or the hand-over message); owner / reward / user-name change only for the owner / a DNS address
P03_Authority(w, ev, w2, h, r) ==
  /\ (Call(ev) /\ IsOk(ev) /\ ev.fn \in RoleGated) =>
        /\ RoleFor(ev.fn) \in Range(RolesOf(w.acct[ev.caller], Arg(ev,1).h))
        /\ (ev.fn = "ESDTNFTCreate" /\ MoreThanOne(Arg(ev,2).q)) => RoleAddQ \in Range(RolesOf(w.acct[ev.caller], Arg(ev,1).h))
  /\ (RolesMap(w2) # RolesMap(w) \/ w2.paused # w.paused \/ FrozenChanged(w, w2)) =>
        (Call(ev) /\ (ev.caller = ESDTSC \/ (ev.a = "deliver" /\ ev.fn = "ESDTNFTCreateRoleTransfer")))
  /\ (Call(ev) /\ IsOk(ev) /\ ev.fn = "ESDTWipe") => ev.caller = ESDTSC
  /\ \A a \in Accts(w) \cap Accts(w2) :
        /\ w2.acct[a].owner # w.acct[a].owner => (Call(ev) /\ ev.fn = "ChangeOwnerAddress" /\ ev.caller = w.acct[a].owner)
        /\ w2.acct[a].dev # w.acct[a].dev => (Call(ev) /\ ev.fn = "ClaimDeveloperRewards" /\ ev.caller = w.acct[a].owner)
        /\ w2.acct[a].uname # w.acct[a].uname => (Call(ev) /\ ev.fn = "SetUserName" /\ Known(ev.caller) /\ cfg.addrs[ev.caller].dns)
\* a role operation of the system contract leaves exactly the role lists the reference operator says (histories of set / unset)
P03_RoleOpsExact(w, ev, w2, h, r) ==
  (Call(ev) /\ IsOk(ev) /\ ev.fn \in {"ESDTSetRole", "ESDTUnSetRole"} /\ Pred(r) /\ r.ok) => RolesMap(w2) = RolesMap(r.w)
P03_Grant(w, ev, w2, h, r) ==
  (Call(ev) /\ ev.fn \in RoleGated /\ Pred(r) /\ r.ok) => IsOk(ev)
P03_Denied(w, ev, w2, h, r) ==
  \* stated without the reference operator: who is NOT entitled is refused
  Call(ev) =>
    /\ (ev.fn \in (FlagFns \cup {"ESDTWipe", "ESDTSetRole", "ESDTUnSetRole"}) /\ ev.caller # ESDTSC) => ~IsOk(ev)
    /\ (ev.fn = "ESDTNFTCreateRoleTransfer" /\ ev.snd) => ~IsOk(ev)
    /\ (ev.fn \in {"ChangeOwnerAddress", "ClaimDeveloperRewards"} /\ ev.dst /\ ev.rcpt \in Accts(w) /\ ev.caller # w.acct[ev.rcpt].owner) => ~IsOk(ev)
    /\ (ev.fn = "SetUserName" /\ ~(Known(ev.caller) /\ cfg.addrs[ev.caller].dns)) => ~IsOk(ev)

\* C04
CoveredByPause(w, s, k, e) ==
  \E t \in DOMAIN w.paused[ShStr(s)] : FlagSet(w.paused[ShStr(s)][t]) /\ (k = t \/ (e.hm /\ e.meta.nonce >= 0 /\ k = t \o NBHex(e.meta.nonce)))
Exempt(ev, a) ==
  \/ a = ESDTSC
  \/ (Call(ev) /\ ev.rae)
  \/ (Call(ev) /\ ev.caller = ESDTSC /\ ev.fn \in {"ESDTWipe", "ESDTUnFreeze", "ESDTUnPause", "ESDTFreeze", "ESDTPause"})
\* an entry that is frozen, or covered by a pause on its shard, is byte-for-byte the same after the step - unless the step is one of the stated exemptions (Exempt)
P04_Immobile(w, ev, w2, h, r) ==
  \A a \in Accts(w) \cap Accts(w2) : Known(a) /\ ShardOfA(a) >= 0 =>
    \A k \in DOMAIN w.acct[a].esdt :
      LET e == w.acct[a].esdt[k] IN
      (FlagSet(e.props) \/ CoveredByPause(w, ShardOfA(a), k, e)) =>
         ((k \in DOMAIN w2.acct[a].esdt /\ w2.acct[a].esdt[k] = e) \/ Exempt(ev, a))
P04_NoCreditWhilePaused(w, ev, w2, h, r) ==
  \* a paused token gains no new holding either
  \A a \in Accts(w) \cap Accts(w2) : Known(a) /\ ShardOfA(a) >= 0 =>
    \A k \in (DOMAIN w2.acct[a].esdt) \ (DOMAIN w.acct[a].esdt) :
      CoveredByPause(w, ShardOfA(a), k, w2.acct[a].esdt[k]) => Exempt(ev, a)
\* freeze / un-freeze / pause / un-pause change flags only: balances, metadata and in-flight messages stay
P04_FlagOnly(w, ev, w2, h, r) ==
  (Call(ev) /\ ev.fn \in FlagFns) => (Bal(w2) = Bal(w) /\ MetaNZ(w2) = MetaNZ(w) /\ w2.msgs = w.msgs)
\* the flag operations do what their name says, on THE system account of the executing shard / on the named account's entry
P04_FlagTakesEffect(w, ev, w2, h, r) ==
  (Call(ev) /\ IsOk(ev) /\ NArgs(ev) >= 1) =>
    /\ (ev.fn \in {"ESDTPause", "ESDTUnPause"}) =>
          LET p == w2.paused[ShStr(ev.sh)] IN Arg(ev,1).h \in DOMAIN p /\ (FlagSet(p[Arg(ev,1).h]) = (ev.fn = "ESDTPause"))
    /\ (ev.fn = "ESDTFreeze" /\ ev.rcpt \in Accts(w2)) => (Arg(ev,1).h \in DOMAIN w2.acct[ev.rcpt].esdt /\ FlagSet(w2.acct[ev.rcpt].esdt[Arg(ev,1).h].props))
    /\ (ev.fn = "ESDTUnFreeze" /\ ev.rcpt \in Accts(w2)) => (Arg(ev,1).h \in DOMAIN w2.acct[ev.rcpt].esdt => ~FlagSet(w2.acct[ev.rcpt].esdt[Arg(ev,1).h].props))
\* "Unfreezing or unpausing restores exactly the earlier behaviour": a call naming a token that WAS flagged and no longer is (no pause of it on
\* the executing shard, no frozen entry of it on that shard) is not refused as if the flag were still there: the reference accepts it, and the
\* reference with the flags put back (pause on the executing shard) refuses it - so a refusal by the code is the flag's doing.  What an
\* accepted call does to balances is C01/C02's question; what a call does while a flag IS in force is P04_Immobile's.
FlagNow(w, s, t) ==
  \/ IsPausedKey(w, s, t)
  \/ \E a \in Accts(w) : Known(a) /\ ShardOfA(a) = s /\ t \in DOMAIN w.acct[a].esdt /\ FlagSet(w.acct[a].esdt[t].props)
WasFlagged(ev, h) == {Arg(ev, i).h : i \in {j \in 1..NArgs(ev) : Arg(ev, j).h \in h.flagged}}
RECURSIVE Repause(_, _, _)
Repause(w, s, Ts) == IF Ts = {} THEN w ELSE LET t == CHOOSE x \in Ts : TRUE IN
                     Repause([w EXCEPT !.paused[ShStr(s)] = Put(@, t, "0100")], s, Ts \ {t})
\* un-freezing / un-pausing restores the earlier behaviour: a call naming a token whose flag was cleared is not refused as if the flag were still there (see the comment above FlagNow)
P04_Restores(w, ev, w2, h, r, r2) ==
  (Call(ev) /\ ~IsOk(ev) /\ ~ev.rae /\ ev.caller # ESDTSC /\ Pred(r) /\ r.ok /\ NArgs(ev) >= 1 /\ WasFlagged(ev, h) # {}
     /\ (\A t \in WasFlagged(ev, h) : ~FlagNow(w, ev.sh, t))
     /\ ev.fn \in (SupplyFns \cup TokenFns \cup {"ESDTNFTAddURI", "ESDTNFTUpdateAttributes"})) =>
       ~(Pred(r2) /\ ~r2.ok)      \* r2: the reference on Repause(w, ev.sh, WasFlagged(ev, h))

\* C05
\* SaveKeyValue changes nothing outside user keys: no protocol entry, no pause flag, no account-level field
P05_Protected(w, ev, w2, h, r) ==
  (Call(ev) /\ ev.fn = "SaveKeyValue") => (Proto(w2) = Proto(w) /\ w2.paused = w.paused /\ w2.sysx = w.sysx /\ Fields(w2) = Fields(w))
\* an accepted SaveKeyValue is a non-contract account writing to itself and leaves exactly the user keys the (permissive) reference computes; no other call touches user keys
P05_KVExact(w, ev, w2, h, r, rp) ==
  /\ (Call(ev) /\ ev.fn = "SaveKeyValue" /\ IsOk(ev)) => (ev.caller = ev.rcpt /\ ~IsSC(ev.caller) /\ (Pred(rp) => (rp.ok /\ KVMap(w2) = KVMap(rp.w))))
  /\ (~Call(ev) \/ ev.fn # "SaveKeyValue") => KVMap(w2) = KVMap(w)
Named(ev, k) == \E i \in 1..NArgs(ev) : IsPfx(Arg(ev, i).h, k)
\* the token entries a call may touch: exactly the (token, nonce) keys its input names (layout per function); a number the model does
\* not represent (>= 2^30 or wider than 8 bytes) falls back to "some argument is a prefix of the key"
KeyOf(tokA, n) == IF n >= 0 THEN {tokA.h \o NBHex(n)} ELSE {}
RECURSIVE MultiFoot(_, _, _, _)
MultiFoot(ev, k, i, st) ==      \* st: index of the first token triple
  IF i >= k \/ st + 3 * i + 2 > NArgs(ev) THEN {}
  ELSE LET tokA == Arg(ev, st + 3 * i)
           nA == Arg(ev, st + 3 * i + 1)
           vA == Arg(ev, st + 3 * i + 2) IN
       (IF HasE(vA) THEN KeyOf(tokA, EntryNonce(vA.e)) ELSE KeyOf(tokA, nA.n)) \cup MultiFoot(ev, k, i + 1, st)
FootKeys(w, ev) ==
  CASE ev.fn \in {"ESDTTransfer", "ESDTBurn", "ESDTLocalMint", "ESDTLocalBurn", "ESDTFreeze", "ESDTUnFreeze", "ESDTWipe"} /\ NArgs(ev) >= 1 -> {Arg(ev,1).h}
    [] ev.fn = "ESDTNFTCreate" /\ NArgs(ev) >= 1 /\ ev.caller \in Accts(w) -> KeyOf(Arg(ev,1), CtrOf(w.acct[ev.caller], Arg(ev,1).h) + 1)
    [] ev.fn \in {"ESDTNFTAddQuantity", "ESDTNFTBurn", "ESDTNFTAddURI", "ESDTNFTUpdateAttributes"} /\ NArgs(ev) >= 2 -> KeyOf(Arg(ev,1), Arg(ev,2).n)
    [] ev.fn = "ESDTNFTTransfer" /\ NArgs(ev) >= 4 ->
         IF ev.caller = ev.rcpt THEN KeyOf(Arg(ev,1), Arg(ev,2).n) ELSE (IF HasE(Arg(ev,4)) THEN KeyOf(Arg(ev,1), EntryNonce(Arg(ev,4).e)) ELSE {})
    [] ev.fn = "MultiESDTNFTTransfer" /\ NArgs(ev) >= 2 ->
         IF ev.caller = ev.rcpt THEN (IF Arg(ev,2).n > 0 THEN MultiFoot(ev, Arg(ev,2).n, 0, 3) ELSE {})
         ELSE (IF Arg(ev,1).n > 0 THEN MultiFoot(ev, Arg(ev,1).n, 0, 2) ELSE {})
    [] OTHER -> {}
\* every short argument (a candidate count / nonce) is a number the model represents
Representable05(ev) == \A i \in 1..NArgs(ev) : Arg(ev, i).n >= 0 \/ BLen(Arg(ev, i).h) > 12
InFoot(w, ev, k) == k \in FootKeys(w, ev) \/ (~Representable05(ev) /\ Named(ev, k))
NamedAccts(ev) == {ev.caller, ev.rcpt} \cup {Arg(ev, i).ad : i \in 1..NArgs(ev)}
ChangedKeys(f, g) == {k \in (DOMAIN f) \cup (DOMAIN g) : ~(k \in DOMAIN f /\ k \in DOMAIN g /\ f[k] = g[k])}
\* footprint: a call changes only protocol entries of the (token, nonce) keys its input names (FootKeys), only in sender, destination or system account, and only the account-level fields its kind may change
P05_Frame(w, ev, w2, h, r) ==
  /\ Accts(w2) = Accts(w)
  /\ ~Call(ev) => (w2.acct = w.acct /\ w2.paused = w.paused /\ w2.msgs = w.msgs)
  /\ Call(ev) =>
       /\ \A a \in Accts(w) : w2.acct[a] # w.acct[a] => a \in NamedAccts(ev)
       /\ \A a \in Accts(w) :
            /\ \A k \in ChangedKeys(w.acct[a].esdt, w2.acct[a].esdt) : InFoot(w, ev, k)
            /\ \A k \in ChangedKeys(w.acct[a].roles, w2.acct[a].roles) \cup ChangedKeys(w.acct[a].ctr, w2.acct[a].ctr) :
                  \E i \in 1..NArgs(ev) : Arg(ev, i).h = k
            /\ w2.acct[a].bad = w.acct[a].bad
            /\ (w2.acct[a].owner # w.acct[a].owner \/ w2.acct[a].uname # w.acct[a].uname \/ w2.acct[a].dev # w.acct[a].dev
                  \/ w2.acct[a].egld # w.acct[a].egld) => ev.fn \in AcctFns
       /\ \A s \in DOMAIN w.paused : \A k \in ChangedKeys(w.paused[s], w2.paused[s]) :
            ev.fn \in {"ESDTPause", "ESDTUnPause"} /\ s = ShStr(ev.sh) /\ NArgs(ev) >= 1 /\ Arg(ev,1).h = k
       /\ w2.sysx = w.sysx
       /\ w2.oracle = w.oracle /\ w2.sched = w.sched

\* C06
Fwd(ev) == ev.fwd
\* GasRemaining + gas limits of the emitted output transfers <= GasProvided (for 2^64-scale gas: the logged consumption is non-negative)
P06_NoGasCreated(w, ev, w2, h, r) ==
  (Call(ev) /\ IsOk(ev)) => (ev.gr < HugeGas /\ ev.fwd < HugeGas /\ ev.gr + ev.fwd <= ev.gas) \/ (ev.gascls # "" /\ "consumed" \in DOMAIN ev.x /\ ev.x.consumed >= 0)
\* "what the function charges" is MEASURED on the real code: the harness runs the same call on the same pre-state with ample gas first
\* (undone afterwards) and logs the consumption as x.used; a real step given less than that fails or keeps nothing.  (Whether the measured
\* charge is the right price is C16's question, not this one: a stale or wrong price creates no gas.)
Underfunded(ev) == ev.a = "exec" /\ "used" \in DOMAIN ev.x /\ ev.x.used < HugeGas /\ ev.gas < ev.x.used
\* given less gas than the function charges (charge measured on the real code with ample gas), the call fails or keeps nothing (see the comment above Underfunded)
P06_Underfunded(w, ev, w2, h, r) ==
  (Call(ev) /\ IsOk(ev) /\ Underfunded(ev)) => ev.gr + ev.fwd = 0

\* C07
\* a successful create returns and stores previous counter + 1, stores the entry under that nonce, and the nonce was never issued before for the token
P07_ReturnedNonce(w, ev, w2, h, r) ==
  (Call(ev) /\ IsOk(ev) /\ ev.fn = "ESDTNFTCreate" /\ NArgs(ev) >= 2) =>
     LET t == Arg(ev,1).h
         n == CtrOf(w.acct[ev.caller], t) + 1 IN
     /\ ev.retn = n /\ Len(ev.ret) = 1 /\ ev.ret[1] = NBHex(n)
     /\ CtrOf(w2.acct[ev.caller], t) = n
     /\ (t \o NBHex(n)) \in DOMAIN w2.acct[ev.caller].esdt
     /\ w2.acct[ev.caller].esdt[t \o NBHex(n)].hm /\ w2.acct[ev.caller].esdt[t \o NBHex(n)].meta.nonce = n
     /\ (IsDupTok(t) \/ (n > MaxN(h, t) /\ ~(<<t, n>> \in h.made)))
\* The same under a failing dependency (fault lines: the call is probed on the pre-state with one dependency operation failing, world unchanged):
\* IF the create still succeeds it returns previous + 1, and a hand-over that still succeeds ships the holder's counter - a counter that could
\* not be read is not "no counter".
P07_FaultNonce(w, ev, w2, h, r) ==
  (ev.a = "fault" /\ ev.x.fired /\ ev.res = "ok" /\ NArgs(ev) >= 1 /\ ev.caller \in Accts(w)) =>
     /\ (ev.fn = "ESDTNFTCreate") => ev.retn = CtrOf(w.acct[ev.caller], Arg(ev,1).h) + 1
     /\ (ev.fn = "ESDTNFTCreateRoleTransfer" /\ ev.rcpt \in Accts(w)) =>
           \A i \in 1..Len(ev.out) : (ev.out[i].fn = "ESDTNFTCreateRoleTransfer" /\ Len(ev.out[i].args) >= 2) => ev.out[i].args[2].n = CtrOf(w.acct[ev.rcpt], Arg(ev,1).h)
\* what the hand-over messages in flight carry: token and counter (and who gets them)
HandoverMsgs(ms) == {<<ms[i].from, ms[i].to, SemMsg(ms[i]).args>> : i \in {j \in 1..Len(ms) : ms[j].fn = "ESDTNFTCreateRoleTransfer"}}
\* a hand-over the reference accepts is accepted and leaves the counters, role lists and hand-over messages the reference computes (old holder loses both, the message carries the counter)
P07_Handover(w, ev, w2, h, r) ==
  (Call(ev) /\ ev.fn = "ESDTNFTCreateRoleTransfer" /\ Pred(r) /\ r.ok) =>
     (IsOk(ev) /\ CtrMap(w2) = CtrMap(r.w) /\ RolesMap(w2) = RolesMap(r.w) /\ HandoverMsgs(w2.msgs) = HandoverMsgs(r.w.msgs))
\* counters change only through a successful create or hand-over
P07_CtrOnlyByCreate(w, ev, w2, h, r) ==
  CtrMap(w2) # CtrMap(w) => (Call(ev) /\ IsOk(ev) /\ ev.fn \in {"ESDTNFTCreate", "ESDTNFTCreateRoleTransfer"})

\* C08
\* the metadata carried by the in-flight payloads (nothing else about the messages: gas, call type ... belong to other properties)
MsgMetas(ms) == [i \in 1..Len(ms) |-> [id |-> ms[i].id, pay |-> [j \in 1..Len(ms[i].args) |-> IF HasE(ms[i].args[j]) THEN [hm |-> ms[i].args[j].e.hm, meta |-> ms[i].args[j].e.meta] ELSE <<>>]]]
\* when code and reference both accept, every entry's metadata - at rest and in flight - is what the reference computes (metadata travels intact through any chain of transfers)
P08_Conf(w, ev, w2, h, r) ==
  (Call(ev) /\ IsOk(ev) /\ Pred(r) /\ r.ok) => (MetaOf(w2) = MetaOf(r.w) /\ MsgMetas(w2.msgs) = MsgMetas(r.w.msgs))
\* a successful create stores the given name, royalties (<= 10000), hash, attributes and URIs with creator = caller under the returned nonce
P08_Create(w, ev, w2, h, r) ==
  (Call(ev) /\ IsOk(ev) /\ ev.fn = "ESDTNFTCreate" /\ NArgs(ev) >= 7 /\ ev.retn > 0) =>
     LET k == Arg(ev,1).h \o NBHex(ev.retn) IN
     k \in DOMAIN w2.acct[ev.caller].esdt /\
     LET m == w2.acct[ev.caller].esdt[k].meta IN
     /\ m.creator = ev.caller /\ m.roy <= 10000 /\ m.roy >= 0 /\ (Arg(ev,4).n >= 0 /\ Arg(ev,4).n <= 10000 => m.roy = Arg(ev,4).n)
     /\ m.name = Arg(ev,3).h /\ m.hash = Arg(ev,5).h /\ m.attrs = Arg(ev,6).h
     /\ m.uris = [i \in 1..(NArgs(ev) - 6) |-> Arg(ev, i + 6).h]
     /\ w2.acct[ev.caller].esdt[k].val = Arg(ev,2).q
P08_OnlyUriAttr(w, ev, w2, h, r) ==
  \* an existing holding's metadata changes only through the two metadata functions of its holder, or by receiving a copy
  \A a \in Accts(w) \cap Accts(w2) : \A k \in (DOMAIN w.acct[a].esdt) \cap (DOMAIN w2.acct[a].esdt) :
     (w.acct[a].esdt[k].meta # w2.acct[a].esdt[k].meta \/ w.acct[a].esdt[k].hm # w2.acct[a].esdt[k].hm) =>
        \/ (Call(ev) /\ IsOk(ev) /\ ev.fn \in {"ESDTNFTAddURI", "ESDTNFTUpdateAttributes"} /\ ev.caller = a /\ k = Arg(ev,1).h \o NBHex(Arg(ev,2).n))
        \/ (Call(ev) /\ IsOk(ev) /\ ev.fn \in TokenFns /\ a # ev.caller /\ w2.acct[a].esdt[k].val >= w.acct[a].esdt[k].val)   \* received a copy (also of quantity 0)
\* an accepted add-URI / update-attributes is by a role holder on its own holding and changes exactly what the reference (given ample gas: whether the gas sufficed is C06 / C16's question) computes, nothing else
P08_UriAttrExact(w, ev, w2, h, r, ra) ==
  (Call(ev) /\ IsOk(ev) /\ ev.fn \in {"ESDTNFTAddURI", "ESDTNFTUpdateAttributes"} /\ Pred(ra)) =>
     (ra.ok /\ w2.acct = ra.w.acct /\ w2.paused = w.paused /\ w2.msgs = w.msgs)
P08_WrongHash(w, ev, w2, h, r) ==
  \* a credit into a holding with a different hash is rejected
  \A a \in Accts(w) \cap Accts(w2) : \A k \in (DOMAIN w.acct[a].esdt) \cap (DOMAIN w2.acct[a].esdt) :
     (w.acct[a].esdt[k].hm /\ w2.acct[a].esdt[k].hm /\ w2.acct[a].esdt[k].val > w.acct[a].esdt[k].val /\ Call(ev) /\ ev.fn \in TokenFns)
        => w2.acct[a].esdt[k].meta.hash = w.acct[a].esdt[k].meta.hash

\* C09
Gained(w, w2, a) == a \in Accts(w) /\ \E k \in DOMAIN w2.acct[a].esdt : w2.acct[a].esdt[k].val > ValAt(w, a, k)
MinArgs(ev) ==
  CASE ev.fn = "ESDTTransfer" -> 2
    [] ev.fn = "ESDTNFTTransfer" -> 4
    [] OTHER -> IF ev.caller = ev.rcpt THEN (IF NArgs(ev) >= 2 /\ Arg(ev,2).n >= 0 THEN 3 * Arg(ev,2).n + 2 ELSE 0)
                ELSE (IF NArgs(ev) >= 1 /\ Arg(ev,1).n >= 0 THEN 3 * Arg(ev,1).n + 1 ELSE 0)
\* no account the oracle reports non-payable gains tokens through a transfer function unless the call carries a contract call, is a callback / transfer-and-execute, or comes from the ESDT system contract
P09_Admissible(w, ev, w2, h, r) ==
  (Call(ev) /\ ev.fn \in TokenFns /\ IsOk(ev)) =>
     \A a \in Accts(w2) : (Gained(w, w2, a) /\ a # ev.caller /\ ~PayableOK(w, a)) =>
        (NArgs(ev) > MinArgs(ev) \/ ev.ct \in {2, 3} \/ ev.caller = ESDTSC)
\* no accepted transfer is addressed to the metachain, and no accepted NFT / multi transfer names the sender itself or an address of another length as destination
P09_Rejected(w, ev, w2, h, r) ==
  (Call(ev) /\ ev.fn \in TokenFns /\ IsOk(ev)) =>
     /\ ~(Known(ev.rcpt) /\ IsMetaA(ev.rcpt) /\ ev.fn = "ESDTTransfer")
     /\ (ev.caller = ev.rcpt /\ ev.fn # "ESDTTransfer") =>
          LET da == IF ev.fn = "ESDTNFTTransfer" THEN Arg(ev,4) ELSE Arg(ev,1) IN
          /\ BLen(da.h) = ALen(ev.caller) /\ da.h # cfg.addrs[ev.caller].hex
          /\ (da.ad # "" => ~IsMetaA(da.ad))

\* C16
\* The per-byte component the statement documents for transfers is "copied bytes of each CROSS-SHARD NFT payload".  What a same-shard NFT or
\* multi transfer pays on top of cost x tokens is not stated: there only "some whole number of bytes at the data-copy price" is required.
SameShardCopy(ev) ==
  /\ ev.fn \in {"ESDTNFTTransfer", "MultiESDTNFTTransfer"} /\ ev.caller = ev.rcpt /\ ev.pl # <<>>
  /\ LET da == IF ev.fn = "ESDTNFTTransfer" THEN (IF NArgs(ev) >= 4 THEN Arg(ev,4).ad ELSE "") ELSE (IF NArgs(ev) >= 1 THEN Arg(ev,1).ad ELSE "") IN
     da # "" /\ ShardOfA(da) = ev.sh
PriceMatches(w, ev, observed, model) ==
  IF SameShardCopy(ev) THEN LET base == model - Base(w, "DataCopyPerByte") * SumSeq(ev.pl) IN observed >= base /\ (observed - base) % Base(w, "DataCopyPerByte") = 0
  ELSE observed = model
\* consumption (provided - remaining - forwarded) of a successful sender-side execution = the reference price under the schedule in force (PriceMatches)
P16_Price(w, ev, w2, h, r) ==
  (ev.a = "exec" /\ IsOk(ev) /\ Pred(r) /\ r.ok /\ ev.snd) =>
     LET rf == SumSeq([i \in 1..Len(r.out) |-> IF r.out[i].tx THEN 0 ELSE r.out[i].gas])
         model == ev.gas - r.gr - rf IN
     IF ev.gascls = "" THEN PriceMatches(w, ev, ev.gas - ev.gr - ev.fwd, model)
     ELSE ("consumed" \in DOMAIN ev.x /\ PriceMatches(w, ev, ev.x.consumed, model))
\* the consumption measured by a probe execution with ample gas is the model's price too (also for steps that then failed for lack of gas)
P16_ProbePrice(w, ev, w2, h, r) ==
  (ev.a = "exec" /\ ev.snd /\ "used" \in DOMAIN ev.x /\ ev.gas < HugeGas) =>
     LET r2 == Exec(w, [ev EXCEPT !.gas = 900000000])
         rf == SumSeq([i \in 1..Len(r2.out) |-> IF r2.out[i].tx THEN 0 ELSE r2.out[i].gas]) IN
     (Pred(r2) /\ r2.ok) => PriceMatches(w, ev, ev.x.used, 900000000 - r2.gr - rf)
\* a call accepted although the model's price exceeds the provided gas
P16_Charged(w, ev, w2, h, r) ==
  (ev.a = "exec" /\ ev.snd /\ Pred(r) /\ ~r.ok /\ IsOk(ev) /\ ev.gas < HugeGas /\ ~SameShardCopy(ev)) =>
     LET r2 == Exec(w, [ev EXCEPT !.gas = 900000000]) IN ~(Pred(r2) /\ r2.ok)

\* C10
Key(tok, n) == tok \o NBHex(n)
RECURSIVE ParSum(_, _)
ParSum(items, k) == IF items = <<>> THEN 0 ELSE PAdd(IF Key(Head(items).tok, Head(items).nonce) = k THEN Head(items).val ELSE 0, ParSum(Tail(items), k))
ParKeys(items) == {Key(items[i].tok, items[i].nonce) : i \in 1..Len(items)}
DestOf(ev) ==
  IF ev.fn = "ESDTTransfer" \/ ev.caller # ev.rcpt THEN ev.rcpt
  ELSE IF ev.fn = "ESDTNFTTransfer" THEN NameOfArg(Arg(ev,4)) ELSE NameOfArg(Arg(ev,1))
CallStart(ev) ==     \* index of the attached function name in the arguments (1-based)
  IF ev.fn = "ESDTTransfer" THEN 3
  ELSE IF ev.fn = "ESDTNFTTransfer" THEN 5
  ELSE IF ev.caller = ev.rcpt THEN (IF Arg(ev,2).n < 0 THEN 0 ELSE 3 * Arg(ev,2).n + 3) ELSE (IF Arg(ev,1).n < 0 THEN 0 ELSE 3 * Arg(ev,1).n + 2)
KeysOf(w, a) == IF a \in Accts(w) THEN DOMAIN w.acct[a].esdt ELSE {}
\* the real ESDT-transfer parser's report for the call (receiver, items, attached call) equals what the recorded step debited on the sender side / credited on the destination side
P10_ParserEqualsLedger(w, ev, w2, h, r) ==
  (Call(ev) /\ IsOk(ev) /\ ev.fn \in TokenFns) =>
     /\ ev.par.ok /\ ~ev.par.panic
     /\ LET dest == DestOf(ev)
            its == ev.par.items
            ks == ParKeys(its) IN
        /\ ev.par.rcv = dest
        /\ (ev.snd /\ ev.caller # dest) => \A k \in ks \cup KeysOf(w, ev.caller) : ValAt(w, ev.caller, k) - ValAt(w2, ev.caller, k) = ParSum(its, k)
        /\ (dest \in Accts(w) /\ ev.caller # dest /\ Known(dest) /\ ShardOfA(dest) = ev.sh) =>
              \A k \in ks \cup KeysOf(w2, dest) : ValAt(w2, dest, k) - ValAt(w, dest, k) = ParSum(its, k)
        /\ LET cs == CallStart(ev) IN
           IF cs = 0 THEN TRUE ELSE IF NArgs(ev) >= cs THEN (ev.par.callfn = Arg(ev, cs).h /\ ev.par.callargs = [i \in 1..(NArgs(ev) - cs) |-> Arg(ev, cs + i).h])
           ELSE (ev.par.callfn = "" /\ ev.par.callargs = <<>>)
\* the call-data grammar cannot represent an empty function name or one containing '@' (0x40): such attached calls are outside the property
HasAt(hx) == \E i \in 1..(Len(hx) \div 2) : SubSeq(hx, 2 * i - 1, 2 * i) = "40"
Representable(m) == ~(Len(m.fn) >= 2 /\ SubSeq(m.fn, 1, 2) = "0x" /\ (Len(m.fn) = 2 \/ HasAt(SubSeq(m.fn, 3, Len(m.fn)))))
\* what was encoded: destination, function name, arguments (gas, call type, value are not part of the data string)
Encoded(ms) == [i \in 1..Len(ms) |-> [to |-> ms[i].to, fn |-> ms[i].fn, args |-> SemMsg(ms[i]).args, tx |-> ms[i].tx]]
\* every data string emitted in an output transfer parses (real call parser) into exactly the function name and arguments the reference says were encoded
P10_RoundTrip(w, ev, w2, h, r) ==
  (Call(ev) /\ IsOk(ev) /\ Pred(r) /\ r.ok /\ \A i \in 1..Len(r.out) : Representable(r.out[i])) =>
     /\ \A i \in 1..Len(ev.out) : ~ev.out[i].perr
     /\ Encoded(ev.out) = Encoded(r.out)
\* a protocol message that continues a built-in operation is accepted by the same-named function on the destination shard when the reference accepts it
P10_Accepted(w, ev, w2, h, r) ==
  (ev.a = "deliver" /\ ~ev.rae /\ Pred(r) /\ r.ok) => IsOk(ev)

\* C11
ShapeBad(ev) ==
  LET n == NArgs(ev) IN
  CASE ev.fn \in {"ESDTTransfer", "ESDTLocalMint", "ESDTLocalBurn", "ESDTSetRole", "ESDTUnSetRole"} -> n < 2
    [] ev.fn = "ESDTBurn" -> n # 2
    [] ev.fn \in {"ESDTFreeze", "ESDTUnFreeze", "ESDTWipe", "ESDTPause", "ESDTUnPause", "SetUserName"} -> n # 1
    [] ev.fn = "ChangeOwnerAddress" -> n = 0 \/ (Known(ev.caller) /\ BLen(Arg(ev,1).h) # ALen(ev.caller))
    [] ev.fn = "SaveKeyValue" -> n < 2 \/ n % 2 # 0
    [] ev.fn = "ESDTNFTCreate" -> n < 7
    [] ev.fn \in {"ESDTNFTAddQuantity", "ESDTNFTBurn", "ESDTNFTAddURI"} -> n < 3
    [] ev.fn = "ESDTNFTUpdateAttributes" -> n # 3
    [] ev.fn = "ESDTNFTCreateRoleTransfer" -> n # 2
    [] ev.fn = "ESDTNFTTransfer" -> n < 4 \/ (ev.caller = ev.rcpt /\ Known(ev.caller) /\ BLen(Arg(ev,4).h) # ALen(ev.caller))
    [] ev.fn = "MultiESDTNFTTransfer" ->
         \/ n < 4
         \/ (ev.caller = ev.rcpt /\ Known(ev.caller) /\ BLen(Arg(ev,1).h) # ALen(ev.caller))
         \/ LET k == IF ev.caller = ev.rcpt THEN Arg(ev,2).n ELSE Arg(ev,1).n
                 st == IF ev.caller = ev.rcpt THEN 2 ELSE 1 IN
            k = 0 \/ k = HugeN \/ (k > 0 /\ n < 3 * k + st)
    [] OTHER -> FALSE
\* the result is (output, Ok, nil error) or (nil output, error): anything else - panic, output with error, nil/nil, non-Ok code - is a third class
P11_Shape(w, ev, w2, h, r) == Call(ev) => ev.res \in {"ok", "err"}
\* an input that is invalid by shape alone (argument count, transfer count the arguments cannot hold, address length) is refused
P11_ShapeVerdict(w, ev, w2, h, r) == (Call(ev) /\ ShapeBad(ev)) => ~IsOk(ev)
\* the bytes allocated by the call stay below a bound linear in input size and touched state (measured by the harness), never proportional to a number in the arguments
P11_Alloc(w, ev, w2, h, r) == (Call(ev) /\ "allocok" \in DOMAIN ev.x) => ev.x.allocok

\* C13
\* the digests (return code, gas, return data, logs in order, output transfers, resulting storage) of the three executions - fresh function objects in another goroutine, undone probe on the live objects, the real step - are equal
P13_Replicas(w, ev, w2, h, r) == (Call(ev) /\ "d1" \in DOMAIN ev.x) => (ev.x.d1 = ev.x.d2 /\ ev.x.d1 = ev.x.d3)
\* input structure, argument slices (content, identity, guard bytes of the shared backing array) are unchanged after the call
P13_InputIntact(w, ev, w2, h, r) == (Call(ev) /\ "intact" \in DOMAIN ev.x) => ev.x.intact

\* C17: an injected dependency failure that fired is reported as an error (storage reads and the pause lookup may be fail-soft)
HardFault(kind, fn) == kind \in {"write", "load", "save", "marshal", "unmarshal", "payable", "acctop"} \/ (kind = "sysload" /\ fn \in {"ESDTPause", "ESDTUnPause"})
\* a dependency failure of a kind the property lists that actually fired makes the call return an error
P17_FaultIsError(w, ev, w2, h, r) == (ev.a = "fault" /\ ev.x.fired /\ HardFault(ev.x.kind, ev.fn)) => ev.res = "err"
\* under every injected dependency failure the call still returns a result or an error
P17_NoPanic(w, ev, w2, h, r) == ev.a = "fault" => ev.res \in {"ok", "err"}

\* C18 (binding under every factory configuration): the behaviour registered under "SetUserName" depends on the factory's
\* configuration (DNS addresses, whether a user name may be changed); it must be the one the configuration of the trace says
P18_UserNameBound(w, ev, w2, h, r) ==
  (Call(ev) /\ ev.fn = "SetUserName" /\ Pred(r)) =>
     ((IsOk(ev) = r.ok) /\ (IsOk(ev) => [a \in Accts(w2) |-> w2.acct[a].uname] = [a \in Accts(r.w) |-> r.w.acct[a].uname]))

\* replay of a model behaviour: the real code gives the result the model predicted when it generated the step
P00_ReplayAgrees(w, ev, w2, h, r) == (Call(ev) /\ "mcres" \in DOMAIN ev.x) => ev.res = ev.x.mcres

\* full agreement with the reference model ("drift" when false; never an alarm by itself)
\* ---------------------------------------------------------------------------
\* Log entries (specification coverage beyond the listed properties: compared as part of Conforms, i.e. reported as drift, never a verdict).
\* Every successful token operation reports what it did: identifier = function name, address = caller, topics = token id, then the amount
\* (fungible family) or the nonce (NFT family), then the other party's address where there is one (for ESDTNFTCreate: the stored entry).
LogE(id, addr, tok, num, third) == [id |-> id, addr |-> addr, tok |-> tok, num |-> num, third |-> third]
ValueLogFns == {"ESDTTransfer", "ESDTBurn", "ESDTLocalBurn", "ESDTLocalMint", "ESDTWipe"}
AddrHex(a) == IF a \in DOMAIN cfg.addrs THEN cfg.addrs[a].hex ELSE "?"
ObsLog(l) ==
  LET nt == Len(l.topics) IN
  IF nt < 2 \/ nt > 3 \/ l.data # "" THEN LogE(l.id, l.addr, "?", -99, "?") ELSE
  LogE(l.id, l.addr, l.topics[1].h, IF l.id \in ValueLogFns THEN l.topics[2].q ELSE l.topics[2].n,
       IF nt = 3 THEN (IF l.id = "ESDTNFTCreate" THEN "data" ELSE l.topics[3].h) ELSE "")
ObsLogs(ev) == [i \in 1..Len(ev.logs) |-> ObsLog(ev.logs[i])]
ExpLogs(w, ev) ==
  LET f == ev.fn
      n == NArgs(ev) IN
  CASE f = "ESDTTransfer" /\ n >= 2 -> <<LogE(f, ev.caller, Arg(ev,1).h, Arg(ev,2).q, IF ev.dst THEN AddrHex(ev.rcpt) ELSE "")>>
    [] f \in {"ESDTBurn", "ESDTLocalBurn", "ESDTLocalMint"} /\ n >= 2 -> <<LogE(f, ev.caller, Arg(ev,1).h, Arg(ev,2).q, "")>>
    [] f = "ESDTWipe" /\ n >= 1 -> <<LogE(f, ev.caller, Arg(ev,1).h, 0, AddrHex(ev.rcpt))>>
    [] f = "ESDTNFTTransfer" /\ n >= 4 ->
         IF ev.caller = ev.rcpt THEN <<LogE(f, ev.caller, Arg(ev,1).h, Arg(ev,2).n, Arg(ev,4).h)>>
         ELSE <<LogE(f, ev.caller, Arg(ev,1).h, IF Arg(ev,4).he /\ Arg(ev,4).e.hm THEN Arg(ev,4).e.meta.nonce ELSE -98, AddrHex(ev.rcpt))>>
    [] f = "MultiESDTNFTTransfer" /\ n >= 4 ->
         IF ev.caller = ev.rcpt THEN
            LET k == Arg(ev,2).n IN
            IF k < 1 \/ n < 3 * k + 2 THEN <<LogE("?", "?", "?", -97, "?")>>
            ELSE [i \in 1..k |-> LogE(f, ev.caller, Arg(ev, 3 * i).h, Arg(ev, 3 * i + 1).n, Arg(ev,1).h)]
         ELSE
            LET k == Arg(ev,1).n IN
            IF k < 1 \/ n < 3 * k + 1 THEN <<LogE("?", "?", "?", -97, "?")>>
            ELSE [i \in 1..k |-> LogE(f, ev.caller, Arg(ev, 3 * i - 1).h, Arg(ev, 3 * i).n, AddrHex(ev.rcpt))]
    [] f = "ESDTNFTCreate" /\ n >= 1 /\ ev.caller \in Accts(w) -> <<LogE(f, ev.caller, Arg(ev,1).h, CtrOf(w.acct[ev.caller], Arg(ev,1).h) + 1, "data")>>
    [] f \in {"ESDTNFTAddQuantity", "ESDTNFTBurn", "ESDTNFTAddURI", "ESDTNFTUpdateAttributes"} /\ n >= 2 -> <<LogE(f, ev.caller, Arg(ev,1).h, Arg(ev,2).n, "")>>
    [] OTHER -> <<>>
\* the entry shown in the create log is the entry that was stored
CreateLogEntry(ev, w2) ==
  (ev.fn = "ESDTNFTCreate" /\ Len(ev.logs) = 1 /\ Len(ev.logs[1].topics) = 3 /\ ev.caller \in Accts(w2)) =>
     LET t == ev.logs[1].topics IN
     t[3].he /\ t[2].n >= 0 /\ (t[1].h \o NBHex(t[2].n)) \in DOMAIN w2.acct[ev.caller].esdt /\ t[3].e = w2.acct[ev.caller].esdt[t[1].h \o NBHex(t[2].n)]
LogsOK(w, ev, w2) == (Call(ev) /\ IsOk(ev)) => (ObsLogs(ev) = ExpLogs(w, ev) /\ CreateLogEntry(ev, w2))

DiffParts(w, ev, w2, r) ==
  (IF IsOk(ev) # r.ok THEN {<<"res">>} ELSE {}) \cup (IF w2.acct # r.w.acct THEN {<<"acct">>} ELSE {}) \cup (IF w2.paused # r.w.paused THEN {<<"paused">>} ELSE {})
  \cup (IF SemMsgs(w2.msgs) # SemMsgs(r.w.msgs) THEN {<<"msgs">>} ELSE {}) \cup (IF w2.nextId # r.w.nextId THEN {<<"nextId">>} ELSE {})
  \cup (IF IsOk(ev) /\ ev.gascls = "" /\ ev.gr # r.gr THEN {<<"gr", ev.gr, r.gr>>} ELSE {}) \cup (IF IsOk(ev) /\ NoIds(ev.out) # NoIds(r.out) THEN {<<"out">>} ELSE {})
  \cup (IF IsOk(ev) /\ ev.ret # r.ret THEN {<<"ret">>} ELSE {}) \cup (IF ~LogsOK(w, ev, w2) THEN {<<"logs">>} ELSE {})
  \cup {<<"acct", a>> : a \in {x \in DOMAIN w2.acct : x \in DOMAIN r.w.acct /\ w2.acct[x] # r.w.acct[x]}}
Conforms(w, ev, w2, h, r) ==
  Call(ev) => (LogsOK(w, ev, w2) /\ (r.unk \/ ((IsOk(ev) = r.ok) /\ SemWorld(w2) = SemWorld(r.w) /\ (IsOk(ev) => ((ev.gascls # "" \/ ev.gr = r.gr) /\ NoIds(ev.out) = NoIds(r.out) /\ ev.ret = r.ret)))))

=============================================================================
