----------------------------- MODULE StepProps -----------------------------
(***************************************************************************)
(* Step predicates: (w, ev, w2, h, r).  r is the specification's result    *)
(* for the recorded call on the recorded pre-state; r.unk = the model      *)
(* makes no prediction (values outside what it represents).                *)
(***************************************************************************)
EXTENDS Props

Pred(r) == ~r.unk
MetaNZ(w) == [a \in Accts(w) |-> [k \in {x \in DOMAIN w.acct[a].esdt : w.acct[a].esdt[x].hm} |-> w.acct[a].esdt[k].meta]]
SupplyFns == {"ESDTLocalMint", "ESDTNFTAddQuantity", "ESDTNFTCreate", "ESDTLocalBurn", "ESDTBurn", "ESDTNFTBurn", "ESDTWipe"}
RoleGated == {"ESDTLocalMint", "ESDTLocalBurn", "ESDTNFTCreate", "ESDTNFTAddQuantity", "ESDTNFTBurn", "ESDTNFTAddURI", "ESDTNFTUpdateAttributes"}
RoleFor(fn) == CASE fn = "ESDTLocalMint" -> RoleMint [] fn = "ESDTLocalBurn" -> RoleBurn [] fn = "ESDTNFTCreate" -> RoleCreate
                 [] fn = "ESDTNFTAddQuantity" -> RoleAddQ [] fn = "ESDTNFTBurn" -> RoleNBurn [] fn = "ESDTNFTAddURI" -> RoleAddURI
                 [] OTHER -> RoleUpd
FlagFns == {"ESDTFreeze", "ESDTUnFreeze", "ESDTPause", "ESDTUnPause"}
AcctFns == {"ChangeOwnerAddress", "ClaimDeveloperRewards", "SetUserName"}
IsIssue(ev) == ev.fn = "ESDTTransfer" /\ ev.caller = ESDTSC

---------------------------------------------------------------------------
\* C01
P01_Exact(w, ev, w2, h, r) ==
  (Call(ev) /\ ev.fn \in TokenFns /\ IsOk(ev) /\ Pred(r)) => (r.ok /\ Bal(w2) = Bal(r.w) /\ Carried(w2) = Carried(r.w))
P01_DeliveryAccepted(w, ev, w2, h, r) ==
  (ev.a = "deliver" /\ ev.fn \in TokenFns /\ ~ev.rae /\ Pred(r) /\ r.ok) => IsOk(ev)
P01_RefundRestores(w, ev, w2, h, r) ==
  (ev.a = "deliver" /\ ev.fn \in TokenFns /\ ev.rae /\ Pred(r) /\ r.ok) => (IsOk(ev) /\ Bal(w2) = Bal(r.w))
P01_FailKeeps(w, ev, w2, h, r) ==
  (Call(ev) /\ ev.fn \in TokenFns /\ ~IsOk(ev)) => (Bal(w2) = Bal(w) /\ {<<x[1], x[4]>> : x \in Carried(w2)} = {<<x[1], x[4]>> : x \in Carried(w)})

\* C02
P02_Delta(w, ev, w2, h, r) ==
  (Call(ev) /\ ev.fn \in SupplyFns /\ Pred(r)) => ((IsOk(ev) = r.ok) /\ (IsOk(ev) => Bal(w2) = Bal(r.w)))
P02_Others(w, ev, w2, h, r) ==
  (~Call(ev) \/ ~(ev.fn \in SupplyFns \cup TokenFns)) => Bal(w2) = Bal(w)
P02_NoOverdraft(w, ev, w2, h, r) ==
  \* taking more than the account holds fails (burn-like operations and transfers, sender side)
  (Call(ev) /\ IsOk(ev) /\ ev.fn \in {"ESDTLocalBurn", "ESDTBurn"} /\ NArgs(ev) >= 2) => Arg(ev,2).q <= ValAt(w, ev.caller, Arg(ev,1).h)

\* C03
P03_Authority(w, ev, w2, h, r) ==
  /\ (Call(ev) /\ IsOk(ev) /\ ev.fn \in RoleGated) =>
        /\ RoleFor(ev.fn) \in Range(RolesOf(w.acct[ev.caller], Arg(ev,1).h))
        /\ (ev.fn = "ESDTNFTCreate" /\ MoreThanOne(Arg(ev,2).q)) => RoleAddQ \in Range(RolesOf(w.acct[ev.caller], Arg(ev,1).h))
  /\ (RolesMap(w2) # RolesMap(w) \/ w2.paused # w.paused \/ FrozenSet(w2) # FrozenSet(w)) =>
        (Call(ev) /\ (ev.caller = ESDTSC \/ (ev.a = "deliver" /\ ev.fn = "ESDTNFTCreateRoleTransfer")))
  /\ (Call(ev) /\ IsOk(ev) /\ ev.fn = "ESDTWipe") => ev.caller = ESDTSC
  /\ \A a \in Accts(w) \cap Accts(w2) :
        /\ w2.acct[a].owner # w.acct[a].owner => (Call(ev) /\ ev.fn = "ChangeOwnerAddress" /\ ev.caller = w.acct[a].owner)
        /\ w2.acct[a].dev # w.acct[a].dev => (Call(ev) /\ ev.fn = "ClaimDeveloperRewards" /\ ev.caller = w.acct[a].owner)
        /\ w2.acct[a].uname # w.acct[a].uname => (Call(ev) /\ ev.fn = "SetUserName" /\ Known(ev.caller) /\ cfg.addrs[ev.caller].dns)
P03_Grant(w, ev, w2, h, r) ==
  (Call(ev) /\ ev.fn \in RoleGated /\ Pred(r) /\ r.ok) => IsOk(ev)
P03_Denied(w, ev, w2, h, r) ==
  \* an attempt the model rejects for lack of authority is rejected
  (Call(ev) /\ ev.fn \in (RoleGated \cup AcctFns \cup FlagFns \cup {"ESDTWipe", "ESDTSetRole", "ESDTUnSetRole", "ESDTNFTCreateRoleTransfer"})
    /\ Pred(r) /\ ~r.ok) => ~IsOk(ev)

\* C04
CoveredByPause(w, s, k, e) ==
  \E t \in DOMAIN w.paused[ShStr(s)] : FlagSet(w.paused[ShStr(s)][t]) /\ (k = t \/ (e.hm /\ e.meta.nonce >= 0 /\ k = t \o NBHex(e.meta.nonce)))
Exempt(ev, a) ==
  \/ a = ESDTSC
  \/ (Call(ev) /\ ev.rae)
  \/ (Call(ev) /\ ev.caller = ESDTSC /\ ev.fn \in {"ESDTWipe", "ESDTUnFreeze", "ESDTUnPause", "ESDTFreeze", "ESDTPause"})
P04_Immobile(w, ev, w2, h, r) ==
  \A a \in Accts(w) \cap Accts(w2) : Known(a) /\ ShardOfA(a) >= 0 =>
    \A k \in DOMAIN w.acct[a].esdt :
      LET e == w.acct[a].esdt[k] IN
      (FlagSet(e.props) \/ CoveredByPause(w, ShardOfA(a), k, e)) =>
         ((k \in DOMAIN w2.acct[a].esdt /\ w2.acct[a].esdt[k] = e) \/ Exempt(ev, a))
P04_NoCreditWhilePaused(w, ev, w2, h, r) ==
  \* a paused token gains no new holding either
  \A a \in Accts(w) \cap Accts(w2) : Known(a) /\ ShardOfA(a) >= 0 =>
    \A k \in (DOMAIN w2.acct[a].esdt) \ (DOMAIN w.acct[a].esdt) :
      CoveredByPause(w, ShardOfA(a), k, w2.acct[a].esdt[k]) => Exempt(ev, a)
P04_FlagOnly(w, ev, w2, h, r) ==
  (Call(ev) /\ ev.fn \in FlagFns) => (Bal(w2) = Bal(w) /\ MetaNZ(w2) = MetaNZ(w) /\ w2.msgs = w.msgs)
P04_Restores(w, ev, w2, h, r) ==
  \* after the flag is cleared an operation behaves as the model without the flag says
  (Call(ev) /\ Pred(r) /\ r.ok /\ NArgs(ev) >= 1 /\ (\E i \in 1..NArgs(ev) : Arg(ev, i).h \in h.flagged)
     /\ ev.fn \in (SupplyFns \cup TokenFns \cup {"ESDTNFTAddURI", "ESDTNFTUpdateAttributes"})) => (IsOk(ev) /\ Bal(w2) = Bal(r.w))

\* C05
P05_Protected(w, ev, w2, h, r) ==
  (Call(ev) /\ ev.fn = "SaveKeyValue") => (Proto(w2) = Proto(w) /\ w2.paused = w.paused /\ w2.sysx = w.sysx /\ Fields(w2) = Fields(w))
P05_KVExact(w, ev, w2, h, r) ==
  /\ (Call(ev) /\ ev.fn = "SaveKeyValue" /\ IsOk(ev)) => (ev.caller = ev.rcpt /\ ~IsSC(ev.caller) /\ (Pred(r) => (r.ok /\ KVMap(w2) = KVMap(r.w))))
  /\ (~Call(ev) \/ ev.fn # "SaveKeyValue") => KVMap(w2) = KVMap(w)
Named(ev, k) == \E i \in 1..NArgs(ev) : IsPfx(Arg(ev, i).h, k)
NamedAccts(ev) == {ev.caller, ev.rcpt} \cup {Arg(ev, i).ad : i \in 1..NArgs(ev)}
ChangedKeys(f, g) == {k \in (DOMAIN f) \cup (DOMAIN g) : ~(k \in DOMAIN f /\ k \in DOMAIN g /\ f[k] = g[k])}
P05_Frame(w, ev, w2, h, r) ==
  /\ Accts(w2) = Accts(w)
  /\ ~Call(ev) => (w2.acct = w.acct /\ w2.paused = w.paused /\ w2.msgs = w.msgs)
  /\ Call(ev) =>
       /\ \A a \in Accts(w) : w2.acct[a] # w.acct[a] => a \in NamedAccts(ev)
       /\ \A a \in Accts(w) :
            /\ \A k \in ChangedKeys(w.acct[a].esdt, w2.acct[a].esdt) : Named(ev, k)
            /\ \A k \in ChangedKeys(w.acct[a].roles, w2.acct[a].roles) \cup ChangedKeys(w.acct[a].ctr, w2.acct[a].ctr) :
                  \E i \in 1..NArgs(ev) : Arg(ev, i).h = k
            /\ w2.acct[a].bad = w.acct[a].bad
            /\ (w2.acct[a].owner # w.acct[a].owner \/ w2.acct[a].uname # w.acct[a].uname \/ w2.acct[a].dev # w.acct[a].dev
                  \/ w2.acct[a].egld # w.acct[a].egld) => ev.fn \in AcctFns
       /\ \A s \in DOMAIN w.paused : \A k \in ChangedKeys(w.paused[s], w2.paused[s]) :
            ev.fn \in {"ESDTPause", "ESDTUnPause"} /\ s = ShStr(ev.sh) /\ NArgs(ev) >= 1 /\ Arg(ev,1).h = k
       /\ w2.sysx = w.sysx
       /\ w2.oracle = w.oracle /\ w2.sched = w.sched

\* C06
Fwd(ev) == ev.fwd
P06_NoGasCreated(w, ev, w2, h, r) ==
  (Call(ev) /\ IsOk(ev)) => (ev.gr < HugeGas /\ ev.fwd < HugeGas /\ ev.gr + ev.fwd <= ev.gas) \/ (ev.gascls # "" /\ "consumed" \in DOMAIN ev.x /\ ev.x.consumed >= 0)
P06_Underfunded(w, ev, w2, h, r) ==
  \* the model rejects the call for lack of gas (it accepts it with ample gas): then it fails or keeps nothing
  (Call(ev) /\ IsOk(ev) /\ Pred(r) /\ ~r.ok /\ ev.gas < HugeGas) =>
     LET r2 == IF ev.a = "exec" THEN Exec(w, [ev EXCEPT !.gas = 900000000]) ELSE r IN
     (ev.a = "exec" /\ Pred(r2) /\ r2.ok) => ev.gr + ev.fwd = 0

\* C07
P07_ReturnedNonce(w, ev, w2, h, r) ==
  (Call(ev) /\ IsOk(ev) /\ ev.fn = "ESDTNFTCreate" /\ NArgs(ev) >= 2) =>
     LET t == Arg(ev,1).h
         n == CtrOf(w.acct[ev.caller], t) + 1 IN
     /\ ev.retn = n /\ Len(ev.ret) = 1 /\ ev.ret[1] = NBHex(n)
     /\ CtrOf(w2.acct[ev.caller], t) = n
     /\ (t \o NBHex(n)) \in DOMAIN w2.acct[ev.caller].esdt
     /\ w2.acct[ev.caller].esdt[t \o NBHex(n)].hm /\ w2.acct[ev.caller].esdt[t \o NBHex(n)].meta.nonce = n
     /\ n > MaxN(h, t) /\ ~(<<t, n>> \in h.made)
P07_Handover(w, ev, w2, h, r) ==
  (Call(ev) /\ ev.fn = "ESDTNFTCreateRoleTransfer" /\ Pred(r)) =>
     ((IsOk(ev) = r.ok) /\ (IsOk(ev) => (CtrMap(w2) = CtrMap(r.w) /\ RolesMap(w2) = RolesMap(r.w) /\ SemMsgs(w2.msgs) = SemMsgs(r.w.msgs))))
P07_CtrOnlyByCreate(w, ev, w2, h, r) ==
  CtrMap(w2) # CtrMap(w) => (Call(ev) /\ IsOk(ev) /\ ev.fn \in {"ESDTNFTCreate", "ESDTNFTCreateRoleTransfer"})

\* C08
P08_Conf(w, ev, w2, h, r) ==
  (Call(ev) /\ IsOk(ev) /\ Pred(r) /\ r.ok) => (MetaOf(w2) = MetaOf(r.w) /\ SemMsgs(w2.msgs) = SemMsgs(r.w.msgs))
P08_Create(w, ev, w2, h, r) ==
  (Call(ev) /\ IsOk(ev) /\ ev.fn = "ESDTNFTCreate" /\ NArgs(ev) >= 7 /\ ev.retn > 0) =>
     LET k == Arg(ev,1).h \o NBHex(ev.retn) IN
     k \in DOMAIN w2.acct[ev.caller].esdt /\
     LET m == w2.acct[ev.caller].esdt[k].meta IN
     /\ m.creator = ev.caller /\ m.roy <= 10000 /\ m.roy >= 0 /\ (Arg(ev,4).n >= 0 /\ Arg(ev,4).n <= 10000 => m.roy = Arg(ev,4).n)
     /\ m.name = Arg(ev,3).h /\ m.hash = Arg(ev,5).h /\ m.attrs = Arg(ev,6).h
     /\ m.uris = [i \in 1..(NArgs(ev) - 6) |-> Arg(ev, i + 6).h]
     /\ w2.acct[ev.caller].esdt[k].val = Arg(ev,2).q
P08_OnlyUriAttr(w, ev, w2, h, r) ==
  \* an existing holding's metadata changes only through the two metadata functions of its holder, or by receiving a copy
  \A a \in Accts(w) \cap Accts(w2) : \A k \in (DOMAIN w.acct[a].esdt) \cap (DOMAIN w2.acct[a].esdt) :
     (w.acct[a].esdt[k].meta # w2.acct[a].esdt[k].meta \/ w.acct[a].esdt[k].hm # w2.acct[a].esdt[k].hm) =>
        \/ (Call(ev) /\ IsOk(ev) /\ ev.fn \in {"ESDTNFTAddURI", "ESDTNFTUpdateAttributes"} /\ ev.caller = a /\ k = Arg(ev,1).h \o NBHex(Arg(ev,2).n))
        \/ (Call(ev) /\ IsOk(ev) /\ ev.fn \in TokenFns /\ a # ev.caller /\ w2.acct[a].esdt[k].val >= w.acct[a].esdt[k].val)   \* received a copy (also of quantity 0)
P08_UriAttrExact(w, ev, w2, h, r) ==
  (Call(ev) /\ IsOk(ev) /\ ev.fn \in {"ESDTNFTAddURI", "ESDTNFTUpdateAttributes"} /\ Pred(r)) =>
     (r.ok /\ w2.acct = r.w.acct /\ w2.paused = w.paused /\ w2.msgs = w.msgs)
P08_WrongHash(w, ev, w2, h, r) ==
  \* a credit into a holding with a different hash is rejected
  \A a \in Accts(w) \cap Accts(w2) : \A k \in (DOMAIN w.acct[a].esdt) \cap (DOMAIN w2.acct[a].esdt) :
     (w.acct[a].esdt[k].hm /\ w2.acct[a].esdt[k].hm /\ w2.acct[a].esdt[k].val > w.acct[a].esdt[k].val /\ Call(ev) /\ ev.fn \in TokenFns)
        => w2.acct[a].esdt[k].meta.hash = w.acct[a].esdt[k].meta.hash

\* C09
Gained(w, w2, a) == a \in Accts(w) /\ \E k \in DOMAIN w2.acct[a].esdt : w2.acct[a].esdt[k].val > ValAt(w, a, k)
MinArgs(ev) ==
  CASE ev.fn = "ESDTTransfer" -> 2
    [] ev.fn = "ESDTNFTTransfer" -> 4
    [] OTHER -> IF ev.caller = ev.rcpt THEN (IF NArgs(ev) >= 2 /\ Arg(ev,2).n >= 0 THEN 3 * Arg(ev,2).n + 2 ELSE 0)
                ELSE (IF NArgs(ev) >= 1 /\ Arg(ev,1).n >= 0 THEN 3 * Arg(ev,1).n + 1 ELSE 0)
P09_Admissible(w, ev, w2, h, r) ==
  (Call(ev) /\ ev.fn \in TokenFns /\ IsOk(ev)) =>
     \A a \in Accts(w2) : (Gained(w, w2, a) /\ a # ev.caller /\ ~PayableOK(w, a)) =>
        (NArgs(ev) > MinArgs(ev) \/ ev.ct \in {2, 3} \/ ev.caller = ESDTSC)
P09_Rejected(w, ev, w2, h, r) ==
  (Call(ev) /\ ev.fn \in TokenFns /\ IsOk(ev)) =>
     /\ ~(Known(ev.rcpt) /\ IsMetaA(ev.rcpt) /\ ev.fn = "ESDTTransfer")
     /\ (ev.caller = ev.rcpt /\ ev.fn # "ESDTTransfer") =>
          LET da == IF ev.fn = "ESDTNFTTransfer" THEN Arg(ev,4) ELSE Arg(ev,1) IN
          /\ BLen(da.h) = ALen(ev.caller) /\ da.h # cfg.addrs[ev.caller].hex
          /\ (da.ad # "" => ~IsMetaA(da.ad))

\* C16
P16_Price(w, ev, w2, h, r) ==
  (ev.a = "exec" /\ IsOk(ev) /\ Pred(r) /\ r.ok /\ ev.snd /\ ev.gas < HugeGas) =>
     LET rf == SumSeq([i \in 1..Len(r.out) |-> IF r.out[i].tx THEN 0 ELSE r.out[i].gas]) IN
     (ev.gas - ev.gr - ev.fwd) = (ev.gas - r.gr - rf)

\* full agreement with the reference model ("drift" when false; never an alarm by itself)
NoIds(ms) == [i \in 1..Len(ms) |-> [SemMsg(ms[i]) EXCEPT !.id = 0]]
DiffParts(w, ev, w2, r) ==
  (IF IsOk(ev) # r.ok THEN {<<"res">>} ELSE {}) \cup (IF w2.acct # r.w.acct THEN {<<"acct">>} ELSE {}) \cup (IF w2.paused # r.w.paused THEN {<<"paused">>} ELSE {})
  \cup (IF SemMsgs(w2.msgs) # SemMsgs(r.w.msgs) THEN {<<"msgs">>} ELSE {}) \cup (IF w2.nextId # r.w.nextId THEN {<<"nextId">>} ELSE {})
  \cup (IF IsOk(ev) /\ ev.gr # r.gr THEN {<<"gr", ev.gr, r.gr>>} ELSE {}) \cup (IF IsOk(ev) /\ NoIds(ev.out) # NoIds(r.out) THEN {<<"out">>} ELSE {})
  \cup (IF IsOk(ev) /\ ev.ret # r.ret THEN {<<"ret">>} ELSE {})
  \cup {<<"acct", a>> : a \in {x \in DOMAIN w2.acct : x \in DOMAIN r.w.acct /\ w2.acct[x] # r.w.acct[x]}}
Conforms(w, ev, w2, h, r) ==
  Call(ev) => (r.unk \/ ((IsOk(ev) = r.ok) /\ SemWorld(w2) = SemWorld(r.w) /\ (IsOk(ev) => (ev.gr = r.gr /\ NoIds(ev.out) = NoIds(r.out) /\ ev.ret = r.ret))))

=============================================================================
