---------------------------- MODULE FungibleCore ----------------------------
(***************************************************************************)
(* The fungible core of the ledger over UNBOUNDED integers, for an         *)
(* inductive proof of conservation with Apalache (an extra to the bounded  *)
(* TLC runs of EsdtMC, never the verdict about the code): transfer on one  *)
(* shard and across shards, delivery, refusal turned into a                *)
(* return-after-error refund, refund delivery, mint, burn, freeze,         *)
(* unfreeze.  Same guards and effects as Esdt.tla's ESDTTransfer / AddBal  *)
(* / Deliver restricted to one fungible token; in-flight messages live in  *)
(* a fixed number of slots (one function per message field: Apalache      *)
(* cannot build a set of records with an integer field).                  *)
(*                                                                         *)
(*   apalache-mc check --init=IndInit --inv=IndInv --length=1              *)
(*   apalache-mc check --init=Init    --inv=IndInv --length=0              *)
(***************************************************************************)
EXTENDS Integers

Accts == {"a", "b", "c"}
Slots == {1, 2}
\* @type: Str => Int;
ShardOf(x) == IF x = "c" THEN 1 ELSE 0

VARIABLES
  \* @type: Str -> Int;
  bal,
  \* @type: Int -> Bool;
  live,
  \* @type: Int -> Str;
  from,
  \* @type: Int -> Str;
  to,
  \* @type: Int -> Int;
  amt,
  \* @type: Int -> Bool;
  rae,
  \* @type: Set(Str);
  frozen,
  \* @type: Int;
  supply

msgvars == <<live, from, to, amt, rae>>

InFlight == (IF live[1] THEN amt[1] ELSE 0) + (IF live[2] THEN amt[2] ELSE 0)
Held == bal["a"] + bal["b"] + bal["c"]

TypeOK ==
  /\ bal \in [Accts -> Int]
  /\ live \in [Slots -> BOOLEAN] /\ rae \in [Slots -> BOOLEAN]
  /\ from \in [Slots -> Accts] /\ to \in [Slots -> Accts]
  /\ amt \in [Slots -> Int]
  /\ frozen \in SUBSET Accts
  /\ supply \in Int

IndInv ==
  /\ TypeOK
  /\ \A x \in Accts : bal[x] >= 0
  /\ \A s \in Slots : live[s] => amt[s] > 0
  /\ Held + InFlight = supply

IndInit == IndInv

Init ==
  /\ bal = [x \in Accts |-> 0]
  /\ live = [s \in Slots |-> FALSE] /\ rae = [s \in Slots |-> FALSE]
  /\ from = [s \in Slots |-> "a"] /\ to = [s \in Slots |-> "a"]
  /\ amt = [s \in Slots |-> 0]
  /\ frozen = {}
  /\ supply = 0

Transfer(x, y, q) ==
  /\ q > 0 /\ x \notin frozen /\ bal[x] >= q
  /\ IF ShardOf(x) = ShardOf(y)
     THEN /\ y \notin frozen
          /\ LET b1 == [bal EXCEPT ![x] = @ - q] IN bal' = [b1 EXCEPT ![y] = @ + q]     \* debit, then credit (x = y is a no-op)
          /\ UNCHANGED msgvars
     ELSE \E s \in Slots :
            /\ ~live[s]
            /\ bal' = [bal EXCEPT ![x] = @ - q]
            /\ live' = [live EXCEPT ![s] = TRUE] /\ rae' = [rae EXCEPT ![s] = FALSE]
            /\ from' = [from EXCEPT ![s] = x] /\ to' = [to EXCEPT ![s] = y] /\ amt' = [amt EXCEPT ![s] = q]
  /\ UNCHANGED <<frozen, supply>>

\* delivery: a refund (rae) is always credited; a refused delivery turns into a refund to the original sender
Deliver(s) ==
  /\ live[s]
  /\ IF rae[s] \/ to[s] \notin frozen
     THEN /\ bal' = [bal EXCEPT ![to[s]] = @ + amt[s]]
          /\ live' = [live EXCEPT ![s] = FALSE]
          /\ UNCHANGED <<from, to, amt, rae>>
     ELSE /\ from' = [from EXCEPT ![s] = to[s]] /\ to' = [to EXCEPT ![s] = from[s]] /\ rae' = [rae EXCEPT ![s] = TRUE]
          /\ UNCHANGED <<bal, live, amt>>
  /\ UNCHANGED <<frozen, supply>>

Mint(x, q) == q > 0 /\ x \notin frozen /\ bal' = [bal EXCEPT ![x] = @ + q] /\ supply' = supply + q /\ UNCHANGED <<live, from, to, amt, rae, frozen>>
Burn(x, q) == q > 0 /\ x \notin frozen /\ bal[x] >= q /\ bal' = [bal EXCEPT ![x] = @ - q] /\ supply' = supply - q /\ UNCHANGED <<live, from, to, amt, rae, frozen>>
Freeze(x) == frozen' = frozen \cup {x} /\ UNCHANGED <<bal, live, from, to, amt, rae, supply>>
UnFreeze(x) == frozen' = frozen \ {x} /\ UNCHANGED <<bal, live, from, to, amt, rae, supply>>
Wipe(x) == x \in frozen /\ supply' = supply - bal[x] /\ bal' = [bal EXCEPT ![x] = 0] /\ UNCHANGED <<live, from, to, amt, rae, frozen>>

Next ==
  \/ \E x \in Accts, y \in Accts, q \in Int : Transfer(x, y, q)
  \/ \E s \in Slots : Deliver(s)
  \/ \E x \in Accts, q \in Int : Mint(x, q) \/ Burn(x, q)
  \/ \E x \in Accts : Freeze(x) \/ UnFreeze(x) \/ Wipe(x)
=============================================================================
