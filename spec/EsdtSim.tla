------------------------------- MODULE EsdtSim -------------------------------
(***************************************************************************)
(* Behaviour generation for replay (specification -> code).  TLC's         *)
(* simulation mode walks the bounded model of EsdtMC; the walk's steps are *)
(* collected in hist and printed as one JSON line when the walk reaches    *)
(* the requested depth (printed from the only action enabled there, so it  *)
(* fires once per walk).  The harness replays each walk against the real   *)
(* code from the same initial world and the recorded behaviour is then     *)
(* validated by EsdtTrace like any other trace.                            *)
(***************************************************************************)
EXTENDS EsdtMC, Json

CONSTANT Depth
VARIABLE hist
svars == <<cfg, w, h, ev, viol, hist>>

SimInit == Init /\ hist = <<>>
SimNext == \/ (Len(hist) < Depth /\ Next /\ hist' = Append(hist, ev'))
           \/ (Len(hist) = Depth /\ PrintT(<<"WALK", ToJson(hist)>>) /\ UNCHANGED vars /\ hist' = Append(hist, ev))
SimSpec == SimInit /\ [][SimNext]_svars
=============================================================================
