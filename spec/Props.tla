------------------------------- MODULE Props -------------------------------
(***************************************************************************)
(* The property predicates.  State predicates take a world; step           *)
(* predicates take (pre-world w, event ev, post-world w2, history h,       *)
(* reference result r = what the specification says the step does).        *)
(* Each predicate transcribes one sentence of a property statement.        *)
(* StepViol / StateViol return the set of names of the violated ones.      *)
(***************************************************************************)
EXTENDS EsdtStep

IsPfx(p, k) == Len(p) <= Len(k) /\ SubSeq(k, 1, Len(p)) = p
Accts(w) == DOMAIN w.acct

---------------------------------------------------------------------------
\* projections

\* balances: per account the non-zero values by key
Bal(w) == [a \in Accts(w) |-> [k \in {x \in DOMAIN w.acct[a].esdt : w.acct[a].esdt[x].val # 0} |-> w.acct[a].esdt[k].val]]
ValAt(w, a, k) == IF a \in Accts(w) /\ k \in DOMAIN w.acct[a].esdt THEN w.acct[a].esdt[k].val ELSE 0
MetaOf(w) == [a \in Accts(w) |-> [k \in DOMAIN w.acct[a].esdt |-> [hm |-> w.acct[a].esdt[k].hm, meta |-> w.acct[a].esdt[k].meta, type |-> w.acct[a].esdt[k].type]]]
RolesMap(w) == [a \in Accts(w) |-> w.acct[a].roles]
CtrMap(w) == [a \in Accts(w) |-> w.acct[a].ctr]
KVMap(w) == [a \in Accts(w) |-> w.acct[a].kv]
Fields(w) == [a \in Accts(w) |-> [owner |-> w.acct[a].owner, uname |-> w.acct[a].uname, dev |-> w.acct[a].dev, egld |-> w.acct[a].egld]]
Proto(w) == [a \in Accts(w) |-> [esdt |-> w.acct[a].esdt, roles |-> w.acct[a].roles, ctr |-> w.acct[a].ctr, bad |-> w.acct[a].bad]]
FrozenSet(w) == {<<a, k>> \in UNION {{<<a, k>> : k \in DOMAIN w.acct[a].esdt} : a \in Accts(w)} : FlagSet(w.acct[a].esdt[k].props)}

\* (key, quantity) pairs a message carries
RECURSIVE MultiItems(_, _, _)
MultiItems(args, k, i) ==
  IF i >= k \/ 3 * i + 4 > Len(args) THEN <<>>
  ELSE LET tok == args[3 * i + 2].h
           va == args[3 * i + 4] IN
       (IF args[3 * i + 3].n # 0
        THEN (IF HasE(va) THEN <<[key |-> tok \o NBHex(EntryNonce(va.e)), qty |-> va.e.val]>> ELSE <<[key |-> tok, qty |-> Bad]>>)
        ELSE <<[key |-> tok, qty |-> va.q]>>)
       \o MultiItems(args, k, i + 1)
MsgItems(m) ==
  CASE m.fn = "ESDTTransfer" /\ Len(m.args) >= 2 -> <<[key |-> m.args[1].h, qty |-> m.args[2].q]>>
    [] m.fn = "ESDTNFTTransfer" /\ Len(m.args) >= 4 ->
         IF HasE(m.args[4]) THEN <<[key |-> m.args[1].h \o NBHex(EntryNonce(m.args[4].e)), qty |-> m.args[4].e.val]>>
         ELSE <<[key |-> m.args[1].h, qty |-> Bad]>>
    [] m.fn = "MultiESDTNFTTransfer" /\ Len(m.args) >= 1 /\ m.args[1].n > 0 -> MultiItems(m.args, m.args[1].n, 0)
    [] OTHER -> <<>>
RECURSIVE FlatItems(_)
FlatItems(ms) == IF ms = <<>> THEN <<>> ELSE MsgItems(Head(ms)) \o FlatItems(Tail(ms))
RECURSIVE SumFor(_, _)
SumFor(items, k) == IF items = <<>> THEN 0 ELSE PAdd(IF Head(items).key = k THEN Head(items).qty ELSE 0, SumFor(Tail(items), k))
InFlightKeys(w) == {it.key : it \in Range(FlatItems(w.msgs))}
InFlight(w, k) == SumFor(FlatItems(w.msgs), k)
ItemKeys(items) == {it.key : it \in Range(items)}
\* what each message carries, by id (order-insensitive view of the bag)
Carried(w) == {<<w.msgs[i].id, w.msgs[i].to, w.msgs[i].rae, MsgItems(w.msgs[i])>> : i \in 1..Len(w.msgs)}

AllKeys(w) == UNION {DOMAIN w.acct[a].esdt : a \in Accts(w)} \cup InFlightKeys(w)
RECURSIVE SumOver(_, _, _)
SumOver(w, k, as) == IF as = {} THEN 0 ELSE LET a == CHOOSE x \in as : TRUE IN PAdd(ValAt(w, a, k), SumOver(w, k, as \ {a}))
Total(w, k) == PAdd(SumOver(w, k, Accts(w)), InFlight(w, k))
TotalI(w, items, k) == PAdd(SumOver(w, k, {a \in Accts(w) : k \in DOMAIN w.acct[a].esdt}), SumFor(items, k))

---------------------------------------------------------------------------
\* history: supply per storage key, nonces ever issued per token
SupplyOf(h, k) == IF k \in DOMAIN h.supply THEN h.supply[k] ELSE 0
Totals(w) == LET items == FlatItems(w.msgs) IN [k \in AllKeys(w) |-> TotalI(w, items, k)]
Hist0(w) == [supply |-> Totals(w), tsupply |-> Totals(w), maxn |-> [t \in {} |-> 0], made |-> {}, flagged |-> {}]
MaxN(h, t) == IF t \in DOMAIN h.maxn THEN h.maxn[t] ELSE 0
Bump(h, k, d) == [h EXCEPT !.supply = Put(@, k, PAdd(SupplyOf(h, k), d))]

IsOk(ev) == ev.res = "ok"
Call(ev) == ev.a \in {"exec", "deliver"}
Arg(ev, i) == ev.args[i]
NArgs(ev) == Len(ev.args)

\* the supply delta a successful call states, from its arguments and the pre-state only
HistStep(h, w, ev) ==
  IF ~(Call(ev) /\ IsOk(ev)) THEN h ELSE
  LET h1 ==
    \* tokens entering the modelled world: an issue by the system contract, or any other incoming ESDTTransfer executed directly on the
    \* destination side (no sender account, not the delivery of one of the world's own messages)
    CASE ev.fn = "ESDTTransfer" /\ ev.a = "exec" /\ ~ev.snd /\ NArgs(ev) >= 2 -> Bump(h, Arg(ev,1).h, Arg(ev,2).q)
      [] ev.fn = "ESDTLocalMint" /\ NArgs(ev) >= 2 -> Bump(h, Arg(ev,1).h, Arg(ev,2).q)
      [] ev.fn \in {"ESDTLocalBurn", "ESDTBurn"} /\ NArgs(ev) >= 2 -> Bump(h, Arg(ev,1).h, PNeg(Arg(ev,2).q))
      [] ev.fn = "ESDTNFTCreate" /\ NArgs(ev) >= 2 ->
           LET n == CtrOf(w.acct[ev.caller], Arg(ev,1).h) + 1 IN
           [Bump(h, Arg(ev,1).h \o NBHex(n), Arg(ev,2).q) EXCEPT !.maxn = Put(@, Arg(ev,1).h, Max(MaxN(h, Arg(ev,1).h), n)),
                                                               !.made = @ \cup {<<Arg(ev,1).h, n>>}]
      [] ev.fn = "ESDTNFTAddQuantity" /\ NArgs(ev) >= 3 -> Bump(h, Arg(ev,1).h \o NBHex(Arg(ev,2).n), Arg(ev,3).q)
      [] ev.fn = "ESDTNFTBurn" /\ NArgs(ev) >= 3 -> Bump(h, Arg(ev,1).h \o NBHex(Arg(ev,2).n), PNeg(Arg(ev,3).q))
      [] ev.fn = "ESDTWipe" /\ NArgs(ev) >= 1 -> Bump(h, Arg(ev,1).h, PNeg(ValAt(w, ev.rcpt, Arg(ev,1).h)))
      [] OTHER -> h IN
  IF ev.fn \in {"ESDTFreeze", "ESDTPause"} /\ NArgs(ev) >= 1 THEN [h1 EXCEPT !.flagged = @ \cup {Arg(ev,1).h}] ELSE h1

---------------------------------------------------------------------------
\* C01's own accounting (tsupply): the sums are invariant under transfers, deliveries and refunds.  Any OTHER call re-bases them to what the
\* world shows afterwards - what a supply operation, a key-value save or any other function does to the sums is the question of C02 / C05,
\* not of C01.  Tokens entering the modelled world through a directly executed destination-side ESDTTransfer are added as stated.
TransferFns == {"ESDTTransfer", "ESDTNFTTransfer", "MultiESDTNFTTransfer"}
TSupplyOf(h, k) == IF k \in DOMAIN h.tsupply THEN h.tsupply[k] ELSE 0
HistT(h, ev, w2) ==
  IF ~Call(ev) THEN h
  ELSE IF ev.fn \notin TransferFns THEN [h EXCEPT !.tsupply = Totals(w2)]
  ELSE IF IsOk(ev) /\ ev.fn = "ESDTTransfer" /\ ev.a = "exec" /\ ~ev.snd /\ NArgs(ev) >= 2
       THEN [h EXCEPT !.tsupply = Put(@, Arg(ev,1).h, PAdd(TSupplyOf(h, Arg(ev,1).h), Arg(ev,2).q))]
  ELSE h

\* C01's accounting: for every storage key, balances + in-flight transfers are invariant under transfers, deliveries and refunds (history h.tsupply, re-based after every other call)
TransferConservation(w, h) ==
  LET items == FlatItems(w.msgs) IN
  \A k \in UNION {DOMAIN w.acct[a].esdt : a \in Accts(w)} \cup ItemKeys(items) \cup DOMAIN h.tsupply : TotalI(w, items, k) = TSupplyOf(h, k)
\* the accounting of C02: for every storage key, balances + in-flight transfers = what issues, mints, creates, burns and wipes STATED (history h.supply)
Conservation(w, h) ==
  LET items == FlatItems(w.msgs) IN
  \A k \in UNION {DOMAIN w.acct[a].esdt : a \in Accts(w)} \cup ItemKeys(items) \cup DOMAIN h.supply : TotalI(w, items, k) = SupplyOf(h, k)
\* no stored balance is negative.  (Bad: a positive amount the scaled projection cannot represent - e.g. a mint of a non-multiple of the trace's unit; Bad + 1: such an amount
\*  with a negative sign)
NoNegative(w) == \A a \in Accts(w) : \A k \in DOMAIN w.acct[a].esdt : w.acct[a].esdt[k].val >= 0 \/ w.acct[a].esdt[k].val = Bad

\* tokens the driver deliberately gives two creators (outside the single-creator discipline, to reach "same token and nonce, different
\* hash") are exempt from the clauses that assume the discipline
IsDupTok(t) == "dup" \in DOMAIN cfg /\ t \in Range(cfg.dup)

\* C15 well-formedness
NoDup(s) == \A i, j \in DOMAIN s : i # j => s[i] # s[j]
\* the token ids the system contract issued in this world (when the trace says so): every entry belongs to one of them
IssuedToks == IF "issued" \in DOMAIN cfg THEN Range(cfg.issued) \cup (IF "dup" \in DOMAIN cfg THEN Range(cfg.dup) ELSE {}) ELSE {}
KeyOfIssued(k, e) ==
  ~("issued" \in DOMAIN cfg) \/ (IF e.hm /\ e.meta.nonce > 0 THEN \E t \in IssuedToks : k = t \o NBHex(e.meta.nonce) ELSE k \in IssuedToks)
EntryWF(k, e) ==
  /\ e.val > 0 \/ e.val = Bad \/ (e.val = 0 /\ e.type = 0 /\ ~e.hm /\ FlagSet(e.props))
  /\ e.type = 0 => ~e.hm
  /\ e.type = 1 => e.hm /\ e.meta.nonce > 0 /\ \E t \in {SubSeq(k, 1, j) : j \in 0..Len(k)} : k = t \o NBHex(e.meta.nonce)
  /\ e.type \in {0, 1}
\* well-formedness (C15): every protocol entry decodes, has a positive balance (zero only with the frozen flag), the right shape for its kind, a key matching its nonce and an issued token; role lists without duplicates; the create-role holder's counter covers every nonce issued
WellFormed(w, h) ==
  \A a \in Accts(w) :
    LET ac == w.acct[a] IN
    /\ ac.bad = <<>>
    /\ \A k \in DOMAIN ac.esdt : EntryWF(k, ac.esdt[k]) /\ KeyOfIssued(k, ac.esdt[k])
    /\ \A t \in DOMAIN ac.roles : (IsDupTok(t) \/ NoDup(ac.roles[t])) /\ ac.roles[t] # <<>>
    /\ \A t \in DOMAIN ac.roles : (RoleCreate \in Range(ac.roles[t]) /\ ~IsDupTok(t)) => CtrOf(ac, t) >= MaxN(h, t)
    /\ \A t \in DOMAIN ac.ctr : ac.ctr[t] > 0
\* the create-role holder's counter covers every nonce ever issued; nobody else keeps a counter
CounterWithRole(w, h) ==
  \A a \in Accts(w) :
    LET ac == w.acct[a] IN
    /\ \A t \in DOMAIN ac.roles : (RoleCreate \in Range(ac.roles[t]) /\ ~IsDupTok(t)) => CtrOf(ac, t) >= MaxN(h, t)
    /\ \A t \in DOMAIN ac.ctr : IsDupTok(t) \/ RoleCreate \in Range(RolesOf(ac, t))
\* the system accounts hold nothing but well-formed pause flags
SysClean(w) == \A s \in DOMAIN w.sysx : w.sysx[s] = <<>>

=============================================================================
