----------------------------- MODULE EsdtTrace -----------------------------
(***************************************************************************)
(* Trace validation for the ledger family.  The log is fully recorded      *)
(* (call, result, complete projected world after every step), so the only  *)
(* behaviour of this specification IS the recorded behaviour; TLC          *)
(* evaluates every property predicate on every recorded state and step     *)
(* and the reference operator Exec/Deliver on every recorded pre-state.    *)
(* Violations are accumulated and printed (one "VIOL" line per step), so   *)
(* the whole log is always examined.                                       *)
(***************************************************************************)
EXTENDS StepProps, Json

CONSTANT Checked     \* names of the predicates this run evaluates

Log == ndJsonDeserialize("trace.ndjson")

VARIABLES l, w, h, nviol, ndrift, cnt
tvars == <<l, w, h, nviol, ndrift, cnt, cfg>>

Counters == {"uname_ok", "uname_rej", "replayed", "sched_ok", "sched_rej", "priced", "gas_max", "faults", "faults_fired", "faults_soft", "out_msgs", "parsed", "shapebad", "replicas", "probe",
             "steps", "ok", "err", "unk", "pred", "tok_ok", "deliver_ok", "deliver_err", "refund_ok", "frozen_rej", "paused_rej", "payable_rej",
             "role_rej", "role_ok", "supply_ok", "overdraft_rej", "create_ok", "handover_ok", "handover_deliver", "kv_ok", "kv_prot_rej",
             "meta_fn_ok", "alias_rej", "gas_rej", "underfunded", "unflagged_ok", "flag_ok", "acct_ok", "acct_rej", "nonpay_exempt"}
Cnt0 == [k \in Counters |-> 0]

\* counterfactual worlds, used only to classify why a step was rejected (vacuity counters)
Unfrozen(wp) == [wp EXCEPT !.acct = [a \in DOMAIN wp.acct |-> [wp.acct[a] EXCEPT !.esdt = [k \in DOMAIN wp.acct[a].esdt |-> [wp.acct[a].esdt[k] EXCEPT !.props = ""]]]]]
Unpaused(wp) == [wp EXCEPT !.paused = [sx \in DOMAIN wp.paused |-> <<>>]]
AllPayable(wp) == [wp EXCEPT !.oracle = [a \in DOMAIN wp.oracle |-> "yes"]]
WithAllRoles(wp, a, t) == [wp EXCEPT !.acct[a].roles = Put(@, t, <<RoleMint, RoleBurn, RoleCreate, RoleAddQ, RoleNBurn, RoleAddURI, RoleUpd>>)]

Ref(wp, ev) ==
  IF ev.a = "exec" THEN Exec(wp, ev)
  ELSE IF ev.a = "deliver" THEN (IF HasMsg(wp, ev.mid) THEN Deliver(wp, ev.mid, ev.dup) ELSE Unk(wp))
  ELSE Unk(wp)

\* the permissive reference: the same call where no flag, payability answer, role or gas figure can refuse it
Permissive(wp, ev) ==
  LET w1 == AllPayable(Unpaused(Unfrozen(wp))) IN
  IF ev.fn \in RoleGated /\ NArgs(ev) >= 1 /\ ev.caller \in Accts(wp) THEN WithAllRoles(w1, ev.caller, Arg(ev,1).h) ELSE w1
RefPerm(wp, ev) == Ref(Permissive(wp, ev), IF ev.a = "exec" /\ ev.gascls = "" THEN [ev EXCEPT !.gas = 900000000] ELSE ev)
RefAmple(wp, ev) == Ref(wp, IF ev.a = "exec" /\ ev.gascls = "" THEN [ev EXCEPT !.gas = 900000000] ELSE ev)
RefOk(wp, ev) == LET r2 == Ref(wp, ev) IN ~r2.unk /\ r2.ok

\* all step predicates by name
StepPred(name, wp, ev, w2, hp, r) ==
  CASE name = "P01_Exact" -> P01_Exact(wp, ev, w2, hp, r, RefPerm(wp, ev))
    [] name = "P01_DeliveryAccepted" -> P01_DeliveryAccepted(wp, ev, w2, hp, r)
    [] name = "P01_RefundRestores" -> P01_RefundRestores(wp, ev, w2, hp, r)
    [] name = "P01_FailKeeps" -> P01_FailKeeps(wp, ev, w2, hp, r)
    [] name = "P02_Delta" -> P02_Delta(wp, ev, w2, hp, r, RefPerm(wp, ev))
    [] name = "P02_Others" -> P02_Others(wp, ev, w2, hp, r)
    [] name = "P02_NoOverdraft" -> P02_NoOverdraft(wp, ev, w2, hp, r)
    [] name = "P03_Authority" -> P03_Authority(wp, ev, w2, hp, r)
    [] name = "P03_Grant" -> P03_Grant(wp, ev, w2, hp, r)
    [] name = "P03_Denied" -> P03_Denied(wp, ev, w2, hp, r)
    [] name = "P04_Immobile" -> P04_Immobile(wp, ev, w2, hp, r)
    [] name = "P04_NoCreditWhilePaused" -> P04_NoCreditWhilePaused(wp, ev, w2, hp, r)
    [] name = "P04_FlagOnly" -> P04_FlagOnly(wp, ev, w2, hp, r)
    [] name = "P04_Restores" -> P04_Restores(wp, ev, w2, hp, r, Ref(Repause(wp, ev.sh, WasFlagged(ev, hp)), ev))
    [] name = "P05_Protected" -> P05_Protected(wp, ev, w2, hp, r)
    [] name = "P05_KVExact" -> P05_KVExact(wp, ev, w2, hp, r, RefPerm(wp, ev))
    [] name = "P05_Frame" -> P05_Frame(wp, ev, w2, hp, r)
    [] name = "P06_NoGasCreated" -> P06_NoGasCreated(wp, ev, w2, hp, r)
    [] name = "P06_Underfunded" -> P06_Underfunded(wp, ev, w2, hp, r)
    [] name = "P07_ReturnedNonce" -> P07_ReturnedNonce(wp, ev, w2, hp, r)
    [] name = "P07_Handover" -> P07_Handover(wp, ev, w2, hp, r)
    [] name = "P07_FaultNonce" -> P07_FaultNonce(wp, ev, w2, hp, r)
    [] name = "P02_FreshNonce" -> P02_FreshNonce(wp, ev, w2, hp, r)
    [] name = "P07_CtrOnlyByCreate" -> P07_CtrOnlyByCreate(wp, ev, w2, hp, r)
    [] name = "P08_Conf" -> P08_Conf(wp, ev, w2, hp, r)
    [] name = "P08_Create" -> P08_Create(wp, ev, w2, hp, r)
    [] name = "P08_OnlyUriAttr" -> P08_OnlyUriAttr(wp, ev, w2, hp, r)
    [] name = "P08_UriAttrExact" -> P08_UriAttrExact(wp, ev, w2, hp, r, RefAmple(wp, ev))
    [] name = "P08_WrongHash" -> P08_WrongHash(wp, ev, w2, hp, r)
    [] name = "P09_Admissible" -> P09_Admissible(wp, ev, w2, hp, r)
    [] name = "P09_Rejected" -> P09_Rejected(wp, ev, w2, hp, r)
    [] name = "P16_Price" -> P16_Price(wp, ev, w2, hp, r)
    [] name = "P16_ProbePrice" -> P16_ProbePrice(wp, ev, w2, hp, r)
    [] name = "P16_Charged" -> P16_Charged(wp, ev, w2, hp, r)
    [] name = "P10_ParserEqualsLedger" -> P10_ParserEqualsLedger(wp, ev, w2, hp, r)
    [] name = "P10_RoundTrip" -> P10_RoundTrip(wp, ev, w2, hp, r)
    [] name = "P10_Accepted" -> P10_Accepted(wp, ev, w2, hp, r)
    [] name = "P11_Shape" -> P11_Shape(wp, ev, w2, hp, r)
    [] name = "P11_ShapeVerdict" -> P11_ShapeVerdict(wp, ev, w2, hp, r)
    [] name = "P11_Alloc" -> P11_Alloc(wp, ev, w2, hp, r)
    [] name = "P13_Replicas" -> P13_Replicas(wp, ev, w2, hp, r)
    [] name = "P13_InputIntact" -> P13_InputIntact(wp, ev, w2, hp, r)
    [] name = "P17_FaultIsError" -> P17_FaultIsError(wp, ev, w2, hp, r)
    [] name = "P17_NoPanic" -> P17_NoPanic(wp, ev, w2, hp, r)
    [] name = "P04_FlagTakesEffect" -> P04_FlagTakesEffect(wp, ev, w2, hp, r)
    [] name = "P03_RoleOpsExact" -> P03_RoleOpsExact(wp, ev, w2, hp, r)
    [] name = "P18_UserNameBound" -> P18_UserNameBound(wp, ev, w2, hp, r)
    [] name = "P00_ReplayAgrees" -> P00_ReplayAgrees(wp, ev, w2, hp, r)
    [] name = "P01_DeliveryNominal" -> P01_DeliveryNominal(wp, ev, w2, hp, r)
    [] OTHER -> TRUE
StepNames == {"P07_FaultNonce", "P02_FreshNonce", "P04_FlagTakesEffect", "P03_RoleOpsExact", "P18_UserNameBound", "P00_ReplayAgrees", "P01_DeliveryNominal", "P16_ProbePrice", "P16_Charged", "P10_ParserEqualsLedger", "P10_RoundTrip", "P10_Accepted", "P11_Shape", "P11_ShapeVerdict", "P11_Alloc", "P13_Replicas", "P13_InputIntact", "P17_FaultIsError", "P17_NoPanic", "P01_Exact", "P01_DeliveryAccepted", "P01_RefundRestores", "P01_FailKeeps", "P02_Delta", "P02_Others", "P02_NoOverdraft", "P03_Authority", "P03_Grant", "P03_Denied", "P04_Immobile", "P04_NoCreditWhilePaused", "P04_FlagOnly", "P04_Restores", "P05_Protected", "P05_KVExact", "P05_Frame", "P06_NoGasCreated", "P06_Underfunded", "P07_ReturnedNonce", "P07_Handover", "P07_CtrOnlyByCreate", "P08_Conf", "P08_Create", "P08_OnlyUriAttr", "P08_UriAttrExact", "P08_WrongHash", "P09_Admissible", "P09_Rejected", "P16_Price"}

\* state predicates (on the recorded post-state and the history after the step)
StatePred(name, w2, h2) ==
  CASE name = "Conservation" -> Conservation(w2, h2) [] name = "TransferConservation" -> TransferConservation(w2, h2) [] name = "NoNegative" -> NoNegative(w2) [] name = "WellFormed" -> WellFormed(w2, h2)
    [] name = "SysClean" -> SysClean(w2) [] name = "CounterWithRole" -> CounterWithRole(w2, h2) [] OTHER -> TRUE
StateNames == {"TransferConservation", "Conservation", "NoNegative", "WellFormed", "SysClean", "CounterWithRole"}


\* vacuity counters: which situations the run exercised
Triggers(wp, ev, w2, r, hp) ==
  IF ev.a = "sched" THEN (IF ev.schok THEN {"sched_ok"} ELSE {"sched_rej"})
  ELSE IF ev.a = "fault" THEN {"faults"} \cup (IF ev.x.fired THEN (IF ev.res = "err" THEN {"faults_fired"} ELSE {"faults_soft"}) ELSE {})
  ELSE IF ~Call(ev) THEN {} ELSE
  (IF ev.a = "exec" /\ IsOk(ev) /\ ev.snd /\ Pred(r) /\ r.ok THEN {"priced"} ELSE {}) \cup (IF "mcres" \in DOMAIN ev.x THEN {"replayed"} ELSE {})
  \cup (IF ev.gascls # "" THEN {"gas_max"} ELSE {}) \cup (IF Call(ev) /\ Underfunded(ev) THEN {"underfunded"} ELSE {}) \cup (IF ev.out # <<>> THEN {"out_msgs"} ELSE {}) \cup (IF ev.par.ok THEN {"parsed"} ELSE {})
  \cup (IF ShapeBad(ev) THEN {"shapebad"} ELSE {}) \cup (IF "d1" \in DOMAIN ev.x THEN {"replicas"} ELSE {}) \cup (IF "used" \in DOMAIN ev.x THEN {"probe"} ELSE {}) \cup
  {"steps"} \cup (IF IsOk(ev) THEN {"ok"} ELSE {"err"}) \cup (IF r.unk THEN {"unk"} ELSE {"pred"})
  \cup (IF ev.fn \in TokenFns /\ IsOk(ev) /\ ev.a = "exec" THEN {"tok_ok"} ELSE {})
  \cup (IF ev.a = "deliver" /\ ev.fn \in TokenFns /\ ~ev.rae THEN (IF IsOk(ev) THEN {"deliver_ok"} ELSE {"deliver_err"}) ELSE {})
  \cup (IF ev.a = "deliver" /\ ev.rae /\ IsOk(ev) THEN {"refund_ok"} ELSE {})
  \cup (IF ~IsOk(ev) /\ Pred(r) /\ ~r.ok THEN
          (IF RefOk(Unfrozen(wp), ev) THEN {"frozen_rej"} ELSE {}) \cup (IF RefOk(Unpaused(wp), ev) THEN {"paused_rej"} ELSE {})
          \cup (IF RefOk(AllPayable(wp), ev) THEN {"payable_rej"} ELSE {})
          \cup (IF ev.a = "exec" /\ RefOk(wp, [ev EXCEPT !.gas = 900000000]) THEN {"gas_rej"} ELSE {})
          \cup (IF ev.fn \in RoleGated /\ NArgs(ev) >= 1 /\ ev.caller \in Accts(wp) /\ RefOk(WithAllRoles(wp, ev.caller, Arg(ev,1).h), ev) THEN {"role_rej"} ELSE {})
        ELSE {})
  \cup (IF ev.fn \in RoleGated /\ IsOk(ev) THEN {"role_ok"} ELSE {})
  \cup (IF IsOk(ev) /\ ~ev.rae /\ ev.caller # ESDTSC /\ ev.fn \in (SupplyFns \cup TokenFns) /\ WasFlagged(ev, hp) # {} /\ (\A t \in WasFlagged(ev, hp) : ~FlagNow(wp, ev.sh, t))
        THEN {"unflagged_ok"} ELSE {})
  \cup (IF ev.fn \in SupplyFns /\ IsOk(ev) THEN {"supply_ok"} ELSE {})
  \cup (IF ~IsOk(ev) /\ ev.fn \in {"ESDTTransfer", "ESDTLocalBurn", "ESDTBurn"} /\ NArgs(ev) >= 2 /\ ev.snd /\ ev.caller \in Accts(wp)
           /\ Arg(ev,2).q > ValAt(wp, ev.caller, Arg(ev,1).h) THEN {"overdraft_rej"} ELSE {})
  \cup (IF ev.fn = "ESDTNFTCreate" /\ IsOk(ev) THEN {"create_ok"} ELSE {})
  \cup (IF ev.fn = "ESDTNFTCreateRoleTransfer" /\ IsOk(ev) THEN (IF ev.a = "deliver" THEN {"handover_deliver"} ELSE {"handover_ok"}) ELSE {})
  \cup (IF ev.fn = "SaveKeyValue" THEN (IF IsOk(ev) THEN {"kv_ok"} ELSE IF \E i \in 1..NArgs(ev) : i % 2 = 1 /\ Protected(Arg(ev, i).h) THEN {"kv_prot_rej"} ELSE {}) ELSE {})
  \cup (IF ev.fn \in {"ESDTNFTAddURI", "ESDTNFTUpdateAttributes"} /\ IsOk(ev) THEN {"meta_fn_ok"} ELSE {})
  \cup (IF ~IsOk(ev) /\ ev.fn = "ESDTNFTTransfer" /\ ev.caller = ev.rcpt /\ NArgs(ev) >= 4 /\ ev.caller \in Accts(wp) /\ Arg(ev,2).n > 0
           /\ (Arg(ev,1).h \o NBHex(Arg(ev,2).n)) \in DOMAIN wp.acct[ev.caller].esdt
           /\ EntryNonce(wp.acct[ev.caller].esdt[Arg(ev,1).h \o NBHex(Arg(ev,2).n)]) # Arg(ev,2).n THEN {"alias_rej"} ELSE {})
  \cup (IF ev.fn \in FlagFns /\ IsOk(ev) THEN {"flag_ok"} ELSE {})
  \cup (IF ev.fn \in AcctFns THEN (IF IsOk(ev) THEN {"acct_ok"} ELSE {"acct_rej"}) ELSE {})
  \cup (IF ev.fn = "SetUserName" /\ ev.dst THEN (IF IsOk(ev) THEN {"uname_ok"} ELSE {"uname_rej"}) ELSE {})
  \cup (IF ev.fn \in TokenFns /\ IsOk(ev) /\ (\E a \in Accts(w2) : Gained(wp, w2, a) /\ a # ev.caller /\ ~PayableOK(wp, a)) THEN {"nonpay_exempt"} ELSE {})

Init ==
  /\ l = 2
  /\ cfg = Log[1].cfg
  /\ w = Log[1].w
  /\ h = Hist0(Log[1].w)
  /\ nviol = 0 /\ ndrift = 0 /\ cnt = Cnt0

Step ==
  /\ l <= Len(Log)
  /\ LET ln == Log[l]
         ev == ln.ev IN
     IF ev.a = "init" THEN
        /\ cfg' = ln.cfg /\ w' = ln.w /\ h' = Hist0(ln.w)
        /\ LET bad == {k \in StateNames \cap Checked : ~StatePred(k, ln.w, Hist0(ln.w))} IN
           /\ (bad # {} => PrintT(<<"VIOL", l, bad>>))
           /\ nviol' = nviol + Cardinality(bad)
        /\ UNCHANGED <<ndrift, cnt>>
     ELSE
        LET w2 == ln.w
            r == Ref(w, ev)
            h2 == HistT(HistStep(h, w, ev), ev, w2)
            bad == {k \in StepNames \cap Checked : ~StepPred(k, w, ev, w2, h, r)} \cup {k \in StateNames \cap Checked : ~StatePred(k, w2, h2)}
            conf == Conforms(w, ev, w2, h, r)
            trig == Triggers(w, ev, w2, r, h) IN
        /\ (bad # {} => PrintT(<<"VIOL", l, bad>>))
        /\ (~conf => PrintT(<<"DRIFT", l, ev.fn, ev.res, r.ok, DiffParts(w, ev, w2, r)>>))
        /\ w' = w2 /\ cfg' = cfg
        /\ h' = [h2 EXCEPT !.supply = IF Conservation(w2, h2) THEN @ ELSE Totals(w2),             \* re-base so that each break is reported once
                           !.tsupply = IF TransferConservation(w2, h2) THEN @ ELSE Totals(w2)]
        /\ nviol' = nviol + Cardinality(bad)
        /\ ndrift' = ndrift + (IF conf THEN 0 ELSE 1)
        /\ cnt' = [k \in Counters |-> cnt[k] + (IF k \in trig THEN 1 ELSE 0)]
  /\ l' = l + 1

Done == l = Len(Log) + 1 /\ UNCHANGED tvars /\ PrintT(<<"DONE", l - 1, nviol, ndrift, cnt>>)

Next == Step
Spec == Init /\ [][Next]_tvars

\* the run examined the whole log
Finished == (l = Len(Log) + 1) => PrintT(<<"DONE", l - 1, nviol, ndrift, cnt>>)
=============================================================================
