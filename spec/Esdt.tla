------------------------------- MODULE Esdt -------------------------------
(***************************************************************************)
(* Reference ledger model of the elrond-vm-common built-in functions.      *)
(*                                                                         *)
(* The heart is the deterministic operator Fn(w, c): one LET/IF chain per  *)
(* ProcessBuiltinFunction, guards in the order of the Go code, over        *)
(* unbounded integers, with the behaviour the properties demand.  Exec     *)
(* and Deliver wrap it with the protocol model (rollback on error, message *)
(* queueing, cross-shard delivery, return-after-error refunds).            *)
(*                                                                         *)
(* Bytes are lower-case hex strings (TLC supports Len, \o and SubSeq on    *)
(* strings), so "token 41 with nonce 1" and "token 4101 with nonce 0"      *)
(* really have the same storage key, exactly as in Go.  Storage keys are   *)
(* the suffix after the protocol prefix: ELRONDesdt‖suffix is esdt[suffix],*)
(* ELRONDroleesdt‖tok is roles[tok], ELRONDnonce‖tok is ctr[tok].          *)
(***************************************************************************)
EXTENDS Integers, Sequences, FiniteSets, TLC

VARIABLE cfg   \* static configuration of the current world (address table, switches)

Bad     == -16777216     \* an amount that is not an exact in-range multiple of the scale (-2^24: sums of it cannot overflow TLC's integers)
\* sums that may contain Bad: the result is Bad again ("unknown"), so repeated additions can never run out of TLC's 32-bit integers
PAdd(a, b) == IF a <= -8388608 \/ b <= -8388608 THEN -16777216 ELSE a + b
PNeg(a) == IF a <= -8388608 THEN -16777216 ELSE 0 - a
HugeN   == -1            \* a number >= 2^30 that fits 64 bits
WideN   == -2            \* a number wider than 8 bytes
HugeGas == 1073741824

\* switches that re-introduce the pinned tree's defects (self-test / non-vacuity only)
BugOn(b) == "bugs" \in DOMAIN cfg /\ b \in cfg.bugs

---------------------------------------------------------------------------
\* bytes as hex strings

HexDigits == <<"0","1","2","3","4","5","6","7","8","9","a","b","c","d","e","f">>
ByteHex(b) == HexDigits[(b \div 16) + 1] \o HexDigits[(b % 16) + 1]
RECURSIVE NBHex(_)
NBHex(n) == IF n <= 0 THEN "" ELSE NBHex(n \div 256) \o ByteHex(n % 256)
BLen(h) == Len(h) \div 2
OddHex == {"1","3","5","7","9","b","d","f"}
\* two-byte flag field with bit 0 of byte 0 set (ESDTUserMetadata.Frozen / ESDTGlobalMetadata.Paused)
FlagSet(p) == Len(p) = 4 /\ SubSeq(p, 2, 2) \in OddHex
AllZero(p) == \A i \in 1..Len(p) : SubSeq(p, i, i) = "0"
ProtHex == "454c524f4e44"
EsdtPfxHex == "454c524f4e4465736474"
Protected(k) == Len(k) >= 12 /\ SubSeq(k, 1, 12) = ProtHex

RoleMint   == "45534454526f6c654c6f63616c4d696e74"
RoleBurn   == "45534454526f6c654c6f63616c4275726e"
RoleCreate == "45534454526f6c654e4654437265617465"
RoleAddQ   == "45534454526f6c654e46544164645175616e74697479"
RoleNBurn  == "45534454526f6c654e46544275726e"
RoleAddURI == "45534454526f6c654e4654416464555249"
RoleUpd    == "45534454526f6c654e465455706461746541747472696275746573"
AllRoles   == {RoleMint, RoleBurn, RoleCreate, RoleAddQ, RoleNBurn, RoleAddURI, RoleUpd}
RetMsgHex  == "76657269663a2064656c6976657279206661696c6564"

TokenFns == {"ESDTTransfer", "ESDTNFTTransfer", "MultiESDTNFTTransfer"}
BuiltIns == {"ClaimDeveloperRewards", "ChangeOwnerAddress", "SetUserName", "SaveKeyValue", "ESDTTransfer", "ESDTBurn",
             "ESDTFreeze", "ESDTUnFreeze", "ESDTWipe", "ESDTPause", "ESDTUnPause", "ESDTSetRole", "ESDTUnSetRole",
             "ESDTLocalBurn", "ESDTLocalMint", "ESDTNFTAddQuantity", "ESDTNFTBurn", "ESDTNFTCreate", "ESDTNFTTransfer",
             "ESDTNFTCreateRoleTransfer", "ESDTNFTUpdateAttributes", "ESDTNFTAddURI", "MultiESDTNFTTransfer"}

---------------------------------------------------------------------------
\* generic helpers

Range(s) == {s[i] : i \in DOMAIN s}
Put(f, k, v) == [x \in (DOMAIN f) \cup {k} |-> IF x = k THEN v ELSE f[x]]
Del(f, k) == [x \in (DOMAIN f) \ {k} |-> f[x]]
Max(a, b) == IF a > b THEN a ELSE b
RECURSIVE SumSeq(_)
SumSeq(s) == IF s = <<>> THEN 0 ELSE Head(s) + SumSeq(Tail(s))
Drop(s, n) == IF Len(s) <= n THEN <<>> ELSE SubSeq(s, n + 1, Len(s))
RECURSIVE DelFirst(_, _)
DelFirst(s, x) == IF s = <<>> THEN <<>> ELSE IF Head(s) = x THEN Tail(s) ELSE <<Head(s)>> \o DelFirst(Tail(s), x)
RECURSIVE DelEach(_, _)
DelEach(s, xs) == IF xs = <<>> THEN s ELSE DelEach(DelFirst(s, Head(xs)), Tail(xs))

---------------------------------------------------------------------------
\* addresses (named; the table is part of cfg)

ESDTSC == "esdtsc"
Known(a) == a \in DOMAIN cfg.addrs
ShardOfA(a) == cfg.addrs[a].shard      \* -1: metachain
IsSC(a) == cfg.addrs[a].sc
IsMetaA(a) == cfg.addrs[a].meta
ALen(a) == cfg.addrs[a].len
IsSys(a) == cfg.addrs[a].kind = "sys"
ShStr(s) == ToString(s)

---------------------------------------------------------------------------
\* entries, arguments, messages

NoMeta == [nonce |-> 0, name |-> "", creator |-> "", roy |-> 0, hash |-> "", attrs |-> "", uris |-> <<>>]
EmptyEntry == [type |-> 0, val |-> 0, props |-> "", hm |-> FALSE, meta |-> NoMeta, res |-> ""]

HasE(a) == a.he
Ad(a) == a.ad
RawArg(h) == [h |-> h, n |-> 0, q |-> 0, he |-> FALSE, ad |-> ""]
TokArg(h) == RawArg(h)
QofN(n) == IF cfg.s1 THEN n ELSE IF n = 0 THEN 0 ELSE Bad
NumArg(n) == [h |-> NBHex(n), n |-> n, q |-> QofN(n), he |-> FALSE, ad |-> ""]
\* whether the scaled amount q stands for more than one unit
MoreThanOne(q) == IF cfg.s1 THEN q > 1 ELSE q >= 1
AmtArg(q) == IF cfg.s1 THEN NumArg(q) ELSE [h |-> "?", n |-> HugeN, q |-> q, he |-> FALSE, ad |-> ""]
PayArg(e) == [h |-> "", n |-> 0, q |-> 0, he |-> TRUE, e |-> e, ad |-> ""]
AddrArg(a) == [h |-> cfg.addrs[a].hex, n |-> WideN, q |-> Bad, he |-> FALSE, ad |-> a]

Msg(fn, from, to, args, val, gas, ct) ==
  [id |-> 0, fn |-> fn, from |-> from, to |-> to, args |-> args, val |-> val, gas |-> gas, gl |-> 0, ct |-> ct,
   rae |-> FALSE, dead |-> FALSE, tx |-> FALSE, perr |-> FALSE]
\* the name of an attached contract function as the harness reports it
CallFnName(a) == "0x" \o a.h

\* semantic normal form of message arguments: only what the layout of fn gives a meaning to
KindAt(fn, args, i) ==
  CASE fn = "ESDTTransfer" \/ fn = "ESDTBurn" -> IF i = 1 THEN "tok" ELSE IF i = 2 THEN "amt" ELSE "raw"
    [] fn = "ESDTNFTTransfer" -> IF i = 1 THEN "tok" ELSE IF i = 2 THEN "num" ELSE IF i = 3 THEN "amt" ELSE IF i = 4 THEN "pay" ELSE "raw"
    [] fn = "ESDTNFTCreateRoleTransfer" -> IF i = 1 THEN "tok" ELSE IF i = 2 THEN "num" ELSE "raw"
    [] fn = "MultiESDTNFTTransfer" ->
         IF i = 1 THEN "num"
         ELSE LET k == args[1].n IN
              IF k < 0 \/ i > 3 * k + 1 THEN "raw"
              ELSE LET r == (i - 2) % 3 IN
                   IF r = 0 THEN "tok" ELSE IF r = 1 THEN "num"
                   ELSE IF args[i - 1].n # 0 THEN "pay" ELSE "amt"
    [] OTHER -> "raw"
SemArg(kind, a) ==
  CASE kind = "num" -> [k |-> "num", n |-> a.n]
    [] kind = "amt" -> [k |-> "amt", q |-> a.q]
    [] kind = "pay" -> IF HasE(a) THEN [k |-> "pay", e |-> a.e] ELSE [k |-> "raw", h |-> a.h]
    [] OTHER -> [k |-> "raw", h |-> a.h]
ClampGas(g) == IF g >= 500000000 THEN HugeGas ELSE g
SemMsg(m) == [m EXCEPT !.gas = ClampGas(@), !.gl = ClampGas(@), !.args = [i \in 1..Len(m.args) |-> SemArg(KindAt(m.fn, m.args, i), m.args[i])]]
SemMsgs(ms) == [i \in 1..Len(ms) |-> SemMsg(ms[i])]
SemWorld(w) == [w EXCEPT !.msgs = SemMsgs(w.msgs)]

---------------------------------------------------------------------------
\* results

R(ok, w, gr, out, ret) == [ok |-> ok, unk |-> FALSE, w |-> w, gr |-> gr, out |-> out, ret |-> ret]
Err(w) == R(FALSE, w, 0, <<>>, <<>>)
Unk(w) == [ok |-> FALSE, unk |-> TRUE, w |-> w, gr |-> 0, out |-> <<>>, ret |-> <<>>]
Ok(w, gr) == R(TRUE, w, gr, <<>>, <<>>)
OkOut(w, gr, out) == R(TRUE, w, gr, out, <<>>)
\* small results of the storage helpers
F(w) == [ok |-> FALSE, w |-> w]
T(w) == [ok |-> TRUE, w |-> w]

---------------------------------------------------------------------------
\* storage helpers (mirror addToESDTBalance, saveESDTNFTToken, checkFrozeAndPause, ...)

Cost(w, name) == w.sched["B." \o name]
Base(w, name) == w.sched["O." \o name]
GR(snd, gas, cost) == IF gas < cost \/ ~snd THEN 0 ELSE gas - cost

GetE(ac, k) == IF k \in DOMAIN ac.esdt THEN ac.esdt[k] ELSE EmptyEntry
Undecodable(ac, k) == (EsdtPfxHex \o k) \in DOMAIN ac.bad
SetE(w, a, k, e) == [w EXCEPT !.acct[a].esdt = Put(@, k, e)]
DelE(w, a, k) == [w EXCEPT !.acct[a].esdt = Del(@, k)]

IsPausedKey(w, s, k) == LET p == w.paused[ShStr(s)] IN k \in DOMAIN p /\ FlagSet(p[k])
Blocked(w, s, a, k, e, rae) == ~rae /\ a # ESDTSC /\ (FlagSet(e.props) \/ IsPausedKey(w, s, k))

AddBal(w, s, a, k, d, rae) ==
  LET ac == w.acct[a] IN
  IF Undecodable(ac, k) THEN F(w) ELSE
  LET e == GetE(ac, k) IN
  IF e.type # 0 THEN F(w)
  ELSE IF Blocked(w, s, a, k, e, rae) THEN F(w)
  ELSE LET v == e.val + d IN
       IF v < 0 THEN F(w)
       ELSE IF v = 0 /\ AllZero(e.props) THEN T(DelE(w, a, k))
       ELSE T(SetE(w, a, k, [e EXCEPT !.val = v]))

EntryNonce(e) == IF e.hm THEN e.meta.nonce ELSE 0

SaveNFT(w, s, a, tok, e, rae) ==
  IF Blocked(w, s, a, tok, e, rae) THEN F(w)
  ELSE LET k == tok \o NBHex(EntryNonce(e)) IN
       IF Blocked(w, s, a, k, e, rae) THEN F(w)
       \* D11: a zero-balance fungible entry that still carries a flag stays (like saveESDTData); everything else at zero is removed
       ELSE IF e.val <= 0 /\ (e.hm \/ AllZero(e.props) \/ BugOn("D11")) THEN T(DelE(w, a, k))
       ELSE T(SetE(w, a, k, e))

PayableOK(w, a) == ~(a \in DOMAIN w.oracle) \/ w.oracle[a] = "yes"
MustVerify(c, min) == ~(c.ct \in {2, 3}) /\ c.caller # ESDTSC /\ Len(c.args) <= min

\* both copies of addNFTToDestination (with the D1 repair: the existing holding is always added)
AddNFTToDest(w, s, a, tok, x, verify, rae, multi) ==
  IF verify /\ ~PayableOK(w, a) THEN F(w)
  ELSE LET k == tok \o NBHex(EntryNonce(x))
           ac == w.acct[a] IN
       IF Undecodable(ac, k) THEN F(w)
       ELSE LET cur == GetE(ac, k) IN
            IF Blocked(w, s, a, tok, cur, rae) THEN F(w)
            ELSE IF cur.hm /\ (~x.hm \/ cur.meta.hash # x.meta.hash) THEN F(w)
            ELSE LET add == IF multi /\ BugOn("D1") /\ ~cur.hm THEN 0 ELSE cur.val
                     \* D10 / D12: the freeze flag belongs to the account's own entry: a credit (fungible through the multi-transfer: D10;
                     \* an NFT / SFT through either function: D12) keeps the destination's properties, the payload's do not travel
                     pr == IF (multi /\ ~x.hm /\ ~BugOn("D10")) \/ (~(multi /\ ~x.hm) /\ ~BugOn("D12")) THEN cur.props ELSE x.props IN
                 SaveNFT(w, s, a, tok, [x EXCEPT !.val = x.val + add, !.props = pr], rae)

RolesOf(ac, tok) == IF tok \in DOMAIN ac.roles THEN ac.roles[tok] ELSE <<>>
RolesUndecodable(ac, tok) == ("454c524f4e44726f6c6565736474" \o tok) \in DOMAIN ac.bad
Allowed(w, a, tok, role) == ~RolesUndecodable(w.acct[a], tok) /\ role \in Range(RolesOf(w.acct[a], tok))
SetRoles(w, a, tok, rl) == IF rl = <<>> THEN [w EXCEPT !.acct[a].roles = Del(@, tok)] ELSE [w EXCEPT !.acct[a].roles = Put(@, tok, rl)]
CtrOf(ac, tok) == IF tok \in DOMAIN ac.ctr THEN ac.ctr[tok] ELSE 0
SetCtr(w, a, tok, n) == IF n = 0 THEN [w EXCEPT !.acct[a].ctr = Del(@, tok)] ELSE [w EXCEPT !.acct[a].ctr = Put(@, tok, n)]

Basic(c) == c.cv # 0 \/ Len(c.args) < 2
NameOfArg(a) == IF a.ad # "" THEN a.ad ELSE "0x" \o a.h
OutCall(c, fnArg, args, to, gas) == Msg(CallFnName(fnArg), c.caller, to, args, 0, gas, c.ct)

=============================================================================
