----------------------------- MODULE HelpersMC -----------------------------
(***************************************************************************)
(* (M) for C20: TLC enumerates the finite domains of the property's        *)
(* quantifier and checks every law of Helpers.tla on the transcription;    *)
(* and GENERATION: the same domains are written as case tables             *)
(* (cases.ndjson, one JSON object per line) that the Go harness replays    *)
(* against the real functions.                                             *)
(*                                                                         *)
(* The domain is cut into chunks; every chunk is one TLC state (root ->    *)
(* group -> chunk, so that the workers share the chunks) and the laws are  *)
(* invariants of the chunk states.                                         *)
(***************************************************************************)
EXTENDS Helpers, SequencesExt, FiniteSetsExt, Json, TLC

CONSTANTS MergeSize,     \* "small" (64 accounts) | "full" (192 accounts)
          Generate,      \* TRUE: write cases.ndjson
          Alias          \* FALSE; TRUE re-introduces the aliasing optimisation into the heap model (must violate InvHeap)

Groups == 16

(***************************************************************************)
(* byte forms                                                              *)
(***************************************************************************)
SmallBytes == {0, 1, 2, 4, 5, 255}
OtherLengths ==
  {<<>>} \cup {<<x>> : x \in Byte} \cup [1..3 -> SmallBytes] \cup [1..4 -> SmallBytes]
CMValues == [payable : BOOLEAN, upgradeable : BOOLEAN, readable : BOOLEAN]

ByteFormLaws(b) ==
  LET cd == CodeMetadataFromBytes(b)      ce == CodeMetadataToBytes(cd)
      gd == ESDTGlobalMetadataFromBytes(b) ge == ESDTGlobalMetadataToBytes(gd)
      ud == ESDTUserMetadataFromBytes(b)   ue == ESDTUserMetadataToBytes(ud)
  IN /\ LawEncodeDecode(b, ce, CodeMask) /\ LawEncodeDecode(b, ge, GlobalMask) /\ LawEncodeDecode(b, ue, UserMask)
     /\ LawWrongLength(b, cd, ce, CMEmpty) /\ LawWrongLength(b, gd, ge, GlobalEmpty) /\ LawWrongLength(b, ud, ue, UserEmpty)
     /\ LawDecodeEncode(cd, ce, CodeMetadataFromBytes(ce))
     /\ LawDecodeEncode(gd, ge, ESDTGlobalMetadataFromBytes(ge))
     /\ LawDecodeEncode(ud, ue, ESDTUserMetadataFromBytes(ue))
ValueLaws ==
  /\ \A m \in CMValues : LET e == CodeMetadataToBytes(m) IN LawDecodeEncode(m, e, CodeMetadataFromBytes(e))
  /\ \A p \in BOOLEAN : LET e == ESDTGlobalMetadataToBytes([paused |-> p]) IN LawDecodeEncode([paused |-> p], e, ESDTGlobalMetadataFromBytes(e))
  /\ \A f \in BOOLEAN : LET e == ESDTUserMetadataToBytes([frozen |-> f]) IN LawDecodeEncode([frozen |-> f], e, ESDTUserMetadataFromBytes(e))
  \* every documented flag is carried by exactly the masked bits, and every masked bit carries a flag (the masks are tight)
  /\ {CodeMetadataToBytes(m) : m \in CMValues} = {<<x, y>> : x \in {0, 1, 4, 5}, y \in {0, 2}}

(***************************************************************************)
(* structured addresses of length 0..40                                    *)
(***************************************************************************)
Idents == << <<>>, <<255>>, <<255, 255>>, <<255, 0>>, <<0>>, <<254>>, <<255, 255, 255, 255>> >>
Patterns == {"z", "f", "a", "m", "n", "e"}
Lasts == {-1, 0, 1, 255}                       \* -1: keep the pattern's byte
PatByte(pat, i) ==
  CASE pat = "z" -> 0
    [] pat = "f" -> 255
    [] pat = "a" -> 170
    [] pat = "m" -> (IF i = 9 THEN 5 ELSE IF i \in 10..25 THEN 0 ELSE 85)       \* metachain-contract shape behind the zero prefix
    [] pat = "n" -> (IF i = 9 THEN 5 ELSE IF i = 20 THEN 1 ELSE IF i \in 10..25 THEN 0 ELSE 85)
    [] pat = "e" -> ESDTSCAddress[((i - 1) % 32) + 1]
Addr(L, z, pat, last) ==
  [i \in 1..L |-> IF i <= z THEN 0 ELSE IF i = L /\ last # -1 THEN last ELSE PatByte(pat, i)]
AddrsOfLength(L) == {Addr(L, z, pat, last) : z \in 0..(IF L < 12 THEN L ELSE 12), pat \in Patterns, last \in Lasts}

IdentShaped == UNION {[1..n -> {0, 254, 255}] : n \in 0..4}
KeyShaped ==
  {SubSeq(ElrondProtectedKeyPrefix, 1, p) \o Rep(f, n) : p \in 0..6, f \in {69, 120, 0}, n \in 0..3}
  \cup {<<101, 108, 114, 111, 110, 100>> \o Rep(120, n) : n \in 0..2}
NearNamed(base) ==
  {base} \cup {[base EXCEPT ![i] = (base[i] + 1) % 256] : i \in 1..32}
         \cup {SubSeq(base, 1, n) : n \in 28..31} \cup {base \o Rep(x, n) : x \in {0, 255}, n \in 1..2}
ExtraStrings == IdentShaped \cup KeyShaped \cup NearNamed(SystemAccountAddress) \cup NearNamed(ESDTSCAddress)

AddrLaws(a) ==
  LET c == Classify(a, Idents) IN
  LawConsistent(a, Idents, c) /\ LawNamedAddresses(a, Idents, c) /\ LawDocumented(a, Idents, c)
AddrChunk(ix) == IF ix <= 40 THEN AddrsOfLength(ix) ELSE ExtraStrings

(***************************************************************************)
(* output accounts                                                         *)
(***************************************************************************)
Opt(n, v) == [nil |-> n, q |-> v]
Upd(k, off, data) == [k |-> k, off |-> off, data |-> data]
K1 == <<107, 49>>
K2 == <<107, 50>>
Tr(v, gl, data, ct, snd) == [v |-> v, gl |-> U64(gl), glk |-> U64(gl \div 2), data |-> data, ct |-> ct, snd |-> snd]
T1 == Tr(Opt(FALSE, 1), 100, <<65, 64, 49>>, 0, <<1, 1>>)
T2 == Tr(Opt(FALSE, 0), 7, <<>>, 1, <<2>>)
T3 == Tr(Opt(TRUE, 0), 100, <<65, 64, 50>>, 2, <<1, 1>>)

Deltas == << Opt(TRUE, 0), Opt(FALSE, -2), Opt(FALSE, 0), Opt(FALSE, 3) >>
Sus == << [nil |-> TRUE, e |-> <<>>], [nil |-> FALSE, e |-> <<>>],
          [nil |-> FALSE, e |-> <<Upd(K1, K1, <<1>>)>>],
          [nil |-> FALSE, e |-> <<Upd(K1, K1, <<2, 2>>), Upd(K2, <<>>, <<>>)>>] >>
Trs == << <<>>, <<T1>>, <<T1, T2>>, <<T3>> >>                   \* <<T1>> is a prefix of <<T1, T2>>; <<T3>> is not
Nonces == << U64(0), U64(5), <<0, 1, 0, 0>> >>
AddrsM == << <<>>, <<10, 11>>, <<12>> >>
Bals == << Opt(TRUE, 0), Opt(FALSE, 7) >>
Codes == << <<>>, <<1, 2, 3>> >>
Deps == << [nil |-> TRUE, b |-> <<>>], [nil |-> FALSE, b |-> <<>>], [nil |-> FALSE, b |-> <<9>>] >>
Pick(s, i) == s[(i % Len(s)) + 1]

MergeN == IF MergeSize = "full" THEN 192 ELSE 64
\* account number i (0-based): the four law-relevant fields run through their whole product, the others vary along
AcctNo(i) ==
  [addr  |-> Pick(AddrsM, i + i \div 7),
   nonce |-> IF MergeSize = "full" THEN Pick(Nonces, i \div 64) ELSE Pick(Nonces, i + i \div 5),
   bal   |-> Pick(Bals, i \div 3),
   delta |-> Pick(Deltas, i),
   su    |-> Pick(Sus, i \div 4),
   code  |-> Pick(Codes, i \div 5),
   cm    |-> Pick(Codes, i \div 11),
   dep   |-> Pick(Deps, i \div 2),
   tr    |-> Pick(Trs, i \div 16),
   gas   |-> U64(i % 9)]
Third(i, j) == (7 * i + 3 * j + 1) % MergeN
Dom == [i \in 0..(MergeN - 1) |-> AcctNo(i)]          \* evaluated once

MergePairLaws(o, a, c) ==
  LET r1 == MergeOutputAccounts(o, a)
      r2 == MergeOutputAccounts(r1, c)
  IN /\ LawsMerge(o, a, r1) /\ LawsMerge(r1, c, r2)
     \* consequences worth knowing: the sum is order-insensitive, merging the same account again adds no transfer,
     \* a receiver whose transfers are a prefix of the other's ends with exactly the other's list
     /\ OptVal(r2.delta) = OptVal(o.delta) + OptVal(a.delta) + OptVal(c.delta)
     /\ MergeOutputAccounts(r1, a).tr = r1.tr
     /\ (PrefixOf(o.tr, a.tr) => r1.tr = a.tr)
     /\ LimbGeq(r2.nonce, r1.nonce) /\ LimbGeq(r1.nonce, o.nonce)
     /\ MergeStorageUpdates(o.su, a.su) = r1.su
MergeChunk(i) == \A j \in 0..(MergeN - 1) : MergePairLaws(Dom[i], Dom[j], Dom[Third(i, j)])

\* heap model: three independently constructed accounts (disjoint cells), two merges into the first
HAccts == [delta : {0, 1}, bal : {0, 1}]       \* 1 = "has an object"
HeapLaw ==
  \A xo, xa, xc \in HAccts : \A vo, va, vc \in {-2, 0, 3} :
    LET h0 == <<vo, 10, va, 20, vc, 30>>            \* cells: o.delta o.bal a.delta a.bal c.delta c.bal
        o == [delta |-> 1 * xo.delta, bal |-> 2 * xo.bal]
        a == [delta |-> 3 * xa.delta, bal |-> 4 * xa.bal]
        c == [delta |-> 5 * xc.delta, bal |-> 6 * xc.bal]
        m1 == HMerge(h0, o, a, Alias)
        m2 == HMerge(m1.h, m1.o, c, Alias)
    IN /\ HUnchanged(h0, m1.h, a) /\ HUnchanged(h0, m2.h, a) /\ HUnchanged(h0, m2.h, c)
       /\ HDeltaVal(m2.h, m2.o) = HDeltaVal(h0, o) + HDeltaVal(h0, a) + HDeltaVal(h0, c)

(***************************************************************************)
(* checked subtraction: the limb arithmetic against integer arithmetic on  *)
(* a small base (3 limbs, base 4), then the law on 64-bit boundary values  *)
(***************************************************************************)
SmallLimbs == [1..3 -> 0..3]
SubLawSmall ==
  \A a, b \in SmallLimbs :
    LET r == SafeSubUint64B(a, b, 4) IN
    /\ LimbLess(a, b) = (LimbVal(a, 4) < LimbVal(b, 4))
    /\ r.err = (LimbVal(a, 4) < LimbVal(b, 4))
    /\ (~r.err => (LimbVal(r.v, 4) = LimbVal(a, 4) - LimbVal(b, 4) /\ \A i \in 1..3 : r.v[i] \in 0..3))
    /\ LawSafeSub(a, b, r, 4)
U64Bounds == {U64Zero, <<0, 0, 0, 1>>, <<0, 0, 0, 2>>, <<0, 0, 0, 65535>>, <<0, 0, 1, 0>>, <<0, 0, 65535, 65535>>, <<0, 1, 0, 0>>,
              <<32767, 65535, 65535, 65535>>, <<32768, 0, 0, 0>>, <<65535, 65535, 65535, 65534>>, <<65535, 65535, 65535, 65535>>}
SubLawBounds == \A a, b \in U64Bounds : LawSafeSub(a, b, SafeSubUint64(a, b), LimbBase)

(***************************************************************************)
(* chunks as states                                                        *)
(***************************************************************************)
VARIABLES ph, ix
vars == <<ph, ix>>

Chunks == {<<"codec", i>> : i \in 0..255} \cup {<<"addr", i>> : i \in 0..41} \cup {<<"merge", i>> : i \in 0..(MergeN - 1)} \cup {<<"misc", 0>>}
GroupOf(c) == (c[2] + (IF c[1] = "merge" THEN 5 ELSE 0)) % Groups

Init == ph = "root" /\ ix = 0
Next ==
  \/ ph = "root" /\ ph' = "group" /\ ix' \in 0..(Groups - 1)
  \/ ph = "group" /\ \E c \in Chunks : GroupOf(c) = ix /\ ph' = c[1] /\ ix' = c[2]
Spec == Init /\ [][Next]_vars

InvCodec == ph = "codec" => \A y \in Byte : ByteFormLaws(<<ix, y>>)
InvCodecOther == ph = "misc" => (ValueLaws /\ \A b \in OtherLengths : ByteFormLaws(b))
InvAddr == ph = "addr" => \A a \in AddrChunk(ix) : AddrLaws(a)
InvMerge == ph = "merge" => MergeChunk(ix)
InvHeap == ph = "misc" => HeapLaw
InvSub == ph = "misc" => (SubLawSmall /\ SubLawBounds)

(***************************************************************************)
(* generation of the case tables                                           *)
(***************************************************************************)
CodecCases ==
  [n \in 1..65536 |-> [k |-> "bytes", b |-> <<(n - 1) \div 256, (n - 1) % 256>>]]
  \o SetToSeq({[k |-> "bytes", b |-> b] : b \in OtherLengths})
  \o SetToSeq({[k |-> "enc", m |-> <<m.payable, m.upgradeable, m.readable>>] : m \in CMValues})
AllAddrStrings == UNION {AddrChunk(i) : i \in 0..41}
AddrCases == SetToSeq({[k |-> "addr", s |-> a, ids |-> Idents] : a \in AllAddrStrings})
\* first line: the account domain; then one line per pair (receiver i, merged-in j, second merged-in h), 0-based numbers into the domain
MergeCases ==
  <<[k |-> "mergedom", dom |-> [n \in 1..MergeN |-> Dom[n - 1]]]>>
  \o [n \in 1..(MergeN * MergeN) |-> [k |-> "merge", i |-> (n - 1) \div MergeN, j |-> (n - 1) % MergeN, h |-> Third((n - 1) \div MergeN, (n - 1) % MergeN)]]
SubCases == SetToSeq({[k |-> "sub", x |-> p[1], y |-> p[2]] : p \in U64Bounds \X U64Bounds})

NCases == [codec |-> 65536 + Cardinality(OtherLengths) + 8, addr |-> Cardinality(AllAddrStrings), merge |-> MergeN * MergeN, sub |-> Cardinality(U64Bounds) * Cardinality(U64Bounds)]

ASSUME Generate =>
  /\ ndJsonSerialize("cases-codec.ndjson", CodecCases)
  /\ ndJsonSerialize("cases-addr.ndjson", AddrCases)
  /\ ndJsonSerialize("cases-merge.ndjson", MergeCases)
  /\ ndJsonSerialize("cases-sub.ndjson", SubCases)
  /\ PrintT(<<"CASES", NCases>>)
=============================================================================
