------------------------------ MODULE EsdtStep ------------------------------
(***************************************************************************)
(* The three NFT-aware transfer functions, the create-role hand-over, the  *)
(* dispatcher Fn and the protocol wrappers Exec / Deliver.                 *)
(***************************************************************************)
EXTENDS EsdtFns

\* gas for copying the payloads; c.pl are the payload lengths, measured independently of the reported gas
\* (from the emitted message / the destination's stored entry of a probe execution with ample gas)
CopyGas(w, c) == Base(w, "DataCopyPerByte") * SumSeq(c.pl)

---------------------------------------------------------------------------
NFTTransferSender(w, c) ==
  LET da == A(c,4) IN
  IF BLen(da.h) # ALen(c.caller) THEN Err(w)
  ELSE IF da.h = cfg.addrs[c.caller].hex THEN Err(w)
  ELSE IF Ad(da) = "" THEN Unk(w)
  ELSE IF ~IsMetaA(Ad(da)) /\ Ad(da) \notin DOMAIN w.acct THEN Unk(w)     \* the system account as a destination is not modelled
  ELSE LET dest == Ad(da) IN
  IF IsMetaA(dest) THEN Err(w) ELSE
  LET cost == Cost(w, "ESDTNFTTransfer")
      tok == A(c,1).h
      n == A(c,2).n IN
  IF c.gas < cost THEN Err(w)
  ELSE IF n = WideN THEN Unk(w)
  ELSE IF n = 0 THEN Err(w)
  ELSE IF n < 0 THEN Unk(w)
  ELSE LET g == GetOnSender(w, c.caller, tok, n) IN
  IF ~g.ok THEN Err(w)
  ELSE IF ~BugOn("D3") /\ (~g.e.hm \/ g.e.meta.nonce # n) THEN Err(w)
  ELSE IF ~g.e.hm THEN Err(w)      \* D3 on the pinned tree: nil metadata is dereferenced (panic), still an error step
  ELSE LET q == A(c,3).q IN
  IF q = Bad THEN Unk(w)
  ELSE IF g.e.val < q THEN Err(w) ELSE
  LET r1 == SaveNFT(w, c.sh, c.caller, tok, [g.e EXCEPT !.val = @ - q], c.rae) IN
  IF ~r1.ok THEN Err(w) ELSE
  LET x == [g.e EXCEPT !.val = q]
      same == ShardOfA(dest) = c.sh
      r2 == IF same THEN AddNFTToDest(r1.w, c.sh, dest, tok, x, MustVerify(c, 4), c.rae, FALSE) ELSE T(r1.w) IN
  IF ~r2.ok THEN Err(w) ELSE
  LET rem0 == c.gas - cost
      copy == CopyGas(w, c) IN
  IF copy > rem0 THEN Err(w) ELSE
  LET rem == rem0 - copy
      scAfter == NA(c) > 4 /\ IsSC(dest)
      margs == <<A(c,1), A(c,2), A(c,3), PayArg(x)>> \o Drop(c.args, 4) IN
  IF ~same THEN
     OkOut(r2.w, IF scAfter THEN 0 ELSE rem,
           <<[Msg("ESDTNFTTransfer", c.caller, dest, margs, 0, IF scAfter THEN rem ELSE 0, c.ct) EXCEPT !.gl = c.gl]>>)
  ELSE IF scAfter THEN
     OkOut(r2.w, 0, <<[Msg(CallFnName(A(c,5)), c.caller, dest, Drop(c.args, 5), 0, rem, c.ct) EXCEPT !.gl = c.gl]>>)
  ELSE Ok(r2.w, rem)

NFTTransferDest(w, c) ==
  IF c.snd THEN Err(w)
  ELSE IF ~c.dst THEN Err(w)
  ELSE IF ~HasE(A(c,4)) THEN Err(w)
  ELSE LET x == A(c,4).e IN
  IF x.val = Bad THEN Unk(w)
  ELSE IF EntryNonce(x) < 0 THEN Unk(w) ELSE
  LET r == AddNFTToDest(w, c.sh, c.rcpt, A(c,1).h, x, MustVerify(c, 4), c.rae, FALSE) IN
  IF ~r.ok THEN Err(w)
  ELSE IF ~x.hm THEN Err(w)     \* the code dereferences the payload's metadata after the write
  ELSE IF NA(c) > 4 /\ IsSC(c.rcpt) THEN
     OkOut(r.w, 0, <<[Msg(CallFnName(A(c,5)), c.caller, c.rcpt, Drop(c.args, 5), 0, c.gas, c.ct) EXCEPT !.gl = c.gl]>>)
  ELSE Ok(r.w, c.gas)

ESDTNFTTransfer(w, c) ==
  IF Basic(c) THEN Err(w)
  ELSE IF NA(c) < 4 THEN Err(w)
  ELSE IF c.caller = c.rcpt THEN NFTTransferSender(w, c)
  ELSE NFTTransferDest(w, c)

---------------------------------------------------------------------------
\* MultiESDTNFTTransfer, sender side.  st = [w, ok, unk, margs]
RECURSIVE MultiSndLoop(_, _, _, _, _, _, _)
MultiSndLoop(c, k, i, dest, same, verify, st) ==
  IF ~st.ok \/ i >= k THEN st ELSE
  LET tokA == A(c, 3 * i + 3)
      tok == tokA.h
      n == A(c, 3 * i + 4).n
      q == A(c, 3 * i + 5).q IN
  IF q = Bad \/ n < 0 THEN [st EXCEPT !.ok = FALSE, !.unk = TRUE]
  ELSE IF q <= 0 THEN [st EXCEPT !.ok = FALSE]
  ELSE LET g == GetOnSender(st.w, c.caller, tok, n) IN
  IF ~g.ok THEN [st EXCEPT !.ok = FALSE]
  ELSE IF ~BugOn("D3") /\ EntryNonce(g.e) # n THEN [st EXCEPT !.ok = FALSE]
  ELSE IF g.e.val < q THEN [st EXCEPT !.ok = FALSE] ELSE
  LET r1 == SaveNFT(st.w, c.sh, c.caller, tok, [g.e EXCEPT !.val = @ - q], c.rae) IN
  IF ~r1.ok THEN [st EXCEPT !.ok = FALSE] ELSE
  LET x == [g.e EXCEPT !.val = q]
      r2 == IF same THEN AddNFTToDest(r1.w, c.sh, dest, tok, x, verify, c.rae, TRUE) ELSE T(r1.w) IN
  IF ~r2.ok THEN [st EXCEPT !.ok = FALSE] ELSE
  LET item == IF x.hm THEN <<tokA, NumArg(x.meta.nonce), PayArg(x)>> ELSE <<tokA, RawArg("00"), AmtArg(q)>> IN
  MultiSndLoop(c, k, i + 1, dest, same, verify, [st EXCEPT !.w = r2.w, !.margs = @ \o item])

MultiSender(w, c) ==
  LET da == A(c,1) IN
  IF BLen(da.h) # ALen(c.caller) THEN Err(w)
  ELSE IF da.h = cfg.addrs[c.caller].hex THEN Err(w)
  ELSE IF Ad(da) = "" THEN Unk(w)
  ELSE IF ~IsMetaA(Ad(da)) /\ Ad(da) \notin DOMAIN w.acct THEN Unk(w)     \* the system account as a destination is not modelled
  ELSE LET dest == Ad(da)
           k == A(c,2).n IN
  IF IsMetaA(dest) THEN Err(w)
  ELSE IF k = WideN THEN Unk(w)
  ELSE IF k = 0 THEN Err(w)
  ELSE IF k = HugeN THEN Err(w)                     \* D4: more transfers than the arguments can hold
  ELSE IF k > NA(c) \div 3 THEN Err(w)
  ELSE IF NA(c) < 3 * k + 2 THEN Err(w) ELSE
  LET cost == Cost(w, "ESDTNFTMultiTransfer") IN
  IF c.gas < k * cost THEN Err(w) ELSE
  LET verify == MustVerify(c, 3 * k + 2)
      same == ShardOfA(dest) = c.sh
      st == MultiSndLoop(c, k, 0, dest, same, verify, [w |-> w, ok |-> TRUE, unk |-> FALSE, margs |-> <<NumArg(k)>>]) IN
  IF st.unk THEN Unk(w)
  ELSE IF ~st.ok THEN Err(w) ELSE
  LET rem0 == c.gas - k * cost
      copy == CopyGas(w, c) IN
  IF copy > rem0 THEN Err(w) ELSE
  LET rem == rem0 - copy
      margs == st.margs \o Drop(c.args, 3 * k + 2)
      scAfter == NA(c) > 3 * k + 2 /\ IsSC(dest) IN
  IF ~same THEN
     OkOut(st.w, IF scAfter THEN 0 ELSE rem,
           <<[Msg("MultiESDTNFTTransfer", c.caller, dest, margs, 0, IF scAfter THEN rem ELSE 0, c.ct) EXCEPT !.gl = c.gl]>>)
  ELSE IF scAfter THEN
     OkOut(st.w, 0, <<[Msg(CallFnName(A(c, 3 * k + 3)), c.caller, dest, Drop(c.args, 3 * k + 3), 0, rem, c.ct) EXCEPT !.gl = c.gl]>>)
  ELSE Ok(st.w, rem)

RECURSIVE MultiDstLoop(_, _, _, _, _)
MultiDstLoop(c, k, i, verify, st) ==
  IF ~st.ok \/ i >= k THEN st ELSE
  LET tok == A(c, 3 * i + 2).h
      n == A(c, 3 * i + 3).n
      va == A(c, 3 * i + 4) IN
  IF n = WideN THEN [st EXCEPT !.ok = FALSE, !.unk = TRUE]
  ELSE IF n # 0 THEN
     IF ~HasE(va) THEN [st EXCEPT !.ok = FALSE]
     ELSE IF va.e.val = Bad \/ EntryNonce(va.e) < 0 THEN [st EXCEPT !.ok = FALSE, !.unk = TRUE]
     ELSE LET r == AddNFTToDest(st.w, c.sh, c.rcpt, tok, va.e, verify, c.rae, TRUE) IN
          IF ~r.ok THEN [st EXCEPT !.ok = FALSE] ELSE MultiDstLoop(c, k, i + 1, verify, [st EXCEPT !.w = r.w])
  ELSE IF va.q = Bad THEN [st EXCEPT !.ok = FALSE, !.unk = TRUE]
  ELSE IF ~BugOn("D7") /\ verify /\ ~PayableOK(st.w, c.rcpt) THEN [st EXCEPT !.ok = FALSE]
  ELSE LET r == AddBal(st.w, c.sh, c.rcpt, tok, va.q, c.rae) IN
       IF ~r.ok THEN [st EXCEPT !.ok = FALSE] ELSE MultiDstLoop(c, k, i + 1, verify, [st EXCEPT !.w = r.w])

MultiDest(w, c) ==
  IF c.snd THEN Err(w)
  ELSE IF ~c.dst THEN Err(w)
  ELSE LET k == A(c,1).n IN
  IF k = WideN THEN Unk(w)
  ELSE IF k = 0 THEN Err(w)
  ELSE IF k = HugeN THEN Err(w)
  ELSE IF k > NA(c) \div 3 THEN Err(w)
  ELSE IF NA(c) < 3 * k + 1 THEN Err(w) ELSE
  LET st == MultiDstLoop(c, k, 0, MustVerify(c, 3 * k + 1), [w |-> w, ok |-> TRUE, unk |-> FALSE]) IN
  IF st.unk THEN Unk(w)
  ELSE IF ~st.ok THEN Err(w)
  ELSE IF NA(c) > 3 * k + 1 /\ IsSC(c.rcpt) THEN
     OkOut(st.w, 0, <<[Msg(CallFnName(A(c, 3 * k + 2)), c.caller, c.rcpt, Drop(c.args, 3 * k + 2), 0, c.gas, c.ct) EXCEPT !.gl = c.gl]>>)
  ELSE Ok(st.w, c.gas)

MultiESDTNFTTransfer(w, c) ==
  IF Basic(c) THEN Err(w)
  ELSE IF NA(c) < (IF BugOn("D2") THEN 5 ELSE 4) THEN Err(w)
  ELSE IF c.caller = c.rcpt THEN MultiSender(w, c)
  ELSE MultiDest(w, c)

---------------------------------------------------------------------------
AddCreateRole(w, a, tok) ==
  LET cur == RolesOf(w.acct[a], tok) IN
  IF RoleCreate \in Range(cur) THEN w ELSE SetRoles(w, a, tok, cur \o <<RoleCreate>>)

ESDTNFTCreateRoleTransfer(w, c) ==
  IF Basic(c) THEN Err(w)
  ELSE IF c.snd THEN Err(w)
  ELSE IF ~c.dst THEN Err(w)
  ELSE IF NA(c) # 2 THEN Err(w)
  ELSE LET tok == A(c,1).h
           ac == w.acct[c.rcpt] IN
  IF c.caller = ESDTSC THEN
     IF BLen(A(c,2).h) # ALen(c.caller) THEN Err(w)
     ELSE IF RolesUndecodable(ac, tok) THEN Err(w)
     ELSE IF Ad(A(c,2)) = "" \/ Ad(A(c,2)) = c.rcpt THEN Unk(w)
     ELSE LET dest == Ad(A(c,2))
              n == CtrOf(ac, tok) IN
          IF n < 0 THEN Unk(w) ELSE
          LET w1 == SetRoles(SetCtr(w, c.rcpt, tok, 0), c.rcpt, tok, DelFirst(RolesOf(ac, tok), RoleCreate))
              w2 == IF ShardOfA(dest) = c.sh
                    THEN IF RolesUndecodable(w1.acct[dest], tok) THEN w1 ELSE AddCreateRole(SetCtr(w1, dest, tok, n), dest, tok)
                    ELSE w1 IN
          IF ShardOfA(dest) = c.sh /\ RolesUndecodable(w1.acct[dest], tok) THEN Err(w)
          ELSE OkOut(w2, 0, <<Msg("ESDTNFTCreateRoleTransfer", c.rcpt, dest, <<TokArg(tok), NumArg(n)>>, 0, 0, 0)>>)
  ELSE IF A(c,2).n < 0 THEN Unk(w)
  ELSE IF RolesUndecodable(ac, tok) THEN Err(w)
  ELSE Ok(AddCreateRole(SetCtr(w, c.rcpt, tok, A(c,2).n), c.rcpt, tok), 0)

---------------------------------------------------------------------------
\* dispatcher: the behaviour bound to each protocol name
Fn(w, c) ==
  CASE c.fn = "ClaimDeveloperRewards" -> ClaimDeveloperRewards(w, c)
    [] c.fn = "ChangeOwnerAddress" -> ChangeOwnerAddress(w, c)
    [] c.fn = "SetUserName" -> SetUserName(w, c)
    [] c.fn = "SaveKeyValue" -> SaveKeyValue(w, c)
    [] c.fn = "ESDTTransfer" -> ESDTTransfer(w, c)
    [] c.fn = "ESDTBurn" -> ESDTBurn(w, c)
    [] c.fn = "ESDTFreeze" -> FreezeFn(w, c, "freeze")
    [] c.fn = "ESDTUnFreeze" -> FreezeFn(w, c, "unfreeze")
    [] c.fn = "ESDTWipe" -> FreezeFn(w, c, "wipe")
    [] c.fn = "ESDTPause" -> PauseFn(w, c, TRUE)
    [] c.fn = "ESDTUnPause" -> PauseFn(w, c, FALSE)
    [] c.fn = "ESDTSetRole" -> RolesFn(w, c, TRUE)
    [] c.fn = "ESDTUnSetRole" -> RolesFn(w, c, FALSE)
    [] c.fn = "ESDTLocalMint" -> LocalFn(w, c, TRUE)
    [] c.fn = "ESDTLocalBurn" -> LocalFn(w, c, FALSE)
    [] c.fn = "ESDTNFTCreate" -> ESDTNFTCreate(w, c)
    [] c.fn = "ESDTNFTAddQuantity" -> NFTRoleFn(w, c, "addq")
    [] c.fn = "ESDTNFTBurn" -> NFTRoleFn(w, c, "burn")
    [] c.fn = "ESDTNFTAddURI" -> NFTRoleFn(w, c, "uri")
    [] c.fn = "ESDTNFTUpdateAttributes" -> NFTRoleFn(w, c, "attr")
    [] c.fn = "ESDTNFTTransfer" -> ESDTNFTTransfer(w, c)
    [] c.fn = "MultiESDTNFTTransfer" -> MultiESDTNFTTransfer(w, c)
    [] c.fn = "ESDTNFTCreateRoleTransfer" -> ESDTNFTCreateRoleTransfer(w, c)
    [] OTHER -> Err(w)

---------------------------------------------------------------------------
\* protocol model

\* which account objects the node hands to the function
SndPresent(c) == Known(c.caller) /\ ShardOfA(c.caller) = c.sh
DstPresent(c) == Known(c.rcpt) /\ ShardOfA(c.rcpt) = c.sh /\ ~IsSys(c.rcpt)

Deliverable(sh, m) == m.fn \in BuiltIns /\ Known(m.to) /\ ShardOfA(m.to) >= 0 /\ ShardOfA(m.to) # sh

\* a user's own cross-shard transaction continues on the destination shard
TxForward(c, r) ==
  IF ~IsSC(c.caller) /\ ShardOfA(c.caller) = c.sh /\ ShardOfA(c.rcpt) >= 0 /\ ShardOfA(c.rcpt) # c.sh
     /\ c.fn \in {"ESDTTransfer", "ChangeOwnerAddress", "ClaimDeveloperRewards"}
  THEN <<[Msg(c.fn, c.caller, c.rcpt, c.args, 0, r.gr, c.ct) EXCEPT !.gl = c.gl, !.tx = TRUE]>>
  ELSE <<>>

RECURSIVE Queue(_, _, _)
Queue(w, sh, out) ==
  IF out = <<>> THEN w
  ELSE IF Deliverable(sh, Head(out))
       THEN Queue([w EXCEPT !.msgs = Append(@, [Head(out) EXCEPT !.id = w.nextId]), !.nextId = @ + 1], sh, Tail(out))
       ELSE Queue(w, sh, Tail(out))

\* one execution as the node performs it: rollback on error, commit + queue on success
Exec(w, c0) ==
  LET c == [c0 EXCEPT !.snd = SndPresent(c0), !.dst = DstPresent(c0)]
      r == Fn(w, c) IN
  IF ~r.ok THEN [r EXCEPT !.w = w]
  ELSE LET out == r.out \o TxForward(c, r) IN
       [r EXCEPT !.out = out, !.w = Queue(r.w, c.sh, out)]

MsgById(w, id) == CHOOSE i \in 1..Len(w.msgs) : w.msgs[i].id = id
HasMsg(w, id) == \E i \in 1..Len(w.msgs) : w.msgs[i].id = id /\ ~w.msgs[i].dead
RemoveMsg(w, id) == [w EXCEPT !.msgs = SelectSeq(@, LAMBDA m : m.id # id)]

DeliverCall(m) ==
  [fn |-> m.fn, caller |-> m.from, rcpt |-> m.to, args |-> m.args, gas |-> m.gas, gl |-> m.gl, ct |-> m.ct, rae |-> m.rae,
   cv |-> 0, snd |-> FALSE, dst |-> FALSE, sh |-> ShardOfA(m.to), pl |-> <<>>]

Deliver(w, id, dup) ==
  LET i == MsgById(w, id)
      m == w.msgs[i]
      r == Exec(w, DeliverCall(m)) IN
  IF r.unk THEN r
  ELSE IF r.ok THEN (IF dup THEN r ELSE [r EXCEPT !.w = RemoveMsg(r.w, id)])
  ELSE IF m.fn \in TokenFns /\ ~m.rae THEN
     [r EXCEPT !.w = [w EXCEPT !.msgs[i] = [m EXCEPT !.from = m.to, !.to = m.from, !.rae = TRUE, !.gas = 0,
                                                     !.args = @ \o <<RawArg(RetMsgHex)>>,
                                                     !.ct = IF IsSC(m.from) THEN 2 ELSE 0]]]
  ELSE IF m.fn \in TokenFns THEN [r EXCEPT !.w = [w EXCEPT !.msgs[i].dead = TRUE]]
  ELSE [r EXCEPT !.w = RemoveMsg(w, id)]

=============================================================================
