------------------------------- MODULE Fault -------------------------------
(***************************************************************************)
(* Why C17 matters, at design level.  A built-in call is a sequence of     *)
(* dependency operations (reads, writes, loads, saves, encode/decode,      *)
(* payability queries, account operations).  The k-th operation may fail.  *)
(* With error propagation the call reports an error and the caller rolls   *)
(* the ledger back, so every ledger invariant survives every fault point.  *)
(* With the switch Swallow a failing WRITE is ignored and the call goes on *)
(* to report Ok: TLC then finds conservation broken (non-vacuity of the    *)
(* property: "never Ok after a failed write" is exactly what protects the  *)
(* ledger).                                                                *)
(***************************************************************************)
EXTENDS Integers, Sequences, FiniteSets, TLC

CONSTANTS Swallow,     \* TRUE: a failed write is swallowed (the defect class C17 forbids)
          MaxCalls

NoCall == [fn |-> "none"]
Accts == {"a", "b", "c"}
Total == 4

\* the dependency operations of the modelled calls, in code order
\* transfer(x, y, q): read x, write x (debit), load y, read y, write y (credit), save y
OpsOf(c) ==
  CASE c.fn = "transfer" -> <<[op |-> "read", a |-> c.from], [op |-> "write", a |-> c.from, d |-> 0 - c.q], [op |-> "load", a |-> c.to],
                              [op |-> "read", a |-> c.to], [op |-> "write", a |-> c.to, d |-> c.q], [op |-> "save", a |-> c.to]>>
    [] c.fn = "mint" -> <<[op |-> "read", a |-> c.from], [op |-> "marshal", a |-> c.from], [op |-> "write", a |-> c.from, d |-> c.q]>>
    [] OTHER -> <<>>

Calls == {[fn |-> "transfer", from |-> x, to |-> y, q |-> q] : x \in Accts, y \in Accts, q \in 1..2}

VARIABLES bal,      \* committed ledger
          work,     \* the ledger as the running call sees it
          call,     \* the running call or NoCall
          pc,       \* index of the next dependency operation
          faultAt,  \* the operation index that fails (0 = none)
          failed,   \* a dependency failure was observed and propagated
          swallowed,\* a dependency failure was ignored
          res,      \* result of the last finished call
          n
vars == <<bal, work, call, pc, faultAt, failed, swallowed, res, n>>

Init == bal = [x \in Accts |-> IF x = "a" THEN Total ELSE 0] /\ work = bal /\ call = NoCall /\ pc = 0 /\ faultAt = 0 /\ failed = FALSE
        /\ swallowed = FALSE /\ res = "none" /\ n = 0

Start == call.fn = "none" /\ n < MaxCalls /\ \E c \in Calls : \E k \in 0..Len(OpsOf(c)) :
           /\ c.from # c.to /\ bal[c.from] >= c.q
           /\ call' = c /\ pc' = 1 /\ faultAt' = k /\ work' = bal /\ failed' = FALSE /\ swallowed' = FALSE /\ n' = n + 1 /\ UNCHANGED <<bal, res>>

StepEffect(o) ==
  IF pc = faultAt THEN
     IF Swallow /\ o.op = "write"
     THEN swallowed' = TRUE /\ pc' = pc + 1 /\ UNCHANGED <<work, failed>>        \* the failed write is ignored
     ELSE IF o.op = "read"
          THEN pc' = pc + 1 /\ UNCHANGED <<work, failed, swallowed>>             \* storage reads are fail-soft
          ELSE failed' = TRUE /\ UNCHANGED <<work, pc, swallowed>>
  ELSE /\ work' = (IF o.op = "write" THEN [work EXCEPT ![o.a] = @ + o.d] ELSE work)
       /\ pc' = pc + 1 /\ UNCHANGED <<failed, swallowed>>

Step == /\ call.fn # "none" /\ ~failed /\ pc <= Len(OpsOf(call))
        /\ StepEffect(OpsOf(call)[pc])
        /\ UNCHANGED <<bal, call, faultAt, res, n>>

\* the function returns; the caller commits on Ok and rolls back on error
Return == call.fn # "none" /\ (failed \/ pc > Len(OpsOf(call))) /\
          /\ res' = IF failed THEN "err" ELSE "ok"
          /\ bal' = IF failed THEN bal ELSE work
          /\ call' = NoCall /\ pc' = 0 /\ UNCHANGED <<work, faultAt, failed, swallowed, n>>

Next == Start \/ Step \/ Return
Spec == Init /\ [][Next]_vars

RECURSIVE Sum(_, _)
Sum(f, S) == IF S = {} THEN 0 ELSE LET x == CHOOSE y \in S : TRUE IN f[x] + Sum(f, S \ {x})
Conservation == Sum(bal, Accts) = Total
NoNegative == \A x \in Accts : bal[x] >= 0
\* the property itself, on the model: a call that saw a non-soft failure never reports Ok
FaultIsError == (call.fn = "none" /\ res = "ok") => ~swallowed
=============================================================================
