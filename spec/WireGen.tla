------------------------------- MODULE WireGen -------------------------------
(***************************************************************************)
(* Generation of case tables for C12 / C14 (DESIGN.md 2.2, use 2c): TLC    *)
(* enumerates finite input domains completely, evaluates the operators of  *)
(* Wire.tla on every element and writes one JSON object per case.  The Go  *)
(* harness executes every row against the real code; WireTrace.tla then    *)
(* validates what was observed.  The expected results are written next to  *)
(* the inputs for the reader of a replay file; the verdict never uses      *)
(* them (WireTrace re-evaluates the operators on the observed inputs).     *)
(*                                                                         *)
(* There is no behaviour here: the module consists of ASSUMEs.             *)
(***************************************************************************)
EXTENDS Wire, Json, TLC

CONSTANTS Mode,                                        \* which table: "c12s" | "c12x" | "c12b" | "c14"
          MaxLen,                                      \* strings: every string up to this length
          XLen, MLen, BLen,                            \* argument-list lengths: single transfers, multi transfers, builder
          CLetter, CLower, CUpper, CDigit, CNonHex     \* one representative byte per character class

Alpha == {CLetter, AT, CLower, CUpper, CDigit, CNonHex}
SeqsUpTo(S, n) == UNION {[1..m -> S] : m \in 0..n}
Table(S, row(_)) == LET ss == SetToSeq(S) IN [i \in 1..Len(ss) |-> row(ss[i])]

\* ------------------------------------------------------------------ strings
StrRow(s) == [k |-> "str", s |-> s, call |-> ParseCall(s), deploy |-> ParseDeploy(s), su |-> ParseSU(s)]
StrTable(n) == Table(SeqsUpTo(Alpha, n), StrRow)

\* ---------------------------------------------------------------- transfers
A1 == <<1, 1>>
A2 == <<2, 2>>
Meta0 == [nonce |-> <<>>, name |-> <<>>, creator |-> <<>>, roy |-> <<>>, hash |-> <<>>, uris |-> <<>>, attr |-> <<>>]
Pay == EncToken([type |-> <<1>>, value |-> Amt(FALSE, <<5>>), props |-> <<>>, meta |-> HasMeta([Meta0 EXCEPT !.nonce = <<1>>, !.name = <<78>>]), reserved |-> <<>>])
PayNeg == EncToken([type |-> <<1>>, value |-> Amt(TRUE, <<1, 0>>), props |-> <<>>, meta |-> NoMeta, reserved |-> <<>>])
PayNoValue == <<8, 1>>                                 \* Type = 1 and nothing else: no Value field at all
PayNilValue == <<8, 1, 18, 1, 0>>                      \* the encoder's image of a nil amount
Big9 == <<1, 0, 0, 0, 0, 0, 0, 0, 1>>                  \* 2^64 + 1: truncates to 1
Wrap55 == <<85, 85, 85, 85, 85, 85, 85, 85>>           \* n with 3n + 1 = 2^64 and 3n + 2 = 2^64 + 1
WrapAB == <<170, 170, 170, 170, 170, 170, 170, 171>>   \* n with 3n = 2^65 + 1
\* cases are enumerated as tuples of small indices (cheap to normalise) and mapped to byte strings by the row operator
SingleItems == <<<<>>, <<1>>, <<1, 0>>, Big9, Pay>>
Counts == <<<<>>, <<0>>, <<1>>, <<2>>, <<3>>, <<0, 2>>, <<1, 0>>, <<1, 0, 0, 0>>, Big9, Wrap55, WrapAB>>
MultiItems == <<<<>>, <<1>>, Pay, PayNoValue>>
Payloads == <<PayNeg, PayNilValue, PayNoValue, Pay, <<18, 0>>, <<18, 2, 5, 5>>>>
Rcvs == <<A1, A2, <<>>>>
Fns == <<FnESDTTransfer, FnESDTNFTTransfer, <<CLetter>>, FnMultiESDTNFTTransfer>>
Pick(items, idx) == [i \in 1..Len(idx) |-> items[idx[i]]]
XferRowOf(snd, rcv, fn, args) == [k |-> "xfer", snd |-> snd, rcv |-> rcv, fn |-> fn, args |-> args, exp |-> ParseTransfers(snd, rcv, fn, args)]
XferRow(c) ==
  CASE c[1] = 1 -> XferRowOf(A1, Rcvs[c[2]], Fns[c[3]], Pick(SingleItems, c[4]))                       \* single transfers and foreign names
    [] c[1] = 2 -> XferRowOf(A1, A2, Fns[4], <<Counts[c[2]]>> \o Pick(MultiItems, c[4]))              \* multi, destination side
    [] c[1] = 3 -> XferRowOf(A1, A1, Fns[4], <<Rcvs[c[3]], Counts[c[2]]>> \o Pick(MultiItems, c[4]))  \* multi, sender side
    [] c[1] = 4 -> XferRowOf(A1, Rcvs[c[2]], Fns[4], <<Counts[c[3]], <<65>>, <<1>>, Payloads[c[4][1]]>>) \* one NFT item, payload variants
XferTable(xl, ml) ==
  Table({<<1, r, f, a>> : r \in {1, 2}, f \in {1, 2, 3}, a \in SeqsUpTo(1..Len(SingleItems), xl)}, XferRow)
  \o Table({<<2, c, 0, a>> : c \in 1..Len(Counts), a \in SeqsUpTo(1..Len(MultiItems), ml)}, XferRow)
  \o Table({<<3, c, d, a>> : c \in 1..Len(Counts), d \in {2, 3}, a \in SeqsUpTo(1..Len(MultiItems), ml)}, XferRow)
  \o Table({<<4, r, c, <<p>>>> : r \in {1, 2}, c \in {3, 4}, p \in 1..Len(Payloads)}, XferRow)

\* ----------------------------------------------------------------- builders
BA == {0, 10, 64, 255}
ArgS == SeqsUpTo(BA, 2)
FNames == {<<CLetter>>, FnESDTTransfer, <<CLower, CDigit>>, <<>>, <<CLetter, AT>>, <<CNonHex, 0, 255>>}
TypedElems == {[t |-> "byte", n |-> 0], [t |-> "byte", n |-> 171], [t |-> "int", n |-> 0], [t |-> "int", n |-> 255], [t |-> "int", n |-> 256],
               [t |-> "int", n |-> -1], [t |-> "int", n |-> 2147483647], [t |-> "big", b |-> <<0, 1, 0>>], [t |-> "big", b |-> <<>>],
               [t |-> "bool", n |-> 1], [t |-> "bool", n |-> 0], [t |-> "bytes", b |-> <<64>>],
               [t |-> "int64", n |-> 0], [t |-> "int64", n |-> -256], [t |-> "int64", n |-> 65536], [t |-> "str", b |-> <<CLetter, AT, 0>>], [t |-> "str", b |-> <<>>]}
BuildRowOf(f, es) == [k |-> "build", f |-> f, es |-> es, data |-> BuildElems(f, es), exp |-> ParseCall(BuildElems(f, es))]
BuildRow(c) == BuildRowOf(c[1], c[2])
ArgSeq == SetToSeq(ArgS)
FNameSeq == SetToSeq(FNames)
BytesRow(c) == BuildRowOf(FNameSeq[c[1]], [i \in 1..Len(c[2]) |-> [t |-> "bytes", b |-> ArgSeq[c[2][i]]]])
BuildCases(bl) == {<<f, a>> : f \in 1..Len(FNameSeq), a \in SeqsUpTo(1..Len(ArgSeq), bl)}
TypedCases == {<<f, es>> : f \in {<<CLetter>>, <<>>}, es \in SeqsUpTo(TypedElems, 2)}
Metas == {[up |-> a, rd |-> b, pay |-> c] : a, b, c \in BOOLEAN}
DeployRow(c) == [k |-> "deploy", code |-> c[1], vm |-> c[2], meta |-> c[3], args |-> c[4], data |-> BuildDeploy(c[1], c[2], c[3], c[4]),
                 exp |-> ParseDeploy(BuildDeploy(c[1], c[2], c[3], c[4]))]
DeployCases(n) == {<<code, vm, m, a>> : code \in {<<>>, <<1>>, <<0, 97>>}, vm \in {<<>>, <<5>>, <<5, 0>>}, m \in Metas, a \in SeqsUpTo({<<>>, <<1>>, <<255, 64>>}, n)}
PairS == {[o |-> o, d |-> d] : o, d \in {<<>>, <<1>>, <<64, 0>>}}
SURow(us) == [k |-> "su", us |-> us, data |-> CreateSU(us), exp |-> ParseSU(CreateSU(us))]
BuildTable(bl) == Table(BuildCases(bl), BytesRow) \o Table(TypedCases, BuildRow) \o Table(DeployCases(2), DeployRow) \o Table(SeqsUpTo(PairS, 3), SURow)

\* -------------------------------------------------------------------- codec
BA6 == {0, 1, 2, 127, 128, 255}
Mags == {m \in SeqsUpTo(BA6, BLen) : m = <<>> \/ m[1] # 0}     \* in mode c14 BLen bounds the magnitude
AmtCases == {NilAmt} \cup {Amt(neg, m) : neg \in BOOLEAN, m \in Mags}
AmtRow(a) == [k |-> "amt", v |-> a, tb |-> EncAmount(a), size |-> SizeAmount(a)]

U32S == {<<>>, <<1>>, <<127>>, <<0, 1>>, <<127, 127>>, <<0, 0, 1>>, <<127, 127, 127, 127>>, <<0, 0, 0, 0, 1>>, <<127, 127, 127, 127, 15>>}
U64S == U32S \cup {<<0, 0, 0, 0, 16>>, <<127, 127, 127, 127, 127, 127, 127, 127, 127>>, <<0, 0, 0, 0, 0, 0, 0, 0, 0, 1>>,
                   <<127, 127, 127, 127, 127, 127, 127, 127, 127, 1>>}
Long130 == [i \in 1..130 |-> i % 256]
B3 == {<<>>, <<7>>, <<1, 2>>, Long130}
B2 == {<<>>, <<0>>}
UriS == {<<>>, << <<>> >>, << <<104>> >>, << <<104>>, <<>> >>, << <<>>, <<104>> >>, << <<104>>, <<105, 0>> >>, << <<>>, <<>> >>}
MetaCases(z) == {[nonce |-> n, name |-> nm, creator |-> c, roy |-> r, hash |-> h, uris |-> u, attr |-> a] :
                n \in U64S, nm \in B3, c \in B2, r \in {<<>>, <<1>>, <<16, 78>>, <<127, 127, 127, 127, 15>>}, h \in B2, u \in UriS, a \in B2}
MetaRow(m) == [k |-> "meta", v |-> m, tb |-> EncMeta(m), size |-> SizeMeta(m)]
AmtS == {NilAmt, Amt(FALSE, <<>>), Amt(FALSE, <<1>>), Amt(TRUE, <<1>>), Amt(FALSE, <<255>>), Amt(FALSE, <<1, 0>>), Amt(TRUE, <<1, 0>>),
         Amt(FALSE, <<127, 255, 255>>), Amt(FALSE, <<1, 0, 0, 0, 0, 0, 0, 0, 0>>), Amt(TRUE, <<1, 0, 0, 0, 0, 0, 0, 0, 0>>),
         Amt(FALSE, [i \in 1..127 |-> 255]), Amt(TRUE, [i \in 1..128 |-> 200])}
MetaS == {Meta0, [Meta0 EXCEPT !.nonce = <<1>>], [Meta0 EXCEPT !.nonce = <<0, 1>>, !.name = <<78>>, !.roy = <<16, 78>>],
          [Meta0 EXCEPT !.uris = << <<>> >>], [Meta0 EXCEPT !.nonce = <<127, 127, 127, 127, 127, 127, 127, 127, 127, 1>>, !.attr = Long130],
          [nonce |-> <<2>>, name |-> <<1>>, creator |-> <<2>>, roy |-> <<3>>, hash |-> <<4>>, uris |-> << <<5>>, <<6>> >>, attr |-> <<7>>]}
TokCases(z) == {[type |-> t, value |-> a, props |-> p, meta |-> m, reserved |-> r] :
               t \in U32S, a \in AmtS, p \in B3, m \in {NoMeta} \cup {HasMeta(mm) : mm \in MetaS}, r \in B2}
TokRow(t) == [k |-> "tok", v |-> t, tb |-> EncToken(t), size |-> SizeToken(t)]
RoleS == {<<>>, <<1>>, <<69, 83, 68, 84>>, Long130}
RolesRow(rs) == [k |-> "roles", v |-> rs, tb |-> EncRoles(rs), size |-> SizeRoles(rs)]
CodecTable(n) == Table(AmtCases, AmtRow) \o Table(TokCases(n), TokRow) \o Table(MetaCases(n), MetaRow) \o Table(SeqsUpTo(RoleS, n), RolesRow)

\* ------------------------------------------------------------------- output
ASSUME Mode = "c12s" => LET t == StrTable(MaxLen) IN ndJsonSerialize("t_strs.ndjson", t) /\ PrintT(<<"GEN", Mode, Len(t)>>)
ASSUME Mode = "c12x" => LET t == XferTable(XLen, MLen) IN ndJsonSerialize("t_xfer.ndjson", t) /\ PrintT(<<"GEN", Mode, Len(t)>>)
ASSUME Mode = "c12b" => LET t == BuildTable(BLen) IN ndJsonSerialize("t_build.ndjson", t) /\ PrintT(<<"GEN", Mode, Len(t)>>)
ASSUME Mode = "c14" =>
         LET ct == CodecTable(3) IN
         /\ ndJsonSerialize("t_codec.ndjson", ct)
         /\ PrintT(<<"GEN", Mode, Len(ct)>>)
=============================================================================
