----------------------------- MODULE LinTrace -----------------------------
(***************************************************************************)
(* Linearizability checking of recorded call/return histories of the real  *)
(* Go objects (property C19), by trace validation.                         *)
(*                                                                         *)
(* trace.ndjson holds many short ROUNDS (<= 24 operations each), every     *)
(* round preceded by a reset marker, the file closed by an end marker:     *)
(*   {"e":"reset","round":R,"kind":K,"init":I,"next":L}   L = line of the  *)
(*                                        next reset/end marker            *)
(*   {"e":"call","g":G,"op":..,<args>,"rl":L,"seq":S}     L = line of the  *)
(*                                        matching return                  *)
(*   {"e":"ret","g":G,"r":<result>,"seq":S}                                *)
(*   {"e":"bulk","obj":..,...}    outcome of an unlogged bulk run          *)
(*   {"e":"race",...}             Go's race detector reported a data race  *)
(*   {"e":"end"}                                                           *)
(* Lines are ordered by the sequence number S every goroutine drew from    *)
(* ONE atomic counter immediately before the call and immediately after    *)
(* the return (never wall-clock time), so "a returned before b was called" *)
(* in the log implies it in real time.                                     *)
(*                                                                         *)
(* The specification consumes the log line by line.  The linearization     *)
(* point of an operation is the UNLOGGED internal action Lin(g), enabled   *)
(* between the operation's call and its return; it applies the sequential  *)
(* specification of Concurrency.tla to the object state and is enabled     *)
(* only if that yields the logged return value.  A return can be consumed  *)
(* only after its Lin.  A round is linearizable iff TLC can walk from its  *)
(* reset marker to the next one; it then prints <<"ACC", round>>.  There   *)
(* is no action for a "race" line: a round containing one is stuck.        *)
(*                                                                         *)
(* AllowSkip = TRUE adds an action that abandons a round, so that one TLC  *)
(* run examines every round of the file (the rounds not printed as ACC are *)
(* the rejected ones; TLC's search is exhaustive, so the verdict is        *)
(* certain once TLC reports completion).  With AllowSkip = FALSE (used on  *)
(* a single round) acceptance is the high-water mark of consumed lines     *)
(* checked by the POSTCONDITION Accepted; run with -workers 1.             *)
(*                                                                         *)
(* Property predicates (bin/fam_conc.py names a rejected round after its   *)
(* kind; the verdict is always "TLC found no walk through the round"):     *)
(*   P19_Linearizable  rounds of kind map / cont                           *)
(*   P19_NoLostUpdate  rounds of kind flag / counter / i64 / u32 / u64 /   *)
(*                     str and the bulk outcomes (BulkOK)                  *)
(*   P19_OneSchedule   rounds of kind sched: one history per built-in      *)
(*                     function = all repricings + that function's         *)
(*                     executions; an execution returns the gas it         *)
(*                     consumed, which must be Price(k, k, m, n) for the   *)
(*                     schedule k the register holds at its Lin step       *)
(*   P19_NoRace        any round containing a "race" line                  *)
(***************************************************************************)
EXTENDS Integers, Sequences, FiniteSets, TLC, Json

CONSTANT AllowSkip

\* the sequential specifications (part 1 of Concurrency.tla); the lock model's variables are not used here
S == INSTANCE Concurrency WITH NoLock <- FALSE, base <- 0, perByte <- 0, readers <- {}, writer <- FALSE,
                               epc <- 0, eb <- 0, ep <- 0, charged <- 0, rpc <- 0, rk <- 0

Log == ndJsonDeserialize("trace.ndjson")
N == Len(Log)
Gs == 0..16                     \* goroutine ids (0 = the driver's main goroutine, after the join)

VARIABLES pos,                  \* next log line to consume
          rnd, kind,            \* current round and its object kind ("none" before the first marker, "skipped" after Skip)
          st,                   \* state of the sequential specification
          pend                  \* per goroutine: 0 idle, L > 0 called at line L and not yet linearized, -L linearized
vars == <<pos, rnd, kind, st, pend>>

Idle == [g \in Gs |-> 0]
Quiescent == \A g \in Gs : pend[g] = 0
Live == kind \notin {"none", "skipped"}

Init ==
  /\ pos = 1 /\ rnd = 0 /\ kind = "none" /\ st = 0 /\ pend = Idle
  /\ TLCSet(1, 1)

\* a reset marker: the previous round (if one was being walked) has been consumed completely = it is linearizable
StartRound ==
  /\ Log[pos].e = "reset"
  /\ Quiescent
  /\ (Live => PrintT(<<"ACC", rnd>>))
  /\ rnd' = Log[pos].round
  /\ kind' = Log[pos].kind
  /\ st' = S!InitState(Log[pos].kind, Log[pos].init)
  /\ pend' = Idle
  /\ pos' = pos + 1

\* abandon the round starting here (only so that the rounds after a rejected one are examined in the same run)
SkipRound ==
  /\ AllowSkip
  /\ Log[pos].e = "reset"
  /\ Quiescent
  /\ (Live => PrintT(<<"ACC", rnd>>))
  /\ rnd' = Log[pos].round
  /\ kind' = "skipped" /\ st' = 0 /\ pend' = Idle
  /\ pos' = Log[pos].next

Finish ==
  /\ Log[pos].e = "end"
  /\ Quiescent
  /\ (Live => PrintT(<<"ACC", rnd>>))
  /\ rnd' = 0 /\ kind' = "none" /\ st' = 0 /\ pend' = Idle
  /\ pos' = pos + 1

Call ==
  /\ Live
  /\ Log[pos].e = "call"
  /\ pend[Log[pos].g] = 0
  /\ pend' = [pend EXCEPT ![Log[pos].g] = pos]
  /\ pos' = pos + 1
  /\ UNCHANGED <<rnd, kind, st>>

\* the linearization point: not in the log
Lin(g) ==
  /\ pend[g] > 0
  /\ LET c == Log[pend[g]]
         a == S!Apply(kind, st, c) IN
     /\ S!Match(c, a.r, Log[c.rl].r) = TRUE
     /\ st' = a.st
  /\ pend' = [pend EXCEPT ![g] = -pend[g]]
  /\ UNCHANGED <<pos, rnd, kind>>

Return ==
  /\ Live
  /\ Log[pos].e = "ret"
  /\ pend[Log[pos].g] < 0
  /\ Log[-pend[Log[pos].g]].rl = pos
  /\ pend' = [pend EXCEPT ![Log[pos].g] = 0]
  /\ pos' = pos + 1
  /\ UNCHANGED <<rnd, kind, st>>

\* outcome of an unlogged bulk run (P19_NoLostUpdate)
Bulk ==
  /\ Live
  /\ Log[pos].e = "bulk"
  /\ S!BulkOK(Log[pos]) = TRUE        \* "= TRUE": evaluated as one state-level expression (a bare \A in an action is unfolded recursively by TLC)
  /\ pos' = pos + 1
  /\ UNCHANGED <<rnd, kind, st, pend>>

\* no action consumes {"e":"race"}: P19_NoRace

Mark(p) == IF p > TLCGet(1) THEN TLCSet(1, p) ELSE TRUE

Next ==
  /\ pos <= N
  /\ StartRound \/ SkipRound \/ Finish \/ Call \/ Return \/ Bulk \/ (\E g \in Gs : Lin(g))
  /\ Mark(pos')

Spec == Init /\ [][Next]_vars

\* the whole file was consumed (for AllowSkip = FALSE: every round of the file is linearizable)
Accepted == PrintT(<<"HW", TLCGet(1), N>>) /\ TLCGet(1) = N + 1
=============================================================================
