---------------------------- MODULE HelpersTrace ----------------------------
(***************************************************************************)
(* (T) for C20: validation of the observed table of the Go harness         *)
(* (harness/hlp, `vh helpers`).  Every line of trace.ndjson is one call    *)
(* (or one pair of merges) of the REAL helper functions with its input and *)
(* what came back; TLC evaluates the laws of Helpers.tla on every line.    *)
(* Lines are consumed in batches (one TLC step per batch); failing lines   *)
(* are printed as <<"VIOL", line, {predicates}>>, so the whole table is    *)
(* always examined; the last step prints <<"DONE", lines, violations,      *)
(* drift, counters>>.                                                      *)
(*                                                                         *)
(* "drift" = disagreement with the transcription on something the property *)
(* does not fix (which bit carries which flag inside the mask, the merge   *)
(* rule of the fields the statement does not mention): reported, no alarm. *)
(***************************************************************************)
EXTENDS Helpers, Json, TLC

CONSTANT Checked

Log == ndJsonDeserialize("trace.ndjson")
N == Len(Log)
Dom == Log[1].dom                  \* merge domain of the exhaustive table (line 1 is the header)
Batch == 512

CMOf(t) == [payable |-> t[1], upgradeable |-> t[2], readable |-> t[3]]
Ok(row) == row.res = "ok"

\* ---- merge rows: inputs by number into the domain, or inline
O0(row) == IF row.i >= 0 THEN Dom[row.i + 1] ELSE row.o
A0(row) == IF row.j >= 0 THEN Dom[row.j + 1] ELSE row.a
C0(row) == IF row.h >= 0 THEN Dom[row.h + 1] ELSE row.c
Both(row, Law(_, _, _)) == Ok(row) /\ Law(O0(row), A0(row), row.o1) /\ Law(row.o1, C0(row), row.o2)

AddrC(row) == [sys |-> row.sys, sc |-> row.sc, empty |-> row.empty, mid |-> row.mid, allowed |-> row.allowed, scm |-> row.scm]

Pred(name, row) ==
  CASE name = "P20_EncodeDecode" ->
         (row.k = "bytes" /\ Len(row.b) = 2) =>
            (Ok(row) /\ LawEncodeDecode(row.b, row.ce, CodeMask) /\ LawEncodeDecode(row.b, row.ge, GlobalMask) /\ LawEncodeDecode(row.b, row.ue, UserMask))
    [] name = "P20_DecodeEncode" ->
         row.k = "enc" =>
            (Ok(row) /\ LawDecodeEncode(CMOf(row.m), row.ce, CMOf(row.cb)) /\ LawDecodeEncode(row.m[1], row.ge, row.gb) /\ LawDecodeEncode(row.m[2], row.ue, row.ub))
    [] name = "P20_WrongLength" ->
         (row.k = "bytes" /\ Len(row.b) # 2) =>
            (Ok(row) /\ LawWrongLength(row.b, CMOf(row.cd), row.ce, CMEmpty) /\ LawWrongLength(row.b, row.gd, row.ge, FALSE) /\ LawWrongLength(row.b, row.ud, row.ue, FALSE))
    [] name = "P20_AddrTotal" -> row.k = "addr" => Ok(row)
    [] name = "P20_AddrConsistent" -> (row.k = "addr" /\ Ok(row)) => LawConsistent(row.s, row.ids, AddrC(row))
    [] name = "P20_AddrNamed" -> (row.k = "addr" /\ Ok(row)) => LawNamedAddresses(row.s, row.ids, AddrC(row))
    [] name = "P20_AddrDocumented" -> (row.k = "addr" /\ Ok(row)) => LawDocumented(row.s, row.ids, AddrC(row))
    [] name = "P20_MergeDelta" -> row.k = "merge" => Both(row, LawDelta)
    [] name = "P20_MergeNonce" -> row.k = "merge" => Both(row, LawNonce)
    [] name = "P20_MergeStorage" -> row.k = "merge" => Both(row, LawStorage)
    [] name = "P20_MergeTransfers" -> row.k = "merge" => Both(row, LawTransfers)
    [] name = "P20_MergeNoMutation" -> row.k = "merge" => (Ok(row) /\ row.aSame1 /\ row.aSame2 /\ row.cSame2)
    [] name = "P20_SafeSub" -> row.k = "sub" => (Ok(row) /\ LawSafeSub(row.x, row.y, [err |-> row.err, v |-> row.v], LimbBase))
    [] OTHER -> TRUE
Names == {"P20_EncodeDecode", "P20_DecodeEncode", "P20_WrongLength", "P20_AddrTotal", "P20_AddrConsistent", "P20_AddrNamed", "P20_AddrDocumented",
          "P20_MergeDelta", "P20_MergeNonce", "P20_MergeStorage", "P20_MergeTransfers", "P20_MergeNoMutation", "P20_SafeSub"}

\* ---- conformance with the transcription beyond the laws (drift)
SameAcct(r, m) ==
  /\ r.addr = m.addr /\ r.nonce = m.nonce /\ r.bal = m.bal /\ r.delta = m.delta /\ r.code = m.code /\ r.cm = m.cm
  /\ r.dep = m.dep /\ r.tr = m.tr /\ r.gas = m.gas /\ r.su.nil = m.su.nil /\ SuSet(r.su) = SuSet(m.su)
Conf(row) ==
  CASE row.k = "bytes" -> Ok(row) /\ CMOf(row.cd) = CodeMetadataFromBytes(row.b) /\ row.gd = ESDTGlobalMetadataFromBytes(row.b).paused
                          /\ row.ud = ESDTUserMetadataFromBytes(row.b).frozen
    [] row.k = "enc" -> Ok(row) /\ row.ce = CodeMetadataToBytes(CMOf(row.m)) /\ row.ge = ESDTGlobalMetadataToBytes([paused |-> row.m[1]])
                        /\ row.ue = ESDTUserMetadataToBytes([frozen |-> row.m[2]])
    [] row.k = "rdata" -> Ok(row) /\ FirstReturnDataOK(row.rd, row.kind, row.err, row.v, row.vs)
    [] row.k = "rcode" -> Ok(row) /\ row.vs = ReturnCodeName(row.kind)
    [] row.k = "merge" -> Ok(row) /\ NoBad(O0(row), A0(row), row.o1) /\ NoBad(row.o1, C0(row), row.o2)
                          /\ SameAcct(row.o1, MergeOutputAccounts(O0(row), A0(row))) /\ SameAcct(row.o2, MergeOutputAccounts(row.o1, C0(row)))
    [] OTHER -> TRUE

\* ---- what the table exercised
Counters == {"bytes2", "bytes_other", "bytes_maskedbit", "enc", "addr", "addr_sc", "addr_sys", "addr_meta", "addr_protected", "addr_empty", "addr_long",
             "merge", "merge_nil_delta", "merge_neg_delta", "merge_overlap", "merge_later_wins", "merge_prefix", "merge_appended", "merge_not_appended",
             "merge_nonce_raised", "merge_nonce_kept", "merge_scaled", "sub", "sub_underflow", "sub_equal", "sub_borrow"}
Cnt0 == [c \in Counters |-> 0]
Hit(c, row) ==
  CASE row.k = "bytes" ->
         \/ c = "bytes2" /\ Len(row.b) = 2
         \/ c = "bytes_other" /\ Len(row.b) # 2
         \/ c = "bytes_maskedbit" /\ Len(row.b) = 2 /\ MaskOf(row.b, CodeMask) # row.b
    [] row.k = "enc" -> c = "enc"
    [] row.k = "addr" ->
         \/ c = "addr"
         \/ c = "addr_sc" /\ row.sc
         \/ c = "addr_sys" /\ row.sys
         \/ c = "addr_meta" /\ \E j \in 1..Len(row.scm) : row.scm[j]
         \/ c = "addr_protected" /\ ~row.allowed
         \/ c = "addr_empty" /\ row.empty
         \/ c = "addr_long" /\ Len(row.s) > 32
    [] row.k = "merge" ->
         \/ c = "merge"
         \/ c = "merge_nil_delta" /\ (O0(row).delta.nil \/ A0(row).delta.nil)
         \/ c = "merge_neg_delta" /\ (O0(row).delta.q < 0 \/ A0(row).delta.q < 0)
         \/ c = "merge_overlap" /\ SuKeys(O0(row).su) \cap SuKeys(A0(row).su) # {}
         \/ c = "merge_later_wins" /\ \E x \in SuSet(O0(row).su) : x.k \in SuKeys(A0(row).su) /\ x \notin SuSet(A0(row).su)
         \/ c = "merge_prefix" /\ Len(O0(row).tr) > 0 /\ Len(O0(row).tr) < Len(A0(row).tr) /\ PrefixOf(O0(row).tr, A0(row).tr)
         \/ c = "merge_appended" /\ Len(row.o1.tr) > Len(O0(row).tr)
         \/ c = "merge_not_appended" /\ Len(A0(row).tr) > 0 /\ Len(row.o1.tr) = Len(O0(row).tr)
         \/ c = "merge_nonce_raised" /\ LimbLess(O0(row).nonce, A0(row).nonce)
         \/ c = "merge_nonce_kept" /\ LimbLess(A0(row).nonce, O0(row).nonce)
         \/ c = "merge_scaled" /\ row.scale # "1"
    [] row.k = "sub" ->
         \/ c = "sub"
         \/ c = "sub_underflow" /\ LimbLess(row.x, row.y)
         \/ c = "sub_equal" /\ row.x = row.y
         \/ c = "sub_borrow" /\ ~LimbLess(row.x, row.y) /\ \E i \in 1..4 : row.x[i] < row.y[i]
    [] OTHER -> FALSE

\* a counter only looks at the lines of its kind (the tables are sorted by kind, so most batches have one kind)
KindOf(c) ==
  IF c \in {"bytes2", "bytes_other", "bytes_maskedbit"} THEN "bytes"
  ELSE IF c = "enc" THEN "enc"
  ELSE IF c \in {"addr", "addr_sc", "addr_sys", "addr_meta", "addr_protected", "addr_empty", "addr_long"} THEN "addr"
  ELSE IF c \in {"sub", "sub_underflow", "sub_equal", "sub_borrow"} THEN "sub"
  ELSE "merge"
OfKind(k, lo, hi) == IF \A i \in lo..hi : Log[i].k # k THEN {} ELSE {i \in lo..hi : Log[i].k = k}

VARIABLES l, nviol, ndrift, cnt
tvars == <<l, nviol, ndrift, cnt>>

Init == l = 2 /\ nviol = 0 /\ ndrift = 0 /\ cnt = Cnt0

BadOf(i) == {p \in Names \cap Checked : ~Pred(p, Log[i])}

Step ==
  /\ l <= N
  /\ LET hi == IF l + Batch - 1 > N THEN N ELSE l + Batch - 1
         bad == {i \in l..hi : BadOf(i) # {}}
         dr == {i \in l..hi : ~Conf(Log[i])}
     IN \* the reports are evaluated inside the right-hand sides (as plain expressions): a quantifier that is itself a conjunct of the
        \* action is expanded recursively by TLC and overflows the Java stack for a batch of several hundred failing lines
        /\ nviol' = nviol + (IF \A i \in bad : PrintT(<<"VIOL", i, BadOf(i)>>)
                             THEN Cardinality({q \in bad \X (Names \cap Checked) : q[2] \in BadOf(q[1])}) ELSE 0)
        /\ ndrift' = ndrift + (IF \A i \in dr : PrintT(<<"DRIFT", i, Log[i].k>>) THEN Cardinality(dr) ELSE 0)
        /\ cnt' = [c \in Counters |-> cnt[c] + Cardinality({i \in OfKind(KindOf(c), l, hi) : Hit(c, Log[i])})]
        /\ l' = hi + 1

Next == Step
Spec == Init /\ [][Next]_tvars

\* the run examined the whole table
Finished == (l = N + 1) => PrintT(<<"DONE", N, nviol, ndrift, cnt>>)
=============================================================================
