---------------------------- MODULE Concurrency ----------------------------
(***************************************************************************)
(* Property C19.                                                           *)
(*                                                                         *)
(* Part 1 - SEQUENTIAL SPECIFICATIONS of the shared objects of the         *)
(* library: the map of container/mutexMap.go, the function container of    *)
(* builtInFunctions/container.go, the atomic flag / counter / registers of *)
(* atomic/*.go and the "priced function" (a built-in function seen as a    *)
(* register holding the schedule that prices it).  Each is an operator     *)
(*      Apply(kind, state, call) = [st |-> state', r |-> result]           *)
(* with exactly the return values / error classes of the Go code.          *)
(* LinTrace.tla uses them to decide whether a recorded concurrent history  *)
(* of the real code is linearizable.                                       *)
(*                                                                         *)
(* Part 2 - a MODEL OF THE LOCK PROTOCOL every priced built-in function    *)
(* follows (ProcessBuiltinFunction under mutExecution.RLock reading the    *)
(* base cost and the per-byte price in two separate steps;                 *)
(* SetNewGasConfig under mutExecution.Lock writing them in two separate    *)
(* steps): 2 executors, 1 repricer, 3 schedules.  Invariant OneSchedule:   *)
(* every execution's (base, per-byte) pair belongs to one schedule.  With  *)
(* the constant switch NoLock = TRUE the mutex is ignored and TLC must     *)
(* find the mixture (non-vacuity of the invariant).                        *)
(***************************************************************************)
EXTENDS Integers, Sequences, FiniteSets, TLC

---------------------------------------------------------------------------
(* Part 1: sequential specifications *)

Res(s, r) == [st |-> s, r |-> r]
ToSet(q)  == {q[i] : i \in DOMAIN q}
Without(m, k) == [x \in (DOMAIN m) \ {k} |-> m[x]]
With(m, k, v) == (k :> v) @@ m          \* the left operand of @@ wins: insert or overwrite
Void == 0                                \* logged result of operations that return nothing
Absent == -1                             \* logged for Go's nil interface value

\* ---- container/mutexMap.go: keys and values are opaque; c.k = key, c.v = value
MapApply(m, c) ==
  CASE c.op = "Get"    -> Res(m, IF c.k \in DOMAIN m THEN [v |-> m[c.k], ok |-> TRUE] ELSE [v |-> Absent, ok |-> FALSE])
    [] c.op = "Insert" -> IF c.k \in DOMAIN m THEN Res(m, FALSE) ELSE Res(With(m, c.k, c.v), TRUE)
    [] c.op = "Set"    -> Res(With(m, c.k, c.v), Void)
    [] c.op = "Remove" -> Res(Without(m, c.k), Void)
    [] c.op = "Len"    -> Res(m, Cardinality(DOMAIN m))
    [] c.op = "Keys"   -> Res(m, DOMAIN m)                       \* order not guaranteed: compared as a set of the right size
    [] c.op = "Values" -> Res(m, {m[x] : x \in DOMAIN m})        \* the drivers store pairwise distinct values

\* ---- builtInFunctions/container.go: c.k = function name (string), c.v = identity of the function object, 0 = nil
\* result classes: "nil" (no error) and "err" (refused: unknown key, nil element, empty name, name already there - WHICH reason a
\* refusal names is not part of the property)
ContApply(m, c) ==
  CASE c.op = "Get"     -> Res(m, IF c.k \in DOMAIN m THEN [id |-> m[c.k], err |-> "nil"] ELSE [id |-> 0, err |-> "err"])
    [] c.op = "Add"     -> IF c.v = 0 THEN Res(m, "err")
                           ELSE IF c.k = "" THEN Res(m, "err")
                           ELSE IF c.k \in DOMAIN m THEN Res(m, "err")
                           ELSE Res(With(m, c.k, c.v), "nil")
    [] c.op = "Replace" -> IF c.v = 0 THEN Res(m, "err")
                           ELSE IF c.k = "" THEN Res(m, "err")
                           ELSE Res(With(m, c.k, c.v), "nil")
    [] c.op = "Remove"  -> Res(Without(m, c.k), Void)
    [] c.op = "Len"     -> Res(m, Cardinality(DOMAIN m))
    [] c.op = "Keys"    -> Res(m, DOMAIN m)

\* ---- atomic/flag.go: state BOOLEAN; Set returns the PREVIOUS value; Toggle(b) is "set to b"
FlagApply(f, c) ==
  CASE c.op = "Set"    -> Res(TRUE, f)
    [] c.op = "Unset"  -> Res(FALSE, Void)
    [] c.op = "IsSet"  -> Res(f, f)
    [] c.op = "Toggle" -> Res(c.b, Void)

\* ---- atomic/counter.go: state Int (the drivers stay far from the int64 bounds); c.v = operand
CounterApply(n, c) ==
  CASE c.op = "Set"       -> Res(c.v, Void)
    [] c.op = "Increment" -> Res(n + 1, n + 1)
    [] c.op = "Decrement" -> Res(n - 1, n - 1)
    [] c.op = "Add"       -> Res(n + c.v, n + c.v)
    [] c.op = "Subtract"  -> Res(n - c.v, n - c.v)
    [] c.op = "Get"       -> Res(n, n)
    [] c.op = "GetUint64" -> Res(n, IF n < 0 THEN 0 ELSE n)
    [] c.op = "Reset"     -> Res(0, n)                            \* returns the previous value

\* ---- atomic/int64.go, uint32.go, uint64.go, string.go: read/write registers; values are opaque (logged as strings)
RegApply(x, c) ==
  CASE c.op = "Set" -> Res(c.v, Void)
    [] c.op = "Get" -> Res(x, x)

\* ---- a priced built-in function as a register holding "its" schedule k.
\* The drivers use schedules  base_k = 10^5 * k,  perByte_k = k  (all 22 entries derived from k), and know for every
\* execution its base multiplier c.m (1, or the number of transfers) and its priced byte count c.n (0 <= c.n < 10^4;
\* 0 for the functions whose price is the base cost alone).
MaxK == 9
Price(kb, kp, m, n) == m * 100000 * kb + n * kp
Decodes(charge, m, n) == {k \in 1..MaxK : charge = Price(k, k, m, n)}
\* the sentence of C19: "each execution is charged wholly by ONE schedule"
P19_OneSchedule(charge, m, n) == Decodes(charge, m, n) # {}
SchedApply(k, c) ==
  CASE c.op = "reprice" -> Res(c.k, Void)                         \* SetNewGasConfig of this function (inside GasScheduleChange)
    [] c.op = "exec"    -> Res(k, Price(k, k, c.m, c.n))          \* a successful execution returns the gas it consumed

RegKinds == {"i64", "u32", "u64", "str"}
Apply(kind, s, c) ==
  CASE kind = "map"      -> MapApply(s, c)
    [] kind = "cont"     -> ContApply(s, c)
    [] kind = "flag"     -> FlagApply(s, c)
    [] kind = "counter"  -> CounterApply(s, c)
    [] kind \in RegKinds -> RegApply(s, c)
    [] kind = "sched"    -> SchedApply(s, c)

\* initial state of a fresh object; flag / counter / registers / sched rounds log their initial value
InitState(kind, init) == IF kind \in {"map", "cont"} THEN << >> ELSE init

\* does the result computed by the sequential specification equal the logged return value?
Match(c, res, logged) ==
  IF c.op \in {"Keys", "Values"} THEN Len(logged) = Cardinality(res) /\ ToSet(logged) = res
  ELSE res = logged

\* ---- P19_NoLostUpdate on unlogged bulk runs (thousands of operations per goroutine, only the outcome is recorded)
\* counter: final value = initial value + sum of all adds; flag / register: the final value is the last write of some goroutine
\* (b.lasts = the last value written by each goroutine; for the map / container runs: the one size the disjoint key ranges must leave)
BulkOK(b) ==
  CASE b.obj = "counter" -> b.final = b.init + b.sum
    [] b.obj = "ticket"  -> b.final = b.init + b.ops /\ b.distinct = b.ops          \* Increment only: every call returned a different running total
    [] b.obj = "drain"   -> b.drained + b.final = b.sum                               \* Add and Reset mixed: what the Resets returned plus what is left = all adds
    [] b.obj = "tas"     -> b.winners = b.iters                                      \* flag as test-and-set: of the Sets racing for an unset flag exactly one returns "was unset"
    \* aggregate reads against a writer that moves one token between two keys (insert the other key, then remove the current one)
    \* next to b.static unchanged keys: every state of the sequential map holds the token and at least static + 1 keys (SnapStates
    \* below), so no linearizable Len / Keys / Values reports fewer keys or misses the token
    [] b.obj = "snap"    -> b.minlen >= b.static + 1 /\ b.missing = 0 /\ b.short = 0
    [] b.obj = "gas"     -> \A x \in ToSet(b.charges) : P19_OneSchedule(x.c, x.m, x.n) \* every distinct (charge, m, n) seen under repricing
    [] OTHER -> b.final \in ToSet(b.lasts)

\* the states the token-moving writer drives the sequential map through (two rounds of its program from {1 -> 1})
SnapProg == <<[op |-> "Insert", k |-> 2, v |-> 2], [op |-> "Remove", k |-> 1, v |-> 0], [op |-> "Insert", k |-> 1, v |-> 1], [op |-> "Remove", k |-> 2, v |-> 0],
             [op |-> "Insert", k |-> 2, v |-> 2], [op |-> "Remove", k |-> 1, v |-> 0]>>
RECURSIVE SnapStates(_, _)
SnapStates(m, i) == IF i > Len(SnapProg) THEN {m} ELSE {m} \cup SnapStates(MapApply(m, SnapProg[i]).st, i + 1)
ASSUME \A m \in SnapStates((1 :> 1), 1) : Cardinality(DOMAIN m) >= 1 /\ ({1, 2} \cap DOMAIN m) # {}

---------------------------------------------------------------------------
(* Part 2: the lock protocol of a priced function *)

CONSTANT NoLock                \* FALSE: RWMutex respected;  TRUE: executions and repricing ignore it

VARIABLES base, perByte,       \* the two fields of the function object: funcGasCost and gasConfig.<X>PerByte, as schedule numbers
          readers, writer,     \* the RWMutex: set of executors holding RLock, writer holds Lock
          epc, eb, ep,         \* executors: program counter, base read, per-byte read
          charged,             \* gas charged by the last completed execution of each executor (0 = none yet)
          rpc, rk              \* repricer: program counter, schedule being installed
lvars == <<base, perByte, readers, writer, epc, eb, ep, charged, rpc, rk>>

Execs == {1, 2}
Scheds == 1..3
ModelM == 1                    \* base multiplier and byte count of the modelled call
ModelN == 7

LInit ==
  /\ base = 1 /\ perByte = 1
  /\ readers = {} /\ writer = FALSE
  /\ epc = [e \in Execs |-> "idle"] /\ eb = [e \in Execs |-> 0] /\ ep = [e \in Execs |-> 0]
  /\ charged = [e \in Execs |-> 0]
  /\ rpc = "idle" /\ rk = 1

\* ProcessBuiltinFunction: mutExecution.RLock()
ERLock(e) ==
  /\ epc[e] = "idle"
  /\ NoLock \/ ~writer
  /\ readers' = IF NoLock THEN readers ELSE readers \cup {e}
  /\ epc' = [epc EXCEPT ![e] = "base"]
  /\ UNCHANGED <<base, perByte, writer, eb, ep, charged, rpc, rk>>
\* ... reads e.funcGasCost
EReadBase(e) ==
  /\ epc[e] = "base"
  /\ eb' = [eb EXCEPT ![e] = base]
  /\ epc' = [epc EXCEPT ![e] = "byte"]
  /\ UNCHANGED <<base, perByte, readers, writer, ep, charged, rpc, rk>>
\* ... reads e.gasConfig.StorePerByte (a separate memory access)
EReadByte(e) ==
  /\ epc[e] = "byte"
  /\ ep' = [ep EXCEPT ![e] = perByte]
  /\ epc' = [epc EXCEPT ![e] = "unlock"]
  /\ UNCHANGED <<base, perByte, readers, writer, eb, charged, rpc, rk>>
\* ... returns GasProvided - GasRemaining and releases the read lock
ERUnlock(e) ==
  /\ epc[e] = "unlock"
  /\ charged' = [charged EXCEPT ![e] = Price(eb[e], ep[e], ModelM, ModelN)]
  /\ readers' = readers \ {e}
  /\ epc' = [epc EXCEPT ![e] = "idle"]
  /\ UNCHANGED <<base, perByte, writer, eb, ep, rpc, rk>>

\* SetNewGasConfig: mutExecution.Lock()
RLockW ==
  /\ rpc = "idle"
  /\ NoLock \/ (readers = {} /\ ~writer)
  /\ writer' = IF NoLock THEN writer ELSE TRUE
  /\ \E k \in Scheds : rk' = k
  /\ rpc' = "base"
  /\ UNCHANGED <<base, perByte, readers, epc, eb, ep, charged>>
\* ... e.funcGasCost = gasCost.BuiltInCost.X
RWriteBase ==
  /\ rpc = "base"
  /\ base' = rk
  /\ rpc' = "byte"
  /\ UNCHANGED <<perByte, readers, writer, epc, eb, ep, charged, rk>>
\* ... e.gasConfig = gasCost.BaseOperationCost
RWriteByte ==
  /\ rpc = "byte"
  /\ perByte' = rk
  /\ rpc' = "unlock"
  /\ UNCHANGED <<base, readers, writer, epc, eb, ep, charged, rk>>
RUnlockW ==
  /\ rpc = "unlock"
  /\ writer' = FALSE
  /\ rpc' = "idle"
  /\ UNCHANGED <<base, perByte, readers, epc, eb, ep, charged, rk>>

LNext == (\E e \in Execs : ERLock(e) \/ EReadBase(e) \/ EReadByte(e) \/ ERUnlock(e)) \/ RLockW \/ RWriteBase \/ RWriteByte \/ RUnlockW
LSpec == LInit /\ [][LNext]_lvars

LTypeOK ==
  /\ base \in Scheds /\ perByte \in Scheds /\ readers \subseteq Execs /\ writer \in BOOLEAN
  /\ epc \in [Execs -> {"idle", "base", "byte", "unlock"}] /\ rpc \in {"idle", "base", "byte", "unlock"} /\ rk \in Scheds

\* every completed execution was charged wholly by one schedule (the same decoding operator the traces are checked with)
OneSchedule == \A e \in Execs : charged[e] # 0 => P19_OneSchedule(charged[e], ModelM, ModelN)
\* the mutex is what guarantees it: while an executor holds the read lock the two fields agree and do not move
HeldStable == \A e \in Execs : epc[e] \in {"byte", "unlock"} => (eb[e] = base /\ base = perByte)
MutualExclusion == ~(writer /\ readers # {})
=============================================================================
