------------------------------- MODULE EsdtMC -------------------------------
(***************************************************************************)
(* Exhaustive model checking of the ledger specification on a small world. *)
(* Next offers every call of a finite call domain (selected by the         *)
(* constant Fns) plus every delivery of an in-flight message; the state    *)
(* carries the history needed by the invariants.  All "direct" property    *)
(* predicates of StepProps are evaluated on every step of the model        *)
(* (viol must stay empty): this is the design-level proof obligation that  *)
(* the reference semantics itself has the listed properties within the     *)
(* bounds.  Only accepted calls and deliveries are explored: a rejected     *)
(* call leaves the model's world unchanged by construction (rollback).     *)
(***************************************************************************)
EXTENDS StepProps, Json

CONSTANTS Fns,        \* which functions Next offers
          MaxMsgs,    \* bound on in-flight messages
          MaxSupply,  \* bound on supply per key
          MaxCtr,     \* bound on NFT counters
          Hs,         \* the accounts that act as holders / callers
          FreezeAccts, \* accounts the system contract may freeze / unfreeze / wipe
          PauseToks, PauseShards,   \* tokens x shards the system contract may pause / unpause
          GasPoints,  \* the values of GasProvided offered for every call
          ExploreRejected, \* TRUE: rejected calls are explored too (totality of the reference operator)
          AccSample,  \* one in AccSample of the accepted transitions is emitted (1 = all; larger graphs are sampled)
          RejSample,  \* one in RejSample of the rejected near-miss calls is emitted as well
          EmitTransitions, \* TRUE: print every explored transition (pre-state, call, verdict) as JSON for state-injection replay
          Bugs,       \* defect switches (self-test)
          Checked     \* predicate names evaluated on every step

VARIABLES w, h, ev, viol
vars == <<cfg, w, h, ev, viol>>

AddrRec(hex, kind, shard, sc) == [hex |-> hex, kind |-> kind, shard |-> shard, sc |-> sc, meta |-> shard = -1, len |-> 32, dns |-> FALSE]
MCAddrs ==
  [ u0a |-> AddrRec("1021212121212121212121212121212121212121212121212121212121212100", "user", 0, FALSE),
    u0b |-> AddrRec("1122222222222222222222222222222222222222222222222222222222222200", "user", 0, FALSE),
    u1a |-> AddrRec("2021212121212121212121212121212121212121212121212121212121212101", "user", 1, FALSE),
    c1a |-> AddrRec("0000000000000000050090313131313131313131313131313131313131313101", "sc", 1, TRUE),
    d0  |-> [AddrRec("00000000000000000500d0444444444444444444444444444444444444444400", "sc", 0, TRUE) EXCEPT !.dns = TRUE],
    esdtsc |-> AddrRec("000000000000000000010000000000000000000000000000000000000002ffff", "esdtsc", -1, TRUE),
    sys |-> AddrRec("ffffffffffffffffffffffffffffffffffffffffffffffffffffffffffffffff", "sys", -1, FALSE) ]
MCCfg == [nshards |-> 2, s1 |-> TRUE, addrs |-> MCAddrs, enableChange |-> FALSE, bugs |-> Bugs]

Holders == Hs
TokF == "46"          \* fungible, issued
TokN == "4e"          \* NFT / SFT, issued
TokAlias == "4e01"    \* never issued: aliases (TokN, nonce 1)

EmptyAcct == [esdt |-> <<>>, roles |-> <<>>, ctr |-> <<>>, kv |-> <<>>, bad |-> <<>>, owner |-> "", uname |-> "", dev |-> 0, egld |-> 0]
Sched0 == [x \in {"B.ChangeOwnerAddress", "B.ClaimDeveloperRewards", "B.SaveUserName", "B.SaveKeyValue", "B.ESDTTransfer", "B.ESDTBurn",
                  "B.ESDTLocalMint", "B.ESDTLocalBurn", "B.ESDTNFTCreate", "B.ESDTNFTAddQuantity", "B.ESDTNFTBurn", "B.ESDTNFTTransfer",
                  "B.ESDTNFTChangeCreateOwner", "B.ESDTNFTMultiTransfer", "B.ESDTNFTAddURI", "B.ESDTNFTUpdateAttributes",
                  "O.StorePerByte", "O.ReleasePerByte", "O.DataCopyPerByte", "O.PersistPerByte", "O.CompilePerByte", "O.AoTPreparePerByte"} |->
             IF SubSeq(x, 1, 1) = "B" THEN 10 ELSE 1]

FEntry(v) == [EmptyEntry EXCEPT !.val = v]
W0 ==
  [ acct |-> [a \in DOMAIN MCAddrs \ {"sys"} |->
                CASE a = "u0a" -> [EmptyAcct EXCEPT !.esdt = (TokF :> FEntry(2)),
                                                   !.roles = (TokF :> <<RoleMint, RoleBurn>>) @@ (TokN :> <<RoleCreate, RoleAddQ, RoleNBurn, RoleAddURI, RoleUpd>>)]
                  [] a = "c1a" -> [EmptyAcct EXCEPT !.owner = "u1a", !.dev = 1]
                  [] OTHER -> EmptyAcct],
    paused |-> [s \in {"0", "1"} |-> <<>>],
    sysx |-> [s \in {"0", "1"} |-> <<>>],
    msgs |-> <<>>, nextId |-> 1, sched |-> Sched0,
    oracle |-> [a \in DOMAIN MCAddrs \ {"sys"} |-> IF a = "c1a" THEN "no" ELSE "yes"],
    epoch |-> 0 ]

Gas == 1000
\* constant-level argument constructors (the call domain is a constant: TLC evaluates it once)
NumArgC(n) == [h |-> NBHex(n), n |-> n, q |-> n, he |-> FALSE, ad |-> ""]
AddrArgC(a) == [h |-> MCAddrs[a].hex, n |-> WideN, q |-> Bad, he |-> FALSE, ad |-> a]
MkCall(fn, caller, rcpt, args, ct) ==
  [a |-> "exec", fn |-> fn, caller |-> caller, rcpt |-> rcpt, args |-> args, gas |-> Gas, gl |-> 0, ct |-> ct, rae |-> FALSE, cv |-> 0,
   snd |-> FALSE, dst |-> FALSE, sh |-> IF MCAddrs[caller].shard >= 0 THEN MCAddrs[caller].shard ELSE (IF rcpt = "sys" THEN 0 ELSE MCAddrs[rcpt].shard),
   pl |-> <<10, 10>>, mid |-> -1, dup |-> FALSE]

Amts == 0..2
Toks == {TokF, TokN, TokAlias}
Meta1 == <<RawArg("6e"), NumArgC(5), RawArg("68"), RawArg("61"), RawArg("75")>>   \* name, royalties, hash, attributes, one URI

Calls ==
  (IF "ESDTTransfer" \in Fns THEN
     {MkCall("ESDTTransfer", a, b, <<TokArg(t), NumArgC(q)>>, 0) : a \in Holders, b \in Holders, t \in {TokF, TokAlias}, q \in Amts}
     \cup {MkCall("ESDTTransfer", a, "c1a", <<TokArg(TokF), NumArgC(1), RawArg("66")>>, 0) : a \in {"u0a", "u1a"}}
   ELSE {})
  \cup (IF "ESDTTransfer" \in Fns THEN
     \* flagged return-after-error on the sender side (a callback moving funds), including more than the sender holds
     {[MkCall("ESDTTransfer", a, b, <<TokArg(TokF), NumArgC(q)>>, 2) EXCEPT !.rae = TRUE] : a \in Holders, b \in Holders, q \in 1..3}
   ELSE {})
  \cup (IF "issue" \in Fns THEN {MkCall("ESDTTransfer", "esdtsc", b, <<TokArg(TokF), NumArgC(1)>>, 0) : b \in {"u0b", "u1a"}} ELSE {})
  \cup (IF "ESDTNFTTransfer" \in Fns THEN
     {MkCall("ESDTNFTTransfer", a, a, <<TokArg(t), NumArgC(n), NumArgC(q), AddrArgC(b)>>, 0) :
        a \in Holders, b \in Holders, t \in {TokN, TokAlias}, n \in 0..2, q \in Amts}
   ELSE {})
  \cup (IF "ESDTNFTTransfer" \in Fns THEN
     \* with an attached call, to the contract on shard 1 (same shard for u1a, cross-shard for the others)
     {MkCall("ESDTNFTTransfer", a, a, <<TokArg(TokN), NumArgC(1), NumArgC(1), AddrArgC("c1a"), RawArg("66"), RawArg("01")>>, 0) : a \in Hs}
   ELSE {})
  \cup (IF "MultiESDTNFTTransfer" \in Fns THEN
     \* flagged return-after-error on the sender side: freeze and pause do not apply, the flags themselves must not move
     {[MkCall("MultiESDTNFTTransfer", a, a, <<AddrArgC(b), NumArgC(1), TokArg(TokF), NumArgC(0), NumArgC(q)>>, 0) EXCEPT !.rae = TRUE] : a \in Hs, b \in Hs, q \in 1..2}
   ELSE {})
  \cup (IF "MultiESDTNFTTransfer" \in Fns THEN
     \* the fungible key "46" named through the empty token id and nonce 0x46; the NFT key "4e01" named through "" and nonce 0x4e01
     {MkCall("MultiESDTNFTTransfer", a, a, <<AddrArgC(b), NumArgC(1), TokArg(""), NumArgC(n), NumArgC(1)>>, 0) : a \in Hs, b \in Hs, n \in {70, 19969}}
   ELSE {})
  \cup (IF "ESDTNFTTransfer" \in Fns THEN
     {MkCall("ESDTNFTTransfer", a, a, <<TokArg(""), NumArgC(n), NumArgC(1), AddrArgC(b)>>, 0) : a \in Hs, b \in Hs, n \in {70, 19969}}
   ELSE {})
  \cup (IF "MultiESDTNFTTransfer" \in Fns THEN
     {MkCall("MultiESDTNFTTransfer", a, a, <<AddrArgC("c1a"), NumArgC(1), TokArg(t), NumArgC(n), NumArgC(1), RawArg("66")>>, 0) : a \in Hs, t \in {TokF, TokN}, n \in 0..1}
   ELSE {})
  \cup (IF "MultiESDTNFTTransfer" \in Fns THEN
     {MkCall("MultiESDTNFTTransfer", a, a, <<AddrArgC(b), NumArgC(1), TokArg(t), NumArgC(n), NumArgC(q)>>, 0) :
        a \in Holders, b \in Holders, t \in Toks, n \in 0..1, q \in 1..2}
     \cup {MkCall("MultiESDTNFTTransfer", a, a, <<AddrArgC(b), NumArgC(2), TokArg(TokF), NumArgC(0), NumArgC(1), TokArg(t), NumArgC(n), NumArgC(1)>>, 0) :
        a \in {"u0a", "u1a"}, b \in Holders, t \in {TokF, TokN}, n \in 0..1}
   ELSE {})
  \cup (IF "mintburn" \in Fns THEN
     {MkCall(f, a, a, <<TokArg(t), NumArgC(q)>>, 0) : f \in {"ESDTLocalMint", "ESDTLocalBurn"}, a \in {"u0a", "u0b"}, t \in {TokF, TokN}, q \in Amts}
     \cup {MkCall("ESDTBurn", a, "esdtsc", <<TokArg(TokF), NumArgC(q)>>, 0) : a \in {"u0a", "u1a"}, q \in 1..2}
     \cup {[MkCall(f, "u0a", "u0a", <<TokArg(TokF), NumArgC(q)>>, 0) EXCEPT !.rae = TRUE] : f \in {"ESDTLocalBurn", "ESDTLocalMint"}, q \in 1..3}
     \cup {[MkCall("ESDTBurn", "u0a", "esdtsc", <<TokArg(TokF), NumArgC(q)>>, 0) EXCEPT !.rae = TRUE] : q \in 1..3}
   ELSE {})
  \cup (IF "create" \in Fns THEN
     {MkCall("ESDTNFTCreate", a, a, <<TokArg(TokN), NumArgC(q)>> \o Meta1, 0) : a \in Hs, q \in Amts}
     \cup {MkCall(f, a, a, <<TokArg(TokN), NumArgC(n), NumArgC(q)>>, 0) : f \in {"ESDTNFTAddQuantity", "ESDTNFTBurn"}, a \in Hs, n \in 0..2, q \in 1..2}
   ELSE {})
  \cup (IF "metaops" \in Fns THEN
     {MkCall(f, a, a, <<TokArg(TokN), NumArgC(1), RawArg("7a")>>, 0) : f \in {"ESDTNFTAddURI", "ESDTNFTUpdateAttributes"}, a \in Hs}
   ELSE {})
  \cup (IF "flags" \in Fns THEN
     {MkCall(f, "esdtsc", a, <<TokArg(TokF)>>, 0) : f \in {"ESDTFreeze", "ESDTUnFreeze", "ESDTWipe"}, a \in FreezeAccts}
     \cup {[MkCall(f, "esdtsc", "sys", <<TokArg(p[1])>>, 0) EXCEPT !.sh = p[2]] : f \in {"ESDTPause", "ESDTUnPause"}, p \in PauseToks \X PauseShards}
     \cup {MkCall("ESDTFreeze", "u0b", "u0a", <<TokArg(TokF)>>, 0), MkCall("ESDTPause", "u0b", "sys", <<TokArg(TokF)>>, 0)}
   ELSE {})
  \cup (IF "metadst" \in Fns THEN
     \* transfers addressed to the metachain (the ESDT system contract's address lives there): refused by all three functions
     {MkCall("ESDTTransfer", a, "esdtsc", <<TokArg(TokF), NumArgC(1)>>, 0) : a \in Hs}
     \cup {MkCall("ESDTNFTTransfer", a, a, <<TokArg(TokN), NumArgC(1), NumArgC(1), AddrArgC("esdtsc")>>, 0) : a \in Hs}
     \cup {MkCall("MultiESDTNFTTransfer", a, a, <<AddrArgC("esdtsc"), NumArgC(1), TokArg(t), NumArgC(n), NumArgC(1)>>, 0) : a \in Hs, t \in {TokF, TokN}, n \in 0..1}
   ELSE {})
  \cup (IF "nftflags" \in Fns THEN
     \* the system contract freezes / un-freezes ONE NFT holding: the key argument is token id || nonce bytes ("4e01" = (TokN, 1));
     \* the entry keeps its metadata, a frozen NFT does not move, a user attempting the same is refused
     {MkCall(f, "esdtsc", a, <<TokArg(TokAlias)>>, 0) : f \in {"ESDTFreeze", "ESDTUnFreeze"}, a \in FreezeAccts}
     \cup {MkCall("ESDTFreeze", "u0b", "u0a", <<TokArg(TokAlias)>>, 0)}
     \* a holder moves the item under the return-after-error flag (freeze and pause do not apply; the flag itself must stay where it is)
     \cup {[MkCall("ESDTNFTTransfer", a, a, <<TokArg(TokN), NumArgC(1), NumArgC(1), AddrArgC(b)>>, 0) EXCEPT !.rae = TRUE] : a \in Hs, b \in Hs}
   ELSE {})
  \cup (IF "roles" \in Fns THEN
     {MkCall("ESDTSetRole", "esdtsc", a, <<TokArg(TokF), RawArg(r)>>, 0) : a \in {"u0b"}, r \in {RoleMint, RoleBurn}}
     \cup {MkCall("ESDTUnSetRole", "esdtsc", a, <<TokArg(TokF), RawArg(r)>>, 0) : a \in {"u0a", "u0b"}, r \in {RoleMint, RoleBurn}}
     \cup {MkCall("ESDTSetRole", "u0b", "u0b", <<TokArg(TokF), RawArg(RoleMint)>>, 0)}
   ELSE {})
  \cup (IF "nftroles" \in Fns THEN
     \* the NFT roles of the first holder are taken away and given back one at a time (every subset of them becomes reachable)
     {MkCall(f, "esdtsc", "u0a", <<TokArg(TokN), RawArg(r)>>, 0) : f \in {"ESDTSetRole", "ESDTUnSetRole"}, r \in {RoleAddQ, RoleNBurn, RoleAddURI, RoleUpd}}
   ELSE {})
  \cup (IF "handover" \in Fns THEN
     {MkCall("ESDTNFTCreateRoleTransfer", "esdtsc", a, <<TokArg(TokN), AddrArgC(b)>>, 0) : a \in {"u0a", "u0b", "u1a"}, b \in {"u0a", "u0b", "u1a"}}
   ELSE {})
  \cup (IF "acct" \in Fns THEN
     {MkCall("ChangeOwnerAddress", a, "c1a", <<AddrArgC(b)>>, 0) : a \in {"u1a", "u0a"}, b \in {"u0a", "u1a"}}
     \cup {MkCall("ClaimDeveloperRewards", a, "c1a", <<>>, 0) : a \in {"u1a", "u0a"}}
     \cup {MkCall("SetUserName", a, "u0a", <<RawArg("6e")>>, 0) : a \in {"d0", "u0b"}}
     \cup {MkCall("SetUserName", "d0", "u1a", <<RawArg("6e")>>, 0)}
   ELSE {})
  \cup (IF "kv" \in Fns THEN
     {MkCall("SaveKeyValue", a, b, <<RawArg(k), RawArg(v)>>, 0) : a \in {"u0a", "c1a"}, b \in {"u0a", "c1a"},
        k \in {"6b", "454c524f4e44", "454c524f4e4465736474" \o TokF, "454c524f4e", "454c524f4e4421"}, v \in {"", "76"}}
   ELSE {})

\* the discipline of the system contract: the create role has one holder; hand-over only from the holder, never to itself
Disciplined(c) ==
  /\ (c.fn = "ESDTSetRole" /\ c.caller = ESDTSC) => \A i \in 2..Len(c.args) : ~(c.args[i].h \in Range(RolesOf(w.acct[c.rcpt], c.args[1].h)))
  \* an NFT key is frozen / un-frozen only where the holding exists (a flag put under a nonce that is not issued yet would be
  \* overwritten by the create that issues it: the system contract has no reason to do that and the drivers never do)
  /\ (c.fn \in {"ESDTFreeze", "ESDTUnFreeze"} /\ c.caller = ESDTSC /\ c.args[1].h = TokAlias) => TokAlias \in DOMAIN w.acct[c.rcpt].esdt
  /\ c.fn = "ESDTNFTCreateRoleTransfer" =>
    /\ RoleCreate \in Range(RolesOf(w.acct[c.rcpt], c.args[1].h))
    /\ c.args[2].ad # c.rcpt
    /\ ~\E i \in 1..Len(w.msgs) : w.msgs[i].fn = "ESDTNFTCreateRoleTransfer"

\* cheap necessary conditions for acceptance (pure pruning: implied by Exec(w, c).ok)
Pre(c) ==
  /\ (c.fn \in TokenFns /\ c.caller # ESDTSC) => DOMAIN w.acct[c.caller].esdt # {}
  /\ (c.fn \in RoleGated) => DOMAIN w.acct[c.caller].roles # {}
  /\ (c.fn = "ESDTBurn") => DOMAIN w.acct[c.caller].esdt # {}

MkEv(c, r, kind) ==
  [c EXCEPT !.a = kind] @@
  [res |-> IF r.ok THEN "ok" ELSE "err", gr |-> r.gr, fwd |-> SumSeq([i \in 1..Len(r.out) |-> IF r.out[i].tx THEN 0 ELSE r.out[i].gas]),
   out |-> r.out, ret |-> r.ret, retn |-> IF r.ok /\ c.fn = "ESDTNFTCreate" THEN CtrOf(w.acct[c.caller], c.args[1].h) + 1 ELSE 0,
   err |-> "", gascls |-> "", x |-> <<>>, par |-> [ok |-> FALSE, panic |-> FALSE, rcv |-> "", items |-> <<>>, callfn |-> "", callargs |-> <<>>]]

Bounded(w2, h2) ==
  /\ Len(w2.msgs) <= MaxMsgs
  /\ \A k \in DOMAIN h2.supply : h2.supply[k] <= MaxSupply
  /\ \A a \in Accts(w2) : \A t \in DOMAIN w2.acct[a].ctr : w2.acct[a].ctr[t] <= MaxCtr
  /\ \A a \in Accts(w2) : \A k \in DOMAIN w2.acct[a].esdt : Len(w2.acct[a].esdt[k].meta.uris) <= 2

DirectNames == {"P03_Denied", "P02_FreshNonce", "P04_FlagTakesEffect", "P01_DeliveryNominal", "P16_Price", "P10_RoundTrip", "P10_Accepted", "P11_ShapeVerdict", "P01_FailKeeps", "P02_Others", "P02_NoOverdraft", "P03_Authority", "P04_Immobile", "P04_NoCreditWhilePaused", "P04_FlagOnly",
                "P05_Protected", "P05_KVExact", "P05_Frame", "P06_NoGasCreated", "P07_ReturnedNonce", "P07_CtrOnlyByCreate", "P08_Create",
                "P08_OnlyUriAttr", "P08_WrongHash", "P09_Admissible", "P09_Rejected"}
StepPred(name, wp, e, w2, hp, r) ==
  CASE name = "P01_FailKeeps" -> P01_FailKeeps(wp, e, w2, hp, r) [] name = "P02_Others" -> P02_Others(wp, e, w2, hp, r)
    [] name = "P02_NoOverdraft" -> P02_NoOverdraft(wp, e, w2, hp, r) [] name = "P03_Authority" -> P03_Authority(wp, e, w2, hp, r)
    [] name = "P04_Immobile" -> P04_Immobile(wp, e, w2, hp, r) [] name = "P04_NoCreditWhilePaused" -> P04_NoCreditWhilePaused(wp, e, w2, hp, r)
    [] name = "P04_FlagOnly" -> P04_FlagOnly(wp, e, w2, hp, r) [] name = "P05_Protected" -> P05_Protected(wp, e, w2, hp, r)
    [] name = "P05_KVExact" -> P05_KVExact(wp, e, w2, hp, r, r) [] name = "P05_Frame" -> P05_Frame(wp, e, w2, hp, r)
    [] name = "P06_NoGasCreated" -> P06_NoGasCreated(wp, e, w2, hp, r) [] name = "P07_ReturnedNonce" -> P07_ReturnedNonce(wp, e, w2, hp, r)
    [] name = "P07_CtrOnlyByCreate" -> P07_CtrOnlyByCreate(wp, e, w2, hp, r) [] name = "P08_Create" -> P08_Create(wp, e, w2, hp, r)
    [] name = "P08_OnlyUriAttr" -> P08_OnlyUriAttr(wp, e, w2, hp, r) [] name = "P08_WrongHash" -> P08_WrongHash(wp, e, w2, hp, r)
    [] name = "P09_Admissible" -> P09_Admissible(wp, e, w2, hp, r) [] name = "P09_Rejected" -> P09_Rejected(wp, e, w2, hp, r)
    [] name = "P16_Price" -> P16_Price(wp, e, w2, hp, r) [] name = "P10_RoundTrip" -> P10_RoundTrip(wp, e, w2, hp, r)
    [] name = "P10_Accepted" -> P10_Accepted(wp, e, w2, hp, r) [] name = "P11_ShapeVerdict" -> P11_ShapeVerdict(wp, e, w2, hp, r)
    [] name = "P01_DeliveryNominal" -> P01_DeliveryNominal(wp, e, w2, hp, r)
    [] name = "P04_FlagTakesEffect" -> P04_FlagTakesEffect(wp, e, w2, hp, r)
    [] name = "P03_Denied" -> P03_Denied(wp, e, w2, hp, r) [] name = "P02_FreshNonce" -> P02_FreshNonce(wp, e, w2, hp, r)
    [] OTHER -> TRUE

Finish(c, r, kind) ==
  LET e == MkEv(c, r, kind)
      h2 == HistT(HistStep(h, w, e), e, r.w) IN
  /\ Bounded(r.w, h2)
  /\ w' = r.w /\ h' = h2 /\ cfg' = cfg
  /\ ev' = [a |-> e.a, fn |-> e.fn, caller |-> e.caller, rcpt |-> e.rcpt, res |-> e.res, sh |-> e.sh, gas |-> e.gas, ct |-> e.ct, mid |-> e.mid, rae |-> e.rae,
            args |-> [i \in 1..Len(e.args) |-> IF e.args[i].he THEN "" ELSE e.args[i].h]]   \* enough to replay the step on the real code
  /\ viol' = {n \in DirectNames \cap Checked : ~StepPred(n, w, e, r.w, h, r)}
  /\ ((EmitTransitions /\ ((r.ok /\ (AccSample = 1 \/ RandomElement(1..AccSample) = 1)) \/ (~r.ok /\ kind = "deliver")
                                \/ (~r.ok /\ kind = "exec" /\ Pre(c) /\ RandomElement(1..RejSample) = 1))) => PrintT(<<"TRANS", ToJson([w |-> w, res |-> e.res,
                                c |-> [a |-> e.a, fn |-> e.fn, caller |-> e.caller, rcpt |-> e.rcpt, res |-> e.res, sh |-> e.sh, gas |-> e.gas, ct |-> e.ct, mid |-> e.mid, rae |-> e.rae,
                                       args |-> [i \in 1..Len(e.args) |-> IF e.args[i].he THEN "" ELSE e.args[i].h]]])>>))

DoExec == \E c0 \in Calls, g \in GasPoints :
            LET c == [c0 EXCEPT !.gas = g] IN
            (ExploreRejected \/ Pre(c)) /\ Disciplined(c) /\
            LET r == Exec(w, c) IN ~r.unk /\ (ExploreRejected \/ r.ok) /\ Finish([c EXCEPT !.snd = SndPresent(c), !.dst = DstPresent(c)], r, "exec")

\* the node offers a new gas schedule: a complete one is adopted, an incomplete one is ignored
Sched1 == [x \in DOMAIN Sched0 |-> IF SubSeq(x, 1, 1) = "B" THEN 7 ELSE 2]
DoSched == "sched" \in Fns /\ \E sc \in {Sched0, Sched1} : sc # w.sched /\ w' = [w EXCEPT !.sched = sc] /\ UNCHANGED <<cfg, h>> /\ viol' = {}
              /\ ev' = [a |-> "sched", fn |-> (IF sc = Sched0 THEN "0" ELSE "1"), caller |-> "", rcpt |-> "", res |-> "ok", sh |-> 0, gas |-> 0, ct |-> 0, mid |-> -1, rae |-> FALSE, args |-> <<>>]

DoDeliver ==
  \E i \in 1..Len(w.msgs) : ~w.msgs[i].dead /\
     LET m == w.msgs[i]
         r == Deliver(w, m.id, FALSE)
         c == [DeliverCall(m) EXCEPT !.snd = FALSE, !.dst = TRUE] @@ [a |-> "deliver", mid |-> m.id, dup |-> FALSE] IN
     ~r.unk /\ Finish(c, r, "deliver")

\* "delivered twice" (DESIGN.md 7.2): a hand-over message delivered again at once (at-least-once delivery with an immediate retry).
\* One model step: first delivery (the message stays in flight), second delivery (it is consumed); the step predicates see the pair
\* as one delivery, and the world it leaves must be the world ONE delivery leaves (Assert: a design-level claim of the reference)
DoDeliverTwice ==
  "handover" \in Fns /\ \E i \in 1..Len(w.msgs) : ~w.msgs[i].dead /\ w.msgs[i].fn = "ESDTNFTCreateRoleTransfer" /\
     LET m == w.msgs[i]
         r1 == Deliver(w, m.id, TRUE)
         once == Deliver(w, m.id, FALSE) IN
     ~r1.unk /\ r1.ok /\
     LET r2 == Deliver(r1.w, m.id, FALSE)
         c == [DeliverCall(m) EXCEPT !.snd = FALSE, !.dst = TRUE] @@ [a |-> "deliver", mid |-> m.id, dup |-> FALSE] IN
     ~r2.unk /\ Assert(r2.ok /\ r2.w = once.w, "a hand-over message delivered twice in a row does not leave what one delivery leaves") /\ Finish(c, r2, "deliver")

Init == cfg = MCCfg /\ w = W0 /\ h = [supply |-> (TokF :> 2), tsupply |-> (TokF :> 2), maxn |-> <<>>, made |-> {}, flagged |-> {}] /\ ev = [a |-> "init", fn |-> "", caller |-> "", rcpt |-> "", res |-> "ok", sh |-> 0, gas |-> 0, ct |-> 0, mid |-> -1, rae |-> FALSE, args |-> <<>>] /\ viol = {}
Next == DoExec \/ DoDeliver \/ DoDeliverTwice \/ DoSched
Spec == Init /\ [][Next]_vars

---------------------------------------------------------------------------
\* invariants
InvNoViol == viol = {}
InvConservation == Conservation(w, h)
InvTransferConservation == TransferConservation(w, h)
InvNoNegative == NoNegative(w)
InvWellFormed == WellFormed(w, h)
InvSysClean == SysClean(w)
\* the nonces in circulation for a token never exceed the highest issued one, and no (token, nonce) was made twice
InvNonces == \A a \in Accts(w) : \A k \in DOMAIN w.acct[a].esdt :
                w.acct[a].esdt[k].hm => w.acct[a].esdt[k].meta.nonce <= MaxN(h, SubSeq(k, 1, Len(k) - Len(NBHex(w.acct[a].esdt[k].meta.nonce))))
\* message ids and the id counter are bookkeeping: hidden from the fingerprint (viol stays visible: a state reached by a
\* violating step is a new state even when the world is unchanged)
View == <<[w EXCEPT !.nextId = 0, !.msgs = [i \in 1..Len(w.msgs) |-> [w.msgs[i] EXCEPT !.id = 0]]], h, viol>>
=============================================================================
