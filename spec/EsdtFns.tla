------------------------------ MODULE EsdtFns ------------------------------
(***************************************************************************)
(* One operator per ProcessBuiltinFunction; guards in code order.          *)
(* c = [fn, caller, rcpt, args, gas, gl, ct, rae, cv, snd, dst, sh, pl]    *)
(***************************************************************************)
EXTENDS Esdt

A(c, i) == c.args[i]          \* 1-based: A(c,1) is Go's Arguments[0]
NA(c) == Len(c.args)

---------------------------------------------------------------------------
ClaimDeveloperRewards(w, c) ==
  IF c.cv # 0 THEN Err(w) ELSE
  LET cost == Cost(w, "ClaimDeveloperRewards")
      g == GR(c.snd, c.gas, cost) IN
  IF ~c.dst THEN Ok(w, g) ELSE
  LET d == w.acct[c.rcpt] IN
  IF c.caller # d.owner THEN Err(w)
  ELSE IF c.gas < cost THEN Err(w)
  ELSE LET v == d.dev
           w1 == [w EXCEPT !.acct[c.rcpt].dev = 0]
           async == c.ct = 1
           out == [Msg("", c.caller, c.caller, <<>>, v, IF async THEN g ELSE 0, IF async THEN 2 ELSE 0) EXCEPT !.gl = IF async THEN c.gl ELSE 0]
           g2 == IF async THEN 0 ELSE g IN
       IF ~c.snd THEN OkOut(w1, g2, <<out>>)
       ELSE LET w2 == [w1 EXCEPT !.acct[c.caller].egld = @ + v] IN
            OkOut(w2, g2, IF IsSC(c.caller) THEN <<>> ELSE <<out>>)

ChangeOwnerAddress(w, c) ==
  IF NA(c) = 0 THEN Err(w)
  ELSE IF c.cv # 0 THEN Err(w)
  ELSE IF BLen(A(c,1).h) # ALen(c.caller) THEN Err(w)
  ELSE LET cost == Cost(w, "ChangeOwnerAddress") IN
  IF c.gas < cost THEN Err(w) ELSE
  LET g == GR(c.snd, c.gas, cost) IN
  IF ~c.dst THEN Ok(w, g)
  ELSE IF c.caller # w.acct[c.rcpt].owner THEN Err(w)
  ELSE IF BLen(A(c,1).h) # ALen(c.rcpt) THEN Err(w)
  ELSE Ok([w EXCEPT !.acct[c.rcpt].owner = NameOfArg(A(c,1))], g)

SetUserName(w, c) ==
  IF c.cv # 0 THEN Err(w) ELSE
  LET cost == Cost(w, "SaveUserName") IN
  IF c.gas < cost THEN Err(w)
  ELSE IF ~cfg.addrs[c.caller].dns THEN Err(w)
  ELSE IF NA(c) # 1 THEN Err(w)
  ELSE IF ~c.dst THEN
         OkOut(w, 0, <<[Msg("SetUserName", c.caller, c.rcpt, <<A(c,1)>>, 0, c.gas, 1) EXCEPT !.gl = c.gl]>>)
  ELSE IF ~cfg.enableChange /\ w.acct[c.rcpt].uname # "" THEN Err(w)
  ELSE Ok([w EXCEPT !.acct[c.rcpt].uname = A(c,1).h], c.gas - cost)

---------------------------------------------------------------------------
\* SaveKeyValue: st = [use, w, fail]
RECURSIVE KVLoop(_, _, _)
KVLoop(c, i, st) ==
  IF st.fail \/ i > NA(c) THEN st ELSE
  LET key == A(c, i).h
      val == A(c, i + 1).h
      use1 == st.use + (BLen(key) + BLen(val)) * Base(st.w, "PersistPerByte") IN
  IF Protected(key) THEN [st EXCEPT !.fail = TRUE]
  ELSE LET kv == st.w.acct[c.caller].kv
           old == IF key \in DOMAIN kv THEN kv[key] ELSE "" IN
       IF old = val THEN KVLoop(c, i + 2, [st EXCEPT !.use = use1])
       ELSE LET use2 == use1 + Base(st.w, "StorePerByte") * Max(0, BLen(val) - BLen(old)) IN
            IF c.gas < use2 THEN [st EXCEPT !.fail = TRUE]
            ELSE LET w2 == IF val = "" THEN [st.w EXCEPT !.acct[c.caller].kv = Del(@, key)]
                                       ELSE [st.w EXCEPT !.acct[c.caller].kv = Put(@, key, val)] IN
                 KVLoop(c, i + 2, [use |-> use2, w |-> w2, fail |-> FALSE])

SaveKeyValue(w, c) ==
  IF NA(c) < 2 \/ NA(c) % 2 # 0 THEN Err(w)
  ELSE IF c.cv # 0 THEN Err(w)
  ELSE IF ~c.snd THEN Err(w)
  ELSE IF c.caller # c.rcpt THEN Err(w)
  ELSE IF IsSC(c.caller) THEN Err(w)
  ELSE LET st == KVLoop(c, 1, [use |-> Cost(w, "SaveKeyValue"), w |-> w, fail |-> FALSE]) IN
       IF st.fail THEN Err(w)
       ELSE IF c.gas < st.use /\ ~BugOn("D6") THEN Err(w)
       ELSE IF c.gas < st.use THEN Ok(st.w, HugeGas)
       ELSE Ok(st.w, c.gas - st.use)

---------------------------------------------------------------------------
PauseFn(w, c, flag) ==
  IF c.cv # 0 THEN Err(w)
  ELSE IF NA(c) # 1 THEN Err(w)
  ELSE IF c.caller # ESDTSC THEN Err(w)
  ELSE IF ~IsSys(c.rcpt) THEN Err(w)
  ELSE Ok([w EXCEPT !.paused[ShStr(c.sh)] = Put(@, A(c,1).h, IF flag THEN "0100" ELSE "0000")], 0)

FreezeFn(w, c, mode) ==       \* mode: "freeze" | "unfreeze" | "wipe"
  IF c.cv # 0 THEN Err(w)
  ELSE IF NA(c) # 1 THEN Err(w)
  ELSE IF c.caller # ESDTSC THEN Err(w)
  ELSE IF ~c.dst THEN Err(w)
  ELSE LET k == A(c,1).h
           ac == w.acct[c.rcpt] IN
       IF Undecodable(ac, k) THEN Err(w) ELSE
       LET e == GetE(ac, k) IN
       IF mode = "wipe" THEN
          IF ~FlagSet(e.props) THEN Err(w) ELSE Ok(DelE(w, c.rcpt, k), 0)
       ELSE LET p == IF mode = "freeze" THEN "0100" ELSE "0000" IN
            IF e.val = 0 /\ AllZero(p) THEN Ok(DelE(w, c.rcpt, k), 0)
            ELSE Ok(SetE(w, c.rcpt, k, [e EXCEPT !.props = p]), 0)

RolesFn(w, c, set) ==
  IF Basic(c) THEN Err(w)
  ELSE IF c.caller # ESDTSC THEN Err(w)
  ELSE IF ~c.dst THEN Err(w)
  ELSE LET tok == A(c,1).h
           ac == w.acct[c.rcpt] IN
       IF RolesUndecodable(ac, tok) THEN Err(w) ELSE
       LET cur == RolesOf(ac, tok)
           given == [i \in 1..(NA(c) - 1) |-> A(c, i + 1).h]
           new == IF set THEN cur \o given ELSE DelEach(cur, given) IN
       Ok(SetRoles(w, c.rcpt, tok, new), 0)

---------------------------------------------------------------------------
ESDTTransfer(w, c) ==
  IF Basic(c) THEN Err(w)
  ELSE IF IsMetaA(c.rcpt) THEN Err(w)
  ELSE LET v == A(c,2).q IN
  IF v = Bad THEN Unk(w)
  ELSE IF v <= 0 THEN Err(w) ELSE
  LET cost == Cost(w, "ESDTTransfer")
      g == GR(c.snd, c.gas, cost)
      k == A(c,1).h
      r1 == IF c.snd THEN (IF c.gas < cost THEN F(w) ELSE AddBal(w, c.sh, c.caller, k, 0 - v, c.rae)) ELSE T(w) IN
  IF ~r1.ok THEN Err(w) ELSE
  LET scAfter == IsSC(c.rcpt) /\ NA(c) > 2 IN
  IF c.dst THEN
     IF MustVerify(c, 2) /\ ~PayableOK(r1.w, c.rcpt) THEN Err(w) ELSE
     LET r2 == AddBal(r1.w, c.sh, c.rcpt, k, v, c.rae) IN
     IF ~r2.ok THEN Err(w)
     ELSE IF scAfter THEN
            LET g2 == IF c.gas < cost THEN 0 ELSE c.gas - cost IN
            OkOut(r2.w, 0, <<[OutCall(c, A(c,3), Drop(c.args, 3), c.rcpt, g2) EXCEPT !.gl = c.gl]>>)
     ELSE IF c.ct = 2 /\ ~c.snd THEN Ok(r2.w, c.gas)
     ELSE Ok(r2.w, g)
  ELSE IF IsSC(c.caller) THEN
     OkOut(r1.w, 0, <<[Msg("ESDTTransfer", c.caller, c.rcpt, c.args, 0, g, c.ct) EXCEPT !.gl = c.gl]>>)
  ELSE Ok(r1.w, g)

ESDTBurn(w, c) ==
  IF Basic(c) THEN Err(w)
  ELSE IF NA(c) # 2 THEN Err(w)
  ELSE LET v == A(c,2).q IN
  IF v = Bad THEN Unk(w)
  ELSE IF v <= 0 THEN Err(w)
  ELSE IF c.rcpt # ESDTSC THEN Err(w)
  ELSE IF ~c.snd THEN Err(w)
  ELSE LET cost == Cost(w, "ESDTBurn") IN
  IF c.gas < cost THEN Err(w) ELSE
  LET r == AddBal(w, c.sh, c.caller, A(c,1).h, 0 - v, c.rae) IN
  IF ~r.ok THEN Err(w)
  ELSE IF IsSC(c.caller) THEN
     OkOut(r.w, 0, <<[Msg("ESDTBurn", c.caller, c.rcpt, c.args, 0, c.gas - cost, c.ct) EXCEPT !.gl = c.gl]>>)
  ELSE Ok(r.w, c.gas - cost)

LocalFn(w, c, mint) ==
  IF Basic(c) THEN Err(w)
  ELSE IF c.caller # c.rcpt THEN Err(w)
  ELSE IF ~c.snd THEN Err(w)
  ELSE LET v == A(c,2).q IN
  IF v = Bad THEN Unk(w)
  ELSE IF v <= 0 THEN Err(w) ELSE
  LET cost == Cost(w, IF mint THEN "ESDTLocalMint" ELSE "ESDTLocalBurn") IN
  IF c.gas < cost THEN Err(w)
  ELSE IF ~Allowed(w, c.caller, A(c,1).h, IF mint THEN RoleMint ELSE RoleBurn) THEN Err(w)
  ELSE IF mint /\ BLen(A(c,2).h) > 100 THEN Err(w)
  ELSE LET r == AddBal(w, c.sh, c.caller, A(c,1).h, IF mint THEN v ELSE 0 - v, c.rae) IN
       IF ~r.ok THEN Err(w) ELSE Ok(r.w, c.gas - cost)

---------------------------------------------------------------------------
\* the guards shared by create / add quantity / burn / add URI / update attributes
NFTInputBad(w, c, cost) == Basic(c) \/ c.caller # c.rcpt \/ ~c.snd \/ c.gas < cost

RECURSIVE SumLens(_, _)
SumLens(args, from) == IF from > Len(args) THEN 0 ELSE BLen(args[from].h) + SumLens(args, from + 1)

ESDTNFTCreate(w, c) ==
  LET cost == Cost(w, "ESDTNFTCreate") IN
  IF NFTInputBad(w, c, cost) THEN Err(w)
  ELSE IF NA(c) < 7 THEN Err(w)
  ELSE LET tok == A(c,1).h IN
  IF ~Allowed(w, c.caller, tok, RoleCreate) THEN Err(w) ELSE
  LET n == CtrOf(w.acct[c.caller], tok)
      use == cost + Base(w, "StorePerByte") * SumLens(c.args, 1) IN
  IF n < 0 THEN Unk(w)
  ELSE IF c.gas < use THEN Err(w)
  ELSE IF A(c,4).n < 0 THEN Unk(w)
  ELSE IF A(c,4).n > 10000 THEN Err(w)
  ELSE LET q == A(c,2).q IN
  IF q = Bad THEN Unk(w)
  ELSE IF q <= 0 THEN Err(w)
  ELSE IF MoreThanOne(q) /\ ~Allowed(w, c.caller, tok, RoleAddQ) THEN Err(w)
  ELSE LET e == [type |-> 1, val |-> q, props |-> "", hm |-> TRUE, res |-> "",
                 meta |-> [nonce |-> n + 1, name |-> A(c,3).h, creator |-> c.caller, roy |-> A(c,4).n, hash |-> A(c,5).h,
                           attrs |-> A(c,6).h, uris |-> [i \in 1..(NA(c) - 6) |-> A(c, i + 6).h]]]
           r == SaveNFT(w, c.sh, c.caller, tok, e, c.rae) IN
       IF ~r.ok THEN Err(w)
       ELSE R(TRUE, SetCtr(r.w, c.caller, tok, n + 1), c.gas - use, <<>>, <<NBHex(n + 1)>>)

\* getESDTNFTTokenOnSender: [ok, e]
GetOnSender(w, a, tok, n) ==
  LET k == tok \o NBHex(n)
      ac == w.acct[a] IN
  IF Undecodable(ac, k) \/ ~(k \in DOMAIN ac.esdt) THEN [ok |-> FALSE, e |-> EmptyEntry]
  ELSE [ok |-> TRUE, e |-> ac.esdt[k]]

\* mode: "addq" | "burn" | "uri" | "attr"
NFTRoleFn(w, c, mode) ==
  LET name == CASE mode = "addq" -> "ESDTNFTAddQuantity" [] mode = "burn" -> "ESDTNFTBurn"
                [] mode = "uri" -> "ESDTNFTAddURI" [] OTHER -> "ESDTNFTUpdateAttributes"
      role == CASE mode = "addq" -> RoleAddQ [] mode = "burn" -> RoleNBurn [] mode = "uri" -> RoleAddURI [] OTHER -> RoleUpd
      cost == Cost(w, name) IN
  IF NFTInputBad(w, c, cost) THEN Err(w)
  ELSE IF (mode = "attr" /\ NA(c) # 3) \/ NA(c) < 3 THEN Err(w)
  ELSE LET tok == A(c,1).h IN
  IF ~Allowed(w, c.caller, tok, role) THEN Err(w) ELSE
  LET st == CASE mode = "uri" -> Base(w, "StorePerByte") * SumLens(c.args, 3)
              [] mode = "attr" -> Base(w, "StorePerByte") * BLen(A(c,3).h)
              [] OTHER -> 0
      n == A(c,2).n IN
  IF c.gas < cost + st THEN Err(w)
  ELSE IF n < 0 THEN Unk(w)
  ELSE IF n = 0 THEN Err(w)
  ELSE LET g == GetOnSender(w, c.caller, tok, n) IN
  IF ~g.ok THEN Err(w) ELSE
  LET e == g.e
      q == A(c,3).q IN
  IF mode \in {"addq", "burn"} /\ q = Bad THEN Unk(w)
  ELSE IF mode = "burn" /\ e.val < q THEN Err(w)
  ELSE IF mode \in {"uri", "attr"} /\ ~e.hm THEN Err(w)
  ELSE LET e2 == CASE mode = "addq" -> [e EXCEPT !.val = @ + q]
                   [] mode = "burn" -> [e EXCEPT !.val = @ - q]
                   [] mode = "uri" -> [e EXCEPT !.meta.uris = @ \o [i \in 1..(NA(c) - 2) |-> A(c, i + 2).h]]
                   [] OTHER -> [e EXCEPT !.meta.attrs = A(c,3).h]
           r == SaveNFT(w, c.sh, c.caller, tok, e2, c.rae) IN
       IF ~r.ok THEN Err(w) ELSE Ok(r.w, c.gas - cost - st)

=============================================================================
