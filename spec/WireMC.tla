------------------------------- MODULE WireMC -------------------------------
(***************************************************************************)
(* (M) for C12 and C14: TLC checks laws ABOUT THE OPERATORS of Wire.tla on *)
(* small exhaustive domains.  The domains are enumerated as a state space  *)
(* (a state is one string / one argument list / one value; Next extends it *)
(* by one character / byte / field), so that TLC's workers share the       *)
(* evaluation and its summary line counts the cases.  A violated law is a  *)
(* specification bug (nothing about the code has been observed).           *)
(*                                                                         *)
(* Fams selects the families of one run:                                   *)
(*   "str"   every string up to MaxLen over the six character classes      *)
(*   "args"  function name x argument lists (round trips through Build,    *)
(*           BuildDeploy, CreateSU)                                        *)
(*   "xf"    transfer lists with an attached call (ParseTransfers inverts  *)
(*           the argument layout of both sides)                            *)
(*   "amt" "meta" "tok" "roles"  values of the codec                       *)
(***************************************************************************)
EXTENDS Wire, TLC

CONSTANTS Fams, MaxLen, MaxArgs, MaxBytes,
          CLetter, CLower, CUpper, CDigit, CNonHex      \* one representative byte per character class

VARIABLE x

Alpha == {CLetter, AT, CLower, CUpper, CDigit, CNonHex}
BA == {0, 10, 64, 255}                                \* argument bytes: zero, a byte with a hex letter, '@' itself, the top byte
Names == {<<CLetter>>, FnESDTTransfer, <<CLower, CDigit>>, <<CNonHex, CUpper, CLetter>>}   \* non-empty, no '@'; one looks like hex

\* ------------------------------------------------------------ value domains
BA6 == {0, 1, 2, 127, 128, 255}
U32S == {<<>>, <<1>>, <<127>>, <<0, 1>>, <<127, 127>>, <<0, 0, 1>>, <<127, 127, 127, 127>>, <<0, 0, 0, 0, 1>>, <<127, 127, 127, 127, 15>>}
U64S == U32S \cup {<<0, 0, 0, 0, 16>>, <<127, 127, 127, 127, 127, 127, 127, 127, 127>>, <<0, 0, 0, 0, 0, 0, 0, 0, 0, 1>>,
                   <<127, 127, 127, 127, 127, 127, 127, 127, 127, 1>>}
Long130 == [i \in 1..130 |-> i % 256]                 \* needs a two-byte length
B3 == {<<>>, <<7>>, <<1, 2>>, Long130}
B2 == {<<>>, <<0>>}
UriS == {<<>>, << <<>> >>, << <<104>> >>, << <<104>>, <<>> >>, << <<>>, <<104>> >>, << <<104>>, <<105, 0>> >>, << <<>>, <<>> >>}
AmtS == {NilAmt, Amt(FALSE, <<>>), Amt(FALSE, <<1>>), Amt(TRUE, <<1>>), Amt(FALSE, <<255>>), Amt(FALSE, <<1, 0>>), Amt(TRUE, <<1, 0>>),
         Amt(FALSE, <<127, 255, 255>>), Amt(FALSE, <<1, 0, 0, 0, 0, 0, 0, 0, 0>>), Amt(TRUE, <<1, 0, 0, 0, 0, 0, 0, 0, 0>>),
         Amt(FALSE, [i \in 1..127 |-> 255]), Amt(TRUE, [i \in 1..128 |-> 200])}
Meta0 == [nonce |-> <<>>, name |-> <<>>, creator |-> <<>>, roy |-> <<>>, hash |-> <<>>, uris |-> <<>>, attr |-> <<>>]
MetaS == {Meta0, [Meta0 EXCEPT !.nonce = <<1>>], [Meta0 EXCEPT !.nonce = <<0, 1>>, !.name = <<78>>, !.roy = <<16, 78>>],
          [Meta0 EXCEPT !.uris = << <<>> >>], [Meta0 EXCEPT !.nonce = <<127, 127, 127, 127, 127, 127, 127, 127, 127, 1>>, !.attr = Long130],
          [nonce |-> <<2>>, name |-> <<1>>, creator |-> <<2>>, roy |-> <<3>>, hash |-> <<4>>, uris |-> << <<5>>, <<6>> >>, attr |-> <<7>>]}
Tok0 == [type |-> <<>>, value |-> NilAmt, props |-> <<>>, meta |-> NoMeta, reserved |-> <<>>]
RoleS == {<<>>, <<1>>, <<69, 83, 68, 84>>}

\* transfer items for the "xf" family
ItemS == {[tok |-> <<65>>, nonce |-> n, qty |-> q] : n \in {<<>>, <<1>>, <<1, 0>>}, q \in {<<1>>, <<1, 0>>}}
CallS == {<<>>, << <<CLetter>> >>, << <<CLetter>>, <<>> >>, << <<CLetter>>, <<1>>, <<2, 3>> >>}
SndA == <<1, 1>>
DstA == <<2, 2>>

\* --------------------------------------------------------------------- Init
Init ==
  \/ "str" \in Fams /\ x = [k |-> "str", s |-> <<>>]
  \/ "args" \in Fams /\ \E f \in Names : x = [k |-> "args", f |-> f, a |-> <<>>]
  \/ "xf" \in Fams /\ \E c \in CallS : x = [k |-> "xf", items |-> <<>>, call |-> c]
  \/ "amt" \in Fams /\ x \in {[k |-> "amt", v |-> NilAmt], [k |-> "amt", v |-> Amt(FALSE, <<>>)]}
  \/ "meta" \in Fams /\ x = [k |-> "meta", n |-> 0, v |-> Meta0]
  \/ "tok" \in Fams /\ x = [k |-> "tok", n |-> 0, v |-> Tok0]
  \/ "roles" \in Fams /\ x = [k |-> "roles", v |-> <<>>]
  \/ "bld" \in Fams /\ x = [k |-> "bld", st |-> B0, n |-> 0, last |-> "new"]

\* --------------------------------------------------------------------- Next
NextStr == x.k = "str" /\ Len(x.s) < MaxLen /\ \E c \in Alpha : x' = [x EXCEPT !.s = Append(@, c)]
NextArgs ==
  /\ x.k = "args"
  /\ \/ Len(x.a) < MaxArgs /\ x' = [x EXCEPT !.a = Append(@, <<>>)]
     \/ /\ x.a # <<>> /\ Len(x.a[Len(x.a)]) < MaxBytes
        /\ \E b \in BA : x' = [x EXCEPT !.a[Len(x.a)] = Append(@, b)]
NextXf == x.k = "xf" /\ Len(x.items) < 2 /\ \E it \in ItemS : x' = [x EXCEPT !.items = Append(@, it)]
NextAmt ==
  /\ x.k = "amt" /\ x.v.k = "int" /\ Len(x.v.mag) < MaxBytes          \* in a codec run MaxBytes bounds the magnitude
  /\ \E b \in BA6, neg \in BOOLEAN : (x.v.mag # <<>> \/ b # 0) /\ x' = [x EXCEPT !.v = Amt(neg, Append(x.v.mag, b))]
NextMeta ==
  /\ x.k = "meta" /\ x.n < 7
  /\ \/ x.n = 0 /\ \E d \in U64S : x' = [x EXCEPT !.n = 1, !.v.nonce = d]
     \/ x.n = 1 /\ \E b \in B3 : x' = [x EXCEPT !.n = 2, !.v.name = b]
     \/ x.n = 2 /\ \E b \in B2 : x' = [x EXCEPT !.n = 3, !.v.creator = b]
     \/ x.n = 3 /\ \E d \in U32S : x' = [x EXCEPT !.n = 4, !.v.roy = d]
     \/ x.n = 4 /\ \E b \in B2 : x' = [x EXCEPT !.n = 5, !.v.hash = b]
     \/ x.n = 5 /\ \E u \in UriS : x' = [x EXCEPT !.n = 6, !.v.uris = u]
     \/ x.n = 6 /\ \E b \in B2 : x' = [x EXCEPT !.n = 7, !.v.attr = b]
NextTok ==
  /\ x.k = "tok" /\ x.n < 5
  /\ \/ x.n = 0 /\ \E d \in U32S : x' = [x EXCEPT !.n = 1, !.v.type = d]
     \/ x.n = 1 /\ \E a \in AmtS : x' = [x EXCEPT !.n = 2, !.v.value = a]
     \/ x.n = 2 /\ \E b \in B3 : x' = [x EXCEPT !.n = 3, !.v.props = b]
     \/ x.n = 3 /\ \E m \in MetaS : x' = [x EXCEPT !.n = 4, !.v.meta = HasMeta(m)]
     \/ x.n = 3 /\ x' = [x EXCEPT !.n = 4]
     \/ x.n = 4 /\ \E b \in B2 : x' = [x EXCEPT !.n = 5, !.v.reserved = b]
NextRoles == x.k = "roles" /\ Len(x.v) < 3 /\ \E r \in RoleS : x' = [x EXCEPT !.v = Append(@, r)]

\* the builder object under every sequence of MaxLen operations of a small operation alphabet (names with and without '@',
\* every appending method, raw texts through SetLast incl. odd-length / non-hex / separator, Clear, the ESDT conveniences)
BldOps ==
  {[op |-> "func", f |-> f] : f \in {<<>>, <<CLetter>>, <<CLetter, AT>>, FnESDTTransfer}}
  \cup {[op |-> "elem", e |-> e] : e \in {[t |-> "bytes", b |-> <<>>], [t |-> "bytes", b |-> <<0, 255>>], [t |-> "byte", n |-> 0], [t |-> "byte", n |-> 10],
                                          [t |-> "int", n |-> 0], [t |-> "int", n |-> 0 - 256], [t |-> "int64", n |-> 65535], [t |-> "big", b |-> <<0, 1>>],
                                          [t |-> "str", b |-> <<AT>>], [t |-> "bool", n |-> 1]}}
  \cup {[op |-> "setlast", s |-> t] : t \in {<<>>, <<CLower, CDigit>>, <<CUpper, CUpper>>, <<CDigit>>, <<CLetter, CLetter>>, <<AT>>}}
  \cup {[op |-> "clear"], [op |-> "true"], [op |-> "false"]}
  \cup {[op |-> "issue", tok |-> <<CLetter>>, tick |-> <<>>, sup |-> 256, dec |-> 0], [op |-> "xfer", tok |-> <<CLetter>>, val |-> 0],
        [op |-> "xfernft", tok |-> <<CLetter>>, nonce |-> 1, val |-> 1], [op |-> "burn", tok |-> <<>>, val |-> 255]}
  \cup {[op |-> "can", w |-> w, v |-> v] : w \in {"canFreeze", "canAddSpecialRoles"}, v \in {0, 1}}
NextBld == x.k = "bld" /\ x.n < MaxLen /\ \E o \in BldOps : x' = [x EXCEPT !.st = BOp(x.st, o), !.n = @ + 1, !.last = o.op]

Next == NextBld \/ NextStr \/ NextArgs \/ NextXf \/ NextAmt \/ NextMeta \/ NextTok \/ NextRoles
Spec == Init /\ [][Next]_x

\* --------------------------------------------------------------------- laws
Total(r) == r.cls \in {"value", "error"}
LowerTail(s) ==                                       \* lower-cases everything after the first token
  LET toks == Split(s) IN Join([i \in 1..Len(toks) |-> IF i = 1 THEN toks[i] ELSE [j \in 1..Len(toks[i]) |-> LowerHex(toks[i][j])]])
LowerAll(s) == [j \in 1..Len(s) |-> LowerHex(s[j])]

\* strings: tokens re-join to the string; the parsers are total; what a parser accepts, the builder maps
\* back to the same string (up to the case of hex digits) -- the converse of the round trip
StrLaws(s) ==
  LET c == ParseCall(s)
      d == ParseDeploy(s)
      u == ParseSU(s) IN
  /\ Join(Split(s)) = s
  /\ Total(c) /\ Total(d) /\ Total(u)
  /\ c.cls = "value" => Build(c.v.fn, c.v.args) = LowerTail(s)
  /\ d.cls = "value" => /\ c.cls = "value"
                        /\ Len(c.v.args) >= 2 /\ d.v.vm = c.v.args[1] /\ d.v.vm # <<>> /\ d.v.args = Rest(c.v.args, 3)
                        /\ HexEncode(d.v.code) = LowerAll(c.v.fn)
  /\ u.cls = "value" => CreateSU(u.v) = LowerAll(TrimLeadingAt(s))
  /\ (s = <<>> \/ s[1] = AT) => c.cls = "error" /\ d.cls = "error"
InvStr == x.k = "str" => StrLaws(x.s)

\* argument lists: parse(build(.)) is the identity
Metas == {[up |-> a, rd |-> b, pay |-> c] : a, b, c \in BOOLEAN}
Pairs(a) == [k \in 1..(Len(a) \div 2) |-> [o |-> a[2 * k - 1], d |-> a[2 * k]]]
ArgsLaws(f, a) ==
  /\ ParseCall(Build(f, a)) = Val([fn |-> f, args |-> a])
  /\ ParseCall(EncodeMsg(f, a)) = Val([fn |-> f, args |-> a])
  /\ (Len(a) >= 2 /\ a[1] # <<>> /\ a[2] # <<>>) =>
        \A m \in (IF Len(a) = 2 THEN Metas ELSE {[up |-> TRUE, rd |-> FALSE, pay |-> TRUE], [up |-> FALSE, rd |-> TRUE, pay |-> FALSE]}) :
           ParseDeploy(BuildDeploy(a[1], a[2], m, Rest(a, 3))) = Val([code |-> a[1], vm |-> a[2], meta |-> m, args |-> Rest(a, 3)])
  /\ (Len(a) >= 2 /\ Len(a) % 2 = 0 /\ a[1] # <<>>) =>
        /\ ParseSU(CreateSU(Pairs(a))) = Val(Pairs(a))
        /\ ParseSU(<<AT>> \o CreateSU(Pairs(a))) = Val(Pairs(a))
  /\ \A m \in Metas : CodeMeta(CodeMetaBytes(m)) = m
InvArgs == x.k = "args" => ArgsLaws(x.f, x.a)

\* transfers: the argument layouts of both sides parse back to the same items, receiver and attached call
Payload(it) == EncToken([type |-> <<1>>, value |-> Amt(FALSE, it.qty), props |-> <<>>,
                         meta |-> HasMeta([Meta0 EXCEPT !.nonce = <<1>>, !.name = <<78>>]), reserved |-> <<>>])
XferOf(it) == Xfer(it.tok, it.nonce, IF it.nonce = <<>> THEN Fungible ELSE NonFungible, Amt(FALSE, it.qty))
CallFn(c) == IF c = <<>> THEN <<>> ELSE c[1]
CallArgs(c) == Rest(c, 2)
XfLaws(items, call) ==
  LET n == Len(items)
      sndArgs == Cat([i \in 1..n |-> <<items[i].tok, items[i].nonce, items[i].qty>>])
      dstArgs == Cat([i \in 1..n |-> <<items[i].tok, items[i].nonce, IF items[i].nonce = <<>> THEN items[i].qty ELSE Payload(items[i])>>])
      want(rcv) == Parsed(rcv, [i \in 1..n |-> XferOf(items[i])], CallFn(call), CallArgs(call)) IN
  /\ n >= 1 => /\ ParseTransfers(SndA, SndA, FnMultiESDTNFTTransfer, <<DstA, BEBytes(n)>> \o sndArgs \o call) = want(DstA)
               /\ ParseTransfers(SndA, DstA, FnMultiESDTNFTTransfer, <<BEBytes(n)>> \o dstArgs \o call) = want(DstA)
               \* a count one larger than the arguments hold is an error on both sides
               /\ ParseTransfers(SndA, SndA, FnMultiESDTNFTTransfer, <<DstA, BEBytes(n + 1)>> \o sndArgs \o <<>>).cls = "error"
               /\ ParseTransfers(SndA, DstA, FnMultiESDTNFTTransfer, <<BEBytes(n + 1)>> \o dstArgs \o <<>>).cls = "error"
  /\ n = 1 => LET it == items[1] IN
              /\ it.nonce = <<>> => ParseTransfers(SndA, DstA, FnESDTTransfer, <<it.tok, it.qty>> \o call) = want(DstA)
              /\ it.nonce # <<>> => ParseTransfers(SndA, SndA, FnESDTNFTTransfer, <<it.tok, it.nonce, it.qty, DstA>> \o call) = want(DstA)
InvXf == x.k = "xf" => XfLaws(x.items, x.call)

\* codec: decode(encode(v)) = v, the size formula gives the encoded length, fields appear in ascending order
InvAmt == x.k = "amt" => /\ IsAmt(x.v)
                         /\ DecAmount(EncAmount(x.v)) = Val(x.v)
                         /\ Len(EncAmount(x.v)) = SizeAmount(x.v)
InvMeta == x.k = "meta" => /\ IsMeta(x.v)
                           /\ DecMeta(EncMeta(x.v)) = Val(x.v)
                           /\ Len(EncMeta(x.v)) = SizeMeta(x.v)
                           /\ TagsAscend(EncMeta(x.v))
InvTok == x.k = "tok" => /\ IsToken(x.v)
                         /\ DecToken(EncToken(x.v)) = Val(x.v)
                         /\ Len(EncToken(x.v)) = SizeToken(x.v)
                         /\ TagsAscend(EncToken(x.v))
                         /\ \E i \in 1..Len(Fields(EncToken(x.v)).fs) : Fields(EncToken(x.v)).fs[i].num = 2     \* the Value field is always there
InvRoles == x.k = "roles" => /\ DecRoles(EncRoles(x.v)) = Val(x.v)
                             /\ Len(EncRoles(x.v)) = SizeRoles(x.v)

\* builder: in every reachable state of the object the string it produces parses back to its function and arguments whenever the
\* grammar can represent them (and to SOMETHING or an error otherwise); the string is what Build makes of the meaning when every
\* element text is lower-case; Clear brings the fresh builder back; the last element is the last token of the string
BldLaws(st) ==
  LET s == BToString(st) IN
  /\ Total(ParseCall(s))
  /\ BRepresentable(st) => ParseCall(s) = Val(BMeaning(st))
  /\ (BRepresentable(st) /\ \A i \in 1..Len(st.es) : LowerAll(st.es[i]) = st.es[i]) => Build(st.fn, BMeaning(st).args) = s
  /\ (st.es # <<>> /\ \A i \in 1..Len(BLast(st)) : BLast(st)[i] # AT) => LET toks == Split(s) IN toks[Len(toks)] = BLast(st)
InvBld == x.k = "bld" => /\ BldLaws(x.st)
                         /\ x.last = "clear" => x.st = B0

\* varints agree with their digit-string form on TLC-sized numbers
RECURSIVE DigitsOf(_)
DigitsOf(n) == IF n = 0 THEN <<>> ELSE <<n % 128>> \o DigitsOf(n \div 128)
ASSUME \A n \in {0, 1, 127, 128, 300, 16383, 16384, 2097151, 2097152, 268435455, 268435456, 2147483647} :
          /\ VarintN(n) = VarintD(DigitsOf(n)) /\ Len(VarintN(n)) = SizeVarintN(n) /\ DigitsVal(DigitsOf(n)) = n
ASSUME \A n \in {0, 1, 255, 256, 65535, 65536, 16777215} : BEVal(BEBytes(n)) = n /\ StripZeros(<<0, 0>> \o BEBytes(n)) = BEBytes(n)
ASSUME HexDecode(HexEncode(<<0, 10, 64, 171, 255>>)) = <<0, 10, 64, 171, 255>> /\ HexEncode(<<171>>) = <<97, 98>> /\ HexDecode(<<65, 66>>) = <<171>>
=============================================================================
