--------------------------- MODULE ActivationTrace ---------------------------
(***************************************************************************)
(* (T) for C18: validation of what the Go harness recorded from REAL       *)
(* factory-built containers (harness/act, `vh activation`).  The variables *)
(* of Activation.tla are set from the log line by line, so the behaviour   *)
(* TLC walks is the recorded one:                                          *)
(*   build   - a container was built for activation epoch `act'            *)
(*   confirm - epoch e was confirmed to every registered subscriber        *)
(*   bound   - the scenario of one protocol name ran through               *)
(*             container.Get(name) (leaves of the world before and after)  *)
(*   cross   - scenario self-test: the behaviour of `via' was put under    *)
(*             `name' first; the scenario must then NOT show the behaviour *)
(*             of `name' (counted, never a violation)                      *)
(* After build and confirm lines the log holds IsActive() of every         *)
(* function, Keys() and Len().  Failing lines are printed as               *)
(* <<"VIOL", line, {predicates}>>; the last state prints <<"DONE", ...>>.  *)
(***************************************************************************)
EXTENDS Activation, Json

CONSTANT Checked

Log == ndJsonDeserialize("trace.ndjson")
N == Len(Log)

VARIABLES l, nviol, cnt
tvars == <<act, flag, last, hist, l, nviol, cnt>>

ToSet(s) == {s[i] : i \in 1..Len(s)}

\* ---- the property predicates, on one recorded observation
\* IsActive of every function the container holds is what the specification says for the notifications so far
P18_ActiveIff(ln, a, lst) ==
  /\ ln.res = "ok"
  /\ \A x \in ToSet(ln.fns) : x.got => (x.a = ShouldBeActive(x.n, a, lst, GeqLimb))
\* the container holds exactly the protocol's names: Keys(), Len() and Get agree on it
P18_Registry(ln) ==
  /\ ln.res = "ok"
  /\ ToSet(ln.keys) = Registry /\ Len(ln.keys) = Cardinality(Registry) /\ ln.len = Cardinality(Registry)
  /\ {x.n : x \in {y \in ToSet(ln.fns) : y.got}} = Registry
\* the call through container.Get(name) did what the name says
P18_Bound(ln) == ShowsBehaviour(ln.name, ln.res, ln.setup, ToSet(ln.pre), ToSet(ln.post))

Counters == {"build", "confirm", "gated_active", "gated_inactive", "activated", "deactivated", "regression", "repeat", "at_activation",
             "boundary", "bound", "bound_ok", "cross", "cross_undetected", "nonzero_act"}
Cnt0 == [c \in Counters |-> 0]

SomeGatedActive(ln) == \E x \in ToSet(ln.fns) : x.n \in GatedFns /\ x.got /\ x.a
Big(e) == e[1] >= 32768
ObsFlag(ln) == [f \in GatedFns |-> \E x \in ToSet(ln.fns) : x.n = f /\ x.got /\ x.a]

Init == l = 1 /\ nviol = 0 /\ cnt = Cnt0 /\ act = <<0, 0>> /\ flag = [f \in GatedFns |-> FALSE] /\ last = None /\ hist = <<>>

Step ==
  /\ l <= N
  /\ LET ln == Log[l] IN
     CASE ln.k = "build" ->
            LET a == <<ln.act[1], ln.act[2]>>
                \* a build line with an epoch: the notifier confirmed it to every subscriber at registration (the first notification)
                lst == IF Len(ln.e) = 2 THEN << <<ln.e[1], ln.e[2]>> >> ELSE None
                bad == (IF "P18_ActiveIff" \in Checked /\ ~P18_ActiveIff(ln, a, lst) THEN {"P18_ActiveIff"} ELSE {})
                       \cup (IF "P18_Registry" \in Checked /\ ~P18_Registry(ln) THEN {"P18_Registry"} ELSE {})
                trig == {"build"} \cup (IF a # <<0, 0>> THEN {"nonzero_act"} ELSE {}) \cup (IF Big(a) THEN {"boundary"} ELSE {})
            IN /\ (bad # {} => PrintT(<<"VIOL", l, bad>>))
               /\ act' = a /\ last' = lst /\ hist' = (IF lst = None THEN <<>> ELSE <<lst[1]>>) /\ flag' = ObsFlag(ln)
               /\ nviol' = nviol + Cardinality(bad)
               /\ cnt' = [c \in Counters |-> cnt[c] + (IF c \in trig THEN 1 ELSE 0)]
       [] ln.k = "confirm" ->
            LET e == <<ln.e[1], ln.e[2]>>
                bad == (IF "P18_ActiveIff" \in Checked /\ ~(P18_ActiveIff(ln, act, <<e>>) /\ <<ln.act[1], ln.act[2]>> = act) THEN {"P18_ActiveIff"} ELSE {})
                       \cup (IF "P18_Registry" \in Checked /\ ~P18_Registry(ln) THEN {"P18_Registry"} ELSE {})
                now == SomeGatedActive(ln)
                was == \E f \in GatedFns : flag[f]
                trig == {"confirm"} \cup (IF now THEN {"gated_active"} ELSE {"gated_inactive"})
                        \cup (IF now /\ ~was THEN {"activated"} ELSE {}) \cup (IF was /\ ~now THEN {"deactivated"} ELSE {})
                        \cup (IF last # None /\ LimbLess(e, last[1]) THEN {"regression"} ELSE {})
                        \cup (IF last = <<e>> THEN {"repeat"} ELSE {}) \cup (IF e = act THEN {"at_activation"} ELSE {})
                        \cup (IF Big(e) \/ Big(act) THEN {"boundary"} ELSE {})
            IN /\ (bad # {} => PrintT(<<"VIOL", l, bad>>))
               /\ last' = <<e>> /\ hist' = Append(hist, e) /\ flag' = ObsFlag(ln) /\ UNCHANGED act
               /\ nviol' = nviol + Cardinality(bad)
               /\ cnt' = [c \in Counters |-> cnt[c] + (IF c \in trig THEN 1 ELSE 0)]
       [] ln.k = "bound" ->
            LET ok == P18_Bound(ln)
                bad == IF "P18_Bound" \in Checked /\ ~ok THEN {"P18_Bound"} ELSE {}
                trig == {"bound"} \cup (IF ok THEN {"bound_ok"} ELSE {})
            IN /\ (bad # {} => PrintT(<<"VIOL", l, bad>>))
               /\ UNCHANGED <<act, flag, last, hist>>
               /\ nviol' = nviol + Cardinality(bad)
               /\ cnt' = [c \in Counters |-> cnt[c] + (IF c \in trig THEN 1 ELSE 0)]
       [] ln.k = "cross" ->
            LET undetected == P18_Bound(ln)
                trig == {"cross"} \cup (IF undetected THEN {"cross_undetected"} ELSE {})
            IN /\ (undetected => PrintT(<<"UNDETECTED", l, ln.name, ln.via>>))
               /\ UNCHANGED <<act, flag, last, hist, nviol>>
               /\ cnt' = [c \in Counters |-> cnt[c] + (IF c \in trig THEN 1 ELSE 0)]
       [] OTHER -> UNCHANGED <<act, flag, last, hist, nviol, cnt>>
  /\ l' = l + 1

Next == Step
Spec == Init /\ [][Next]_tvars

\* the run examined the whole log
Finished == (l = N + 1) => PrintT(<<"DONE", N, nviol, 0, cnt>>)
=============================================================================
