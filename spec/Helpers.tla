------------------------------ MODULE Helpers ------------------------------
(***************************************************************************)
(* Shared VM helper types of elrond-vm-common (property C20).              *)
(*                                                                         *)
(* Part 1 transcribes, function by function, codeMetadata.go,              *)
(* builtInFunctions/esdtMetaData.go, address.go, output.go (the two merge  *)
(* methods) and gasCost.go:SafeSubUint64.  Bytes are integers 0..255, byte *)
(* strings are sequences of bytes (Go index i = TLA+ index i+1).           *)
(*                                                                         *)
(* Part 2 states the LAWS of C20 as operators over (input, result), where  *)
(* `result' is either what the transcription computes (model checking,     *)
(* HelpersMC.tla) or what the real Go function returned (trace validation, *)
(* HelpersTrace.tla).  The laws never mention the transcription.           *)
(*                                                                         *)
(* 64-bit and 32-bit unsigned numbers are sequences of 16-bit limbs, most  *)
(* significant first (TLC integers are 32-bit); big.Int amounts are exact  *)
(* quotients by a per-row scale, Bad = -2^30 marks "not such a quotient".  *)
(***************************************************************************)
EXTENDS Integers, Sequences, FiniteSets, Bitwise, TLC

Byte == 0..255
Rep(b, n) == [i \in 1..n |-> b]
Zeros(n) == Rep(0, n)
SeqRange(s) == {s[i] : i \in 1..Len(s)}
Bad == -1073741824

(***************************************************************************)
(* 1a. codeMetadata.go                                                     *)
(***************************************************************************)
LengthOfCodeMetadata == 2
MetadataUpgradeable == 1
MetadataPayable == 2
MetadataReadable == 4

CMEmpty == [payable |-> FALSE, upgradeable |-> FALSE, readable |-> FALSE]

CodeMetadataFromBytes(b) ==
  IF Len(b) # LengthOfCodeMetadata THEN CMEmpty
  ELSE [upgradeable |-> (b[1] & MetadataUpgradeable) # 0,
        readable    |-> (b[1] & MetadataReadable) # 0,
        payable     |-> (b[2] & MetadataPayable) # 0]

CodeMetadataToBytes(m) ==
  << (IF m.upgradeable THEN MetadataUpgradeable ELSE 0) | (IF m.readable THEN MetadataReadable ELSE 0),
     (IF m.payable THEN MetadataPayable ELSE 0) >>

(***************************************************************************)
(* 1b. builtInFunctions/esdtMetaData.go                                    *)
(***************************************************************************)
LengthOfESDTMetadata == 2
MetadataPaused == 1
MetadataFrozen == 1

GlobalEmpty == [paused |-> FALSE]
ESDTGlobalMetadataFromBytes(b) ==
  IF Len(b) # LengthOfESDTMetadata THEN GlobalEmpty ELSE [paused |-> (b[1] & MetadataPaused) # 0]
ESDTGlobalMetadataToBytes(m) == << (IF m.paused THEN MetadataPaused ELSE 0), 0 >>

UserEmpty == [frozen |-> FALSE]
ESDTUserMetadataFromBytes(b) ==
  IF Len(b) # LengthOfESDTMetadata THEN UserEmpty ELSE [frozen |-> (b[1] & MetadataFrozen) # 0]
ESDTUserMetadataToBytes(m) == << (IF m.frozen THEN MetadataFrozen ELSE 0), 0 >>

\* the documented masks of the three byte forms (which bits carry information)
CodeMask == <<5, 2>>
GlobalMask == <<1, 0>>
UserMask == <<1, 0>>
MaskOf(b, m) == << b[1] & m[1], b[2] & m[2] >>

(***************************************************************************)
(* 1c. address.go                                                          *)
(***************************************************************************)
SystemAccountAddress == Rep(255, 32)
ESDTSCAddress == <<0,0,0,0,0,0,0,0,0,1, 0,0,0,0,0,0,0,0,0,0, 0,0,0,0,0,0,0,0,0,2, 255,255>>
NumInitCharactersForScAddress == 10
VMTypeLen == 2
MetaChainShardIdentifier == 255
NumInitCharactersForOnMetachainSC == 15
NumInitCharactersForSystemAccountAddress == 30
ElrondProtectedKeyPrefix == <<69, 76, 82, 79, 78, 68>>    \* "ELROND"

IsSystemAccountAddress(a) ==
  /\ Len(a) >= NumInitCharactersForSystemAccountAddress
  /\ \A i \in 1..NumInitCharactersForSystemAccountAddress : a[i] = SystemAccountAddress[i]

IsEmptyAddress(a) == \A i \in 1..Len(a) : a[i] = 0

IsSmartContractAddress(a) ==
  IF Len(a) <= NumInitCharactersForScAddress THEN FALSE
  ELSE IF IsEmptyAddress(a) THEN TRUE
  ELSE \A i \in 1..(NumInitCharactersForScAddress - VMTypeLen) : a[i] = 0

IsMetachainIdentifier(id) ==
  /\ Len(id) # 0
  /\ \A i \in 1..Len(id) : id[i] = MetaChainShardIdentifier

IsSmartContractOnMetachain(id, a) ==
  IF Len(a) <= NumInitCharactersForScAddress + NumInitCharactersForOnMetachainSC THEN FALSE
  ELSE IF ~IsMetachainIdentifier(id) THEN FALSE
  ELSE IF ~IsSmartContractAddress(a) THEN FALSE
  ELSE \A i \in (NumInitCharactersForScAddress + 1)..(NumInitCharactersForScAddress + NumInitCharactersForOnMetachainSC) : a[i] = 0

IsAllowedToSaveUnderKey(k) ==
  IF Len(k) < Len(ElrondProtectedKeyPrefix) THEN TRUE
  ELSE SubSeq(k, 1, Len(ElrondProtectedKeyPrefix)) # ElrondProtectedKeyPrefix

\* all classifications of one byte string, for the identifiers ids (a sequence of byte strings)
Classify(a, ids) ==
  [sys |-> IsSystemAccountAddress(a), sc |-> IsSmartContractAddress(a), empty |-> IsEmptyAddress(a),
   mid |-> IsMetachainIdentifier(a), allowed |-> IsAllowedToSaveUnderKey(a),
   scm |-> [j \in 1..Len(ids) |-> IsSmartContractOnMetachain(ids[j], a)]]

(***************************************************************************)
(* 1d. unsigned numbers as limb sequences (most significant limb first)    *)
(***************************************************************************)
LimbBase == 65536
LimbLess(a, b) == \E i \in 1..Len(a) : a[i] < b[i] /\ \A j \in 1..(i - 1) : a[j] = b[j]
LimbGeq(a, b) == ~LimbLess(a, b)
LimbMax(a, b) == IF LimbLess(a, b) THEN b ELSE a
\* a - b for a >= b, schoolbook subtraction with borrow in base B
LimbSub(a, b, B) ==
  LET n == Len(a)
      br[i \in 1..(n + 1)] == IF i = n + 1 THEN 0 ELSE IF a[i] - b[i] - br[i + 1] < 0 THEN 1 ELSE 0
  IN [i \in 1..n |-> a[i] - b[i] - br[i + 1] + B * br[i]]
\* value of a limb sequence (only for the small bases of the model check)
LimbVal(a, B) ==
  LET v[i \in 0..Len(a)] == IF i = 0 THEN 0 ELSE v[i - 1] * B + a[i] IN v[Len(a)]

U64(n) == <<0, 0, n \div LimbBase, n % LimbBase>>      \* small naturals as 64-bit limb sequences
U64Zero == <<0, 0, 0, 0>>

\* gasCost.go: SafeSubUint64
SafeSubUint64B(a, b, B) == IF LimbLess(a, b) THEN [err |-> TRUE, v |-> Zeros(Len(a))] ELSE [err |-> FALSE, v |-> LimbSub(a, b, B)]
SafeSubUint64(a, b) == SafeSubUint64B(a, b, LimbBase)

(***************************************************************************)
(* 1e. output.go: MergeStorageUpdates, MergeOutputAccounts                 *)
(*                                                                         *)
(* OutputAccount as a record:                                              *)
(*   addr, code, cm : byte strings        nonce, gas : 64-bit limbs        *)
(*   bal, delta : [nil, q]   big.Int pointer: nil flag, scaled quotient     *)
(*   su  : [nil, e]  the StorageUpdates map: nil flag and a sequence of    *)
(*         entries [k, off, data] (map key, Offset, Data), keys distinct   *)
(*   dep : [nil, b]  CodeDeployerAddress (nil is distinguished from empty) *)
(*   tr  : sequence of output transfers (records, compared as values)      *)
(***************************************************************************)
OptVal(x) == IF x.nil THEN 0 ELSE x.q
SuSet(su) == SeqRange(su.e)
SuKeys(su) == {x.k : x \in SuSet(su)}

MergeStorageUpdates(o, a) ==
  LET keep == SelectSeq(o.e, LAMBDA x : x.k \notin SuKeys(a))
  IN [nil |-> FALSE, e |-> keep \o a.e]       \* a nil map is replaced by a fresh one; every update of a overwrites

MergeOutputAccounts(o, a) ==
  [addr  |-> IF Len(a.addr) # 0 THEN a.addr ELSE o.addr,
   su    |-> MergeStorageUpdates(o.su, a.su),
   bal   |-> IF ~a.bal.nil THEN a.bal ELSE o.bal,
   delta |-> [nil |-> FALSE, q |-> OptVal(o.delta) + OptVal(a.delta)],
   code  |-> IF Len(a.code) > 0 THEN a.code ELSE o.code,
   cm    |-> IF Len(a.cm) > 0 THEN a.cm ELSE o.cm,
   nonce |-> IF LimbLess(o.nonce, a.nonce) THEN a.nonce ELSE o.nonce,
   tr    |-> IF Len(a.tr) > Len(o.tr) THEN o.tr \o SubSeq(a.tr, Len(o.tr) + 1, Len(a.tr)) ELSE o.tr,
   gas   |-> a.gas,
   dep   |-> IF ~a.dep.nil THEN a.dep ELSE o.dep]

(***************************************************************************)
(* 1f. the pointer structure of the merge (for "never mutates the account  *)
(* merged in, not even through later merges into the same result").        *)
(* A heap is a sequence of integer cells (the big.Int objects); an account *)
(* holds cell numbers (0 = nil) for BalanceDelta and Balance.  HMerge      *)
(* follows output.go: Balance is taken over by pointer (and never written  *)
(* through), BalanceDelta gets a fresh cell when nil and is then added     *)
(* into.  alias = TRUE is the tempting optimisation "take the other        *)
(* account's delta object when ours is nil" (non-vacuity switch).          *)
(***************************************************************************)
HMerge(h, o, a, alias) ==
  LET takeOver == alias /\ o.delta = 0 /\ a.delta # 0
      h1 == IF o.delta = 0 /\ ~takeOver THEN Append(h, 0) ELSE h
      od == IF o.delta # 0 THEN o.delta ELSE IF takeOver THEN a.delta ELSE Len(h1)
      h2 == IF a.delta # 0 /\ ~takeOver THEN [h1 EXCEPT ![od] = h1[od] + h1[a.delta]] ELSE h1
  IN [h |-> h2, o |-> [delta |-> od, bal |-> IF a.bal # 0 THEN a.bal ELSE o.bal]]

HCells(x) == {x.delta, x.bal} \ {0}
HUnchanged(h0, h1, x) == \A c \in HCells(x) : h1[c] = h0[c]
HDeltaVal(h, x) == IF x.delta = 0 THEN 0 ELSE h[x.delta]

(***************************************************************************)
(* 2. LAWS                                                                 *)
(***************************************************************************)

\* ---- byte forms.  dec is the decoded value of byte string b, enc the encoding of dec.
LawEncodeDecode(b, enc, mask) == Len(b) = 2 => enc = MaskOf(b, mask)          \* encode(decode(b)) = b & mask
LawWrongLength(b, dec, enc, empty) == Len(b) # 2 => (dec = empty /\ enc = <<0, 0>>)
\* m is a value, enc its encoding, back the decoding of enc
LawDecodeEncode(m, enc, back) == Len(enc) = 2 /\ back = m                     \* decode(encode(m)) = m

\* ---- address classification.  c is a Classify-shaped record for byte string a and identifiers ids
LawMetaImpliesContract(a, ids, c) == \A j \in 1..Len(ids) : c.scm[j] => (c.sc /\ IsMetachainIdentifier(ids[j]))
LawEmptyIsContract(a, c) == (c.empty /\ Len(a) > NumInitCharactersForScAddress) => c.sc
LawConsistent(a, ids, c) ==
  /\ LawMetaImpliesContract(a, ids, c)
  /\ LawEmptyIsContract(a, c)
  /\ \A j1, j2 \in 1..Len(ids) :                         \* the verdict depends on the identifier only through "is metachain"
        (IsMetachainIdentifier(ids[j1]) /\ IsMetachainIdentifier(ids[j2])) => c.scm[j1] = c.scm[j2]
\* the two addresses the protocol hard-codes classify as documented (constants.go, address.go)
LawNamedAddresses(a, ids, c) ==
  /\ a = SystemAccountAddress => (c.sys /\ ~c.sc /\ ~c.empty /\ \A j \in 1..Len(ids) : ~c.scm[j])
  /\ a = ESDTSCAddress => (c.sc /\ ~c.sys /\ ~c.empty /\ \A j \in 1..Len(ids) : c.scm[j] = IsMetachainIdentifier(ids[j]))
\* every classification is the documented prefix rule (10-byte contract identifier whose last 2 bytes are the VM type,
\* 30-byte system prefix, 15 zero bytes after the identifier on the metachain, "ELROND" key prefix)
LawDocumented(a, ids, c) == c = Classify(a, ids)

\* ---- merge.  o = receiver before, a = account merged in, r = receiver after
NoBad(o, a, r) == Bad \notin {o.delta.q, a.delta.q, r.delta.q}
LawDelta(o, a, r) == NoBad(o, a, r) /\ OptVal(r.delta) = OptVal(o.delta) + OptVal(a.delta)
LawNonce(o, a, r) ==
  /\ r.nonce \in {o.nonce, a.nonce}
  /\ ~LimbLess(r.nonce, o.nonce) /\ ~LimbLess(r.nonce, a.nonce)
LawStorage(o, a, r) ==
  /\ SuKeys(r.su) = SuKeys(o.su) \cup SuKeys(a.su)
  /\ \A x \in SuSet(r.su) : IF x.k \in SuKeys(a.su) THEN x \in SuSet(a.su) ELSE x \in SuSet(o.su)
  /\ Cardinality(SuSet(r.su)) = Cardinality(SuKeys(r.su)) /\ Len(r.su.e) = Cardinality(SuKeys(r.su))
PrefixOf(s, t) == Len(s) <= Len(t) /\ SubSeq(t, 1, Len(s)) = s
LawTransfers(o, a, r) ==
  /\ PrefixOf(o.tr, r.tr)                                            \* nothing already there is touched
  /\ Len(r.tr) = (IF Len(a.tr) > Len(o.tr) THEN Len(a.tr) ELSE Len(o.tr))
  /\ \A i \in (Len(o.tr) + 1)..Len(r.tr) : r.tr[i] = a.tr[i]         \* only the transfers beyond the known ones are appended
LawsMerge(o, a, r) == LawDelta(o, a, r) /\ LawNonce(o, a, r) /\ LawStorage(o, a, r) /\ LawTransfers(o, a, r)

\* ---- checked subtraction.  r = [err, v]
LawSafeSub(a, b, r, B) == r.err = LimbLess(a, b) /\ (~r.err => r.v = LimbSub(a, b, B))

\* ---------------------------------------------------------------- views beyond the listed laws
\* (no listed property speaks about these two helpers: disagreement is reported as drift, never as a violation)
\* ReturnCode.String: the documented names of the eleven codes, "unknown error, code: <n>" for every other number
ReturnCodeName(n) ==
  CASE n = 0 -> "ok" [] n = 1 -> "function not found" [] n = 2 -> "wrong signature for function" [] n = 3 -> "contract not found"
    [] n = 4 -> "user error" [] n = 5 -> "out of gas" [] n = 6 -> "account collision" [] n = 7 -> "out of funds"
    [] n = 8 -> "call stack overflow" [] n = 9 -> "contract invalid" [] n = 10 -> "execution failed"
    [] OTHER -> "unknown error, code: " \o ToString(n)
\* VMOutput.GetFirstReturnData: kinds AsBigInt = 1, AsBigIntString = 2, AsString = 4, AsHex = 8; no return data or any other
\* kind is an error.  Result: [err, v (bytes), vs (string)]; a field that the kind does not fix is "any"
HexDigitStr == "0123456789abcdef"
RECURSIVE HexStr(_)
HexStr(b) == IF b = <<>> THEN "" ELSE SubSeq(HexDigitStr, (b[1] \div 16) + 1, (b[1] \div 16) + 1) \o SubSeq(HexDigitStr, (b[1] % 16) + 1, (b[1] % 16) + 1) \o HexStr(Tail(b))
RECURSIVE DropZeros(_)
DropZeros(b) == IF b # <<>> /\ b[1] = 0 THEN DropZeros(Tail(b)) ELSE b
RECURSIVE BytesVal(_)
BytesVal(b) == IF b = <<>> THEN 0 ELSE 256 * BytesVal(SubSeq(b, 1, Len(b) - 1)) + b[Len(b)]
FirstReturnDataOK(rd, kind, err, v, vs) ==
  IF rd = <<>> \/ kind \notin {1, 2, 4, 8} THEN err
  ELSE /\ ~err
       /\ kind = 1 => v = DropZeros(rd[1])                                                    \* the magnitude of the number
       /\ (kind = 2 /\ Len(DropZeros(rd[1])) <= 3) => vs = ToString(BytesVal(DropZeros(rd[1])))   \* decimal (TLC-sized numbers only)
       /\ kind = 4 => v = rd[1]                                                               \* the bytes themselves
       /\ kind = 8 => vs = HexStr(rd[1])                                                      \* lower-case hex

=============================================================================
