"""Family "conc": property C19 (container, atomics and gas reconfiguration are safe under concurrency).

(M) TLC model-checks the lock protocol of a priced built-in function (spec/Concurrency.tla, part 2): invariant
    OneSchedule with the RWMutex respected; with NoLock = TRUE TLC must FIND the mixed charge (non-vacuity).
(T) The Go drivers (harness/conc, `vh conc`) run seeded random operation mixes from 2-16 goroutines against the real
    container.MutexMap, the real function container, every atomic type and a factory-built container under
    GasScheduleChange / EpochConfirmed, in short rounds logged as call/return histories ordered by one atomic
    sequence counter.  spec/LinTrace.tla decides for every round whether a linearization exists (sequential
    specifications: spec/Concurrency.tla, part 1).  The same rounds run in a -race build; a report of Go's race
    detector becomes a `race` event for which the specification has no action.
Verdict: only behaviour recorded from the real code can produce a VIOLATION (a round TLC cannot explain after an
exhaustive search of that round, a lost update, a charge no single schedule explains, a race report).  Anything
wrong with the specification, the self-checks or the tooling is Infra (exit 2).
"""
import json, os, re, shutil, subprocess, threading, time
from concurrent.futures import ThreadPoolExecutor
from collections import Counter
from checklib import *  # noqa

KINDS = "map,cont,flag,counter,i64,u32,u64,str,gas"

# driver rounds (a gas round yields one history per function it executed, so the number of validated histories is larger)
TIERS = {
    "quick": dict(plain=[500] * 3, race=[400] * 3, bulk_plain=1000, bulk_race=1500, bulkreps=1, par=3),
    "thorough": dict(plain=[2500] * 12, race=[2000] * 8, bulk_plain=4000, bulk_race=4000, bulkreps=2, par=5),
}

LOCK_CFG = "SPECIFICATION LSpec\nCONSTANT NoLock = FALSE\nINVARIANTS LTypeOK OneSchedule HeldStable MutualExclusion\n"
NOLOCK_CFG = "SPECIFICATION LSpec\nCONSTANT NoLock = TRUE\nINVARIANTS LTypeOK OneSchedule\n"
LIN_CFG = "SPECIFICATION Spec\nCONSTANT AllowSkip = %s\nPOSTCONDITION Accepted\nCHECK_DEADLOCK FALSE\n"

PRED_OF_KIND = {"map": "P19_Linearizable", "cont": "P19_Linearizable", "sched": "P19_OneSchedule",
                "flag": "P19_NoLostUpdate", "counter": "P19_NoLostUpdate", "i64": "P19_NoLostUpdate", "u32": "P19_NoLostUpdate",
                "u64": "P19_NoLostUpdate", "str": "P19_NoLostUpdate"}

# operations every run must have exercised (vacuity)
NEED_OPS = ["map.Get", "map.Insert", "map.Set", "map.Remove", "map.Len", "map.Keys", "map.Values",
            "cont.Get", "cont.Add", "cont.Replace", "cont.Remove", "cont.Len", "cont.Keys",
            "flag.Set", "flag.Unset", "flag.Toggle", "flag.IsSet",
            "counter.Set", "counter.Increment", "counter.Decrement", "counter.Add", "counter.Subtract", "counter.Get", "counter.GetUint64", "counter.Reset",
            "i64.Set", "i64.Get", "u32.Set", "u32.Get", "u64.Set", "u64.Get", "str.Set", "str.Get", "sched.exec", "sched.reprice"]
NEED_OUTCOMES = ["map.Insert:true", "map.Insert:false", "map.Get:hit", "map.Get:miss", "cont.Add:nil", "cont.Add:err", "cont.Replace:nil", "cont.Replace:err", "cont.Get:nil", "cont.Get:err", "flag.Set:true", "flag.Set:false",
                 "sched.exec:repriced", "sched.exec:overlaps-reprice"]
PRICED = ["SaveKeyValue", "ESDTNFTCreate", "ESDTNFTAddURI", "ESDTNFTUpdateAttributes", "ESDTNFTTransfer", "MultiESDTNFTTransfer"]
# the other nine functions whose price a schedule change rewrites under mutExecution (base cost only)
BASE_ONLY = ["ESDTTransfer", "ESDTLocalMint", "ESDTLocalBurn", "ESDTNFTAddQuantity", "ESDTNFTBurn", "ESDTBurn", "ChangeOwnerAddress", "ClaimDeveloperRewards", "SetUserName"]


# ------------------------------------------------------------------------------------------------ trace helpers
def build_trace(rounds):
    """rounds: list of (kind, init, [(g, op, args, result, cseq, rseq)], extra lines) -> list of log lines (format of LinTrace.tla)."""
    lines = []
    for rn, (kind, init, ops, extra) in enumerate(rounds, 1):
        evs = []
        for i, (g, op, a, res, cs, rs) in enumerate(ops):
            evs.append((cs, "call", i))
            evs.append((rs, "ret", i))
        evs.sort()
        start = len(lines)
        lines.append({"e": "reset", "round": rn, "kind": kind, "init": init, "next": 0, "tag": "toy"})
        idx = {}
        for s, t, i in evs:
            g, op, a, res, cs, rs = ops[i]
            if t == "call":
                d = {"e": "call", "g": g, "op": op, "rl": 0, "seq": s}
                d.update(a)
                lines.append(d)
                idx[i] = len(lines) - 1
            else:
                lines.append({"e": "ret", "g": g, "r": res, "seq": s})
                lines[idx[i]]["rl"] = len(lines)
        lines.extend(extra)
        lines[start]["next"] = len(lines) + 1
    lines.append({"e": "end"})
    return lines


def renumber(round_lines, rn=1):
    """Makes one stored round (reset line first) a self-contained trace: line references rebased to line 1."""
    off = None
    out = []
    for i, d in enumerate(round_lines):
        d = dict(d)
        if i == 0:
            # the reset line sits at line (next - len(round)) of its original file
            off = d["next"] - len(round_lines) - 1
            d["round"] = rn
        if "next" in d:
            d["next"] -= off
        if "rl" in d:
            d["rl"] -= off
        out.append(d)
    return out


def concat(rounds_lines):
    """Concatenates self-contained rounds (each rebased to line 1) into one trace with an end marker; rounds are numbered 1.."""
    out = []
    for n, rl in enumerate(rounds_lines, 1):
        base = len(out)
        for d in renumber(rl, n):
            d = dict(d)
            if "next" in d:
                d["next"] += base
            if "rl" in d:
                d["rl"] += base
            out.append(d)
    out.append({"e": "end"})
    return out


def write_trace(path, lines):
    with open(path, "w") as f:
        for l in lines:
            f.write(json.dumps(l) + "\n")


def read_rounds(path):
    """-> {round: [lines]} (the end marker dropped)."""
    rounds, cur = {}, None
    with open(path) as f:
        for line in f:
            d = json.loads(line)
            if d["e"] == "reset":
                cur = rounds.setdefault(d["round"], [])
            if d["e"] == "end":
                break
            cur.append(d)
    return rounds


def check_wellformed(rounds):
    """Harness sanity (Infra when broken): sequence numbers strictly increase inside a round, every call has its return."""
    for rn, ls in rounds.items():
        last = 0
        open_ = {}
        for d in ls[1:]:
            if d["e"] in ("call", "ret"):
                if d["seq"] <= last:
                    raise Infra("round %d: sequence numbers not increasing (harness bug)" % rn)
                last = d["seq"]
                if d["e"] == "call":
                    if d["g"] in open_:
                        raise Infra("round %d: goroutine %d has two open calls (harness bug)" % (rn, d["g"]))
                    open_[d["g"]] = d
                else:
                    if d["g"] not in open_:
                        raise Infra("round %d: return without call (harness bug)" % rn)
                    del open_[d["g"]]
        if open_:
            raise Infra("round %d: call without return (harness bug)" % rn)
        if len([d for d in ls if d["e"] == "call"]) > 24:
            raise Infra("round %d has more than 24 operations" % rn)


def outcome_stats(rounds, cnt):
    """Vacuity counters computed from the recorded histories."""
    for ls in rounds.values():
        kind = ls[0]["kind"]
        calls, ops = {}, []
        for d in ls:
            if d["e"] == "call":
                calls[d["g"]] = d
            elif d["e"] == "ret":
                c = calls.pop(d["g"])
                ops.append((c, d))
        reprices = [(c["seq"], d["seq"]) for c, d in ops if c["op"] == "reprice"]
        for c, d in ops:
            op, r = c["op"], d["r"]
            cnt["%s.%s" % (kind, op)] += 1
            if kind == "map" and op == "Insert":
                cnt["map.Insert:%s" % str(r).lower()] += 1
            elif kind == "map" and op == "Get":
                cnt["map.Get:%s" % ("hit" if r["ok"] else "miss")] += 1
            elif kind == "cont" and op in ("Add", "Replace"):
                cnt["cont.%s:%s" % (op, r)] += 1
            elif kind == "cont" and op == "Get":
                cnt["cont.Get:%s" % r["err"]] += 1
            elif kind == "flag" and op == "Set":
                cnt["flag.Set:%s" % str(r).lower()] += 1
            elif kind == "sched" and op == "exec":
                cnt["fn." + c.get("fn", "?")] += 1
                ks = decode(r, c["m"], c["n"])
                if ks and ks[0] != ls[0]["init"]:
                    cnt["sched.exec:repriced"] += 1
                # overlapped a repricing in the log
                if any(pc < d["seq"] and pr > c["seq"] for pc, pr in reprices):
                    cnt["sched.exec:overlaps-reprice"] += 1


def decode(charge, m, n):
    return [k for k in range(1, 10) if charge == 100000 * m * k + n * k]


def describe_sched(ls):
    """Human-readable decoding of the executions of a rejected sched round (the verdict itself is TLC's)."""
    out = []
    calls = {}
    for d in ls:
        if d["e"] == "call":
            calls[d["g"]] = d
        elif d["e"] == "ret":
            c = calls.pop(d["g"])
            if c["op"] == "exec":
                ks = decode(d["r"], c["m"], c["n"])
                if d["r"] < 0:
                    out.append("exec g=%d of %s FAILED under concurrency (%s) although the identical call on an identical account succeeds sequentially: charged by no schedule" % (
                        c["g"], c.get("fn", "?"), c.get("err", "?")))
                elif not ks:
                    kb = d["r"] // (100000 * c["m"]) if d["r"] > 0 else -1
                    rest = d["r"] - 100000 * c["m"] * kb
                    kp = (rest // c["n"] if rest % c["n"] == 0 else round(rest / c["n"], 2)) if c["n"] else None
                    out.append("exec g=%d charge=%d m=%d n=%d: base part of schedule %s, per-byte part of schedule %s -> no single schedule%s" % (
                        c["g"], d["r"], c["m"], c["n"], kb, kp, (" (" + c["err"] + ")") if "err" in c else ""))
    return out


# ------------------------------------------------------------------------------------------------ TLC on histories
def lin_check(run, name, lines, skip, timeout=1200):
    """Runs LinTrace on the given lines. -> (accepted round numbers, completed?, high-water line, output)"""
    d = run.spec_dir(name)
    write_trace(os.path.join(d, "trace.ndjson"), lines)
    return lin_check_dir(run, d, skip, timeout)


def lin_check_dir(run, d, skip, timeout=1200):
    rc, o = run.tlc(d, "LinTrace", LIN_CFG % ("TRUE" if skip else "FALSE"), workers=1, timeout=timeout)
    acc = set(int(x) for x in re.findall(r'<<"ACC", (\d+)>>', o))
    hw = re.search(r'<<"HW", (\d+), (\d+)>>', o)
    # the search is complete (and the verdict certain) when TLC emptied its queue and reported nothing but, possibly, the failed postcondition
    errs = [l for l in o.splitlines() if l.startswith("Error:") and "Postcondition Accepted" not in l]
    finished = hw is not None and not errs and re.search(r", 0 states left on queue", o) is not None and \
        ("Model checking completed. No error has been found." in o or re.search(r"Error: Postcondition Accepted .* is false", o) is not None)
    return acc, finished, (int(hw.group(1)), int(hw.group(2))) if hw else None, o


# ------------------------------------------------------------------------------------------------ self-checks
def toy_rounds():
    kv = lambda k, v: {"k": k, "v": v}
    R, expect = [], []

    def add(ok, *r):
        R.append(r)
        expect.append(ok)
    # an overlapping Insert/Get where the Get sees the insert; then sequential observations
    add(True, "map", 0, [(1, "Insert", kv(1, 10), True, 1, 4), (2, "Get", kv(1, 0), {"v": 10, "ok": True}, 2, 3), (0, "Keys", kv(0, 0), [1], 5, 6), (0, "Len", kv(0, 0), 1, 7, 8)], [])
    # Insert returned before Get was called, Get misses it
    add(False, "map", 0, [(1, "Insert", kv(1, 10), True, 1, 2), (2, "Get", kv(1, 0), {"v": -1, "ok": False}, 3, 4)], [])
    # the same two operations overlapping: both orders possible
    add(True, "map", 0, [(1, "Insert", kv(1, 10), True, 1, 4), (2, "Get", kv(1, 0), {"v": -1, "ok": False}, 2, 3)], [])
    # two inserts of one key both succeed (lost insert)
    add(False, "map", 0, [(1, "Insert", kv(1, 10), True, 1, 4), (2, "Insert", kv(1, 20), True, 2, 3)], [])
    add(True, "map", 0, [(1, "Keys", kv(0, 0), [], 1, 2), (2, "Remove", kv(1, 0), 0, 3, 4), (1, "Set", kv(2, 5), 0, 5, 6), (2, "Values", kv(0, 0), [5], 7, 8)], [])
    # counter: two overlapping Add(1) both return 1 (lost update); correct variant
    add(False, "counter", 0, [(1, "Add", {"v": 1}, 1, 1, 4), (2, "Add", {"v": 1}, 1, 2, 3)], [])
    add(True, "counter", 0, [(1, "Add", {"v": 1}, 2, 1, 4), (2, "Add", {"v": 1}, 1, 2, 3), (0, "Get", {"v": 0}, 2, 5, 6), (0, "Reset", {"v": 0}, 2, 7, 8), (0, "GetUint64", {"v": 0}, 0, 9, 10)], [])
    # a race report is never accepted
    add(False, "flag", False, [(1, "Set", {"b": False}, False, 1, 2)], [{"e": "race", "round": 0, "report": "toy"}])
    add(True, "flag", False, [(1, "Set", {"b": False}, False, 1, 2), (2, "Set", {"b": False}, True, 3, 4), (1, "Toggle", {"b": False}, 0, 5, 6), (2, "IsSet", {"b": False}, False, 7, 8)], [])
    # priced function: charged by the new schedule while the repricing is in progress / a mixture / a stale schedule
    kmn = lambda k, m, n: {"k": k, "m": m, "n": n}
    add(True, "sched", 1, [(1, "reprice", kmn(2, 0, 0), 0, 1, 4), (2, "exec", kmn(0, 1, 7), 200014, 2, 3)], [])
    add(False, "sched", 1, [(1, "reprice", kmn(2, 0, 0), 0, 1, 4), (2, "exec", kmn(0, 1, 7), 100014, 2, 3)], [])
    add(False, "sched", 1, [(1, "reprice", kmn(2, 0, 0), 0, 1, 2), (2, "exec", kmn(0, 1, 7), 100007, 3, 4)], [])
    # new-old inversion between two executions during one repricing
    add(False, "sched", 1, [(1, "reprice", kmn(2, 0, 0), 0, 1, 8), (2, "exec", kmn(0, 1, 7), 200014, 2, 3), (3, "exec", kmn(0, 2, 5), 200005, 4, 5)], [])
    add(True, "str", "", [(1, "Set", {"v": "a"}, 0, 1, 2), (2, "Get", {"v": ""}, "a", 3, 4)], [])
    add(False, "u64", "0", [(1, "Set", {"v": "18446744073709551615"}, 0, 1, 2), (2, "Get", {"v": ""}, "4294967295", 3, 4)], [])
    add(True, "bulk", 0, [], [{"e": "bulk", "obj": "counter", "init": 0, "sum": 10, "final": 10}, {"e": "bulk", "obj": "u64", "final": "5", "lasts": ["4", "5"]},
                              {"e": "bulk", "obj": "gas", "execs": 2, "charges": [{"c": 300021, "m": 1, "n": 7}, {"c": 1800009, "m": 2, "n": 1}]}])
    add(False, "bulk", 0, [], [{"e": "bulk", "obj": "counter", "init": 0, "sum": 10, "final": 9}])
    add(False, "bulk", 0, [], [{"e": "bulk", "obj": "ticket", "init": 0, "ops": 10, "distinct": 9, "final": 10}])
    add(False, "bulk", 0, [], [{"e": "bulk", "obj": "gas", "execs": 1, "charges": [{"c": 300014, "m": 1, "n": 7}]}])
    add(True, "bulk", 0, [], [{"e": "bulk", "obj": "drain", "sum": 50, "drained": 44, "final": 6}, {"e": "bulk", "obj": "tas", "iters": 9, "winners": 9}])
    add(False, "bulk", 0, [], [{"e": "bulk", "obj": "drain", "sum": 50, "drained": 40, "final": 6}])
    add(False, "bulk", 0, [], [{"e": "bulk", "obj": "tas", "iters": 9, "winners": 10}])
    add(True, "bulk", 0, [], [{"e": "bulk", "obj": "snap", "static": 48, "reads": 100, "minlen": 49, "missing": 0, "short": 0}])
    add(False, "bulk", 0, [], [{"e": "bulk", "obj": "snap", "static": 48, "reads": 100, "minlen": 48, "missing": 0, "short": 0}])
    add(False, "bulk", 0, [], [{"e": "bulk", "obj": "snap", "static": 48, "reads": 100, "minlen": 49, "missing": 1, "short": 0}])
    add(True, "cont", 0, [(1, "Add", kv("f1", 3), "nil", 1, 2), (2, "Add", kv("f1", 4), "err", 3, 4), (1, "Get", kv("f1", 0), {"id": 3, "err": "nil"}, 5, 6),
                          (2, "Keys", kv("", 0), ["f1"], 7, 8), (1, "Add", kv("", 0), "err", 9, 10), (1, "Add", kv("", 7), "err", 11, 12),
                          (2, "Replace", kv("f1", 9), "nil", 13, 14), (1, "Get", kv("f2", 0), {"id": 0, "err": "err"}, 15, 16), (1, "Len", kv("", 0), 1, 17, 18)], [])
    add(False, "cont", 0, [(1, "Add", kv("f1", 3), "nil", 1, 2), (2, "Remove", kv("f1", 0), 0, 3, 4), (1, "Get", kv("f1", 0), {"id": 3, "err": "nil"}, 5, 6)], [])
    return R, expect


def self_check_toys(run):
    """The checker must accept / reject hand-made histories with known verdicts (run before anything recorded is judged)."""
    R, expect = toy_rounds()
    lines = build_trace(R)
    acc, finished, hw, o = lin_check(run, "selfcheck-toys", lines, skip=True, timeout=300)
    if not finished:
        raise Infra("self-check of LinTrace did not complete:\n" + tail_errors(o))
    got = [(i + 1) in acc for i in range(len(expect))]
    if got != expect:
        raise Infra("self-check of LinTrace: hand-made histories %s were judged wrongly" % [i + 1 for i in range(len(expect)) if got[i] != expect[i]])
    # the same verdicts one history at a time without the skip action (high-water mark + POSTCONDITION), on a rejected and an accepted one
    rs = list(split_rounds(lines))
    for i in (expect.index(False), expect.index(True)):
        acc1, fin1, hw1, o1 = lin_check(run, "selfcheck-single", concat([rs[i]]), skip=False, timeout=300)
        if not fin1 or (hw1[0] == hw1[1] + 1) != expect[i]:
            raise Infra("self-check of LinTrace (single history, POSTCONDITION): history %d judged wrongly" % (i + 1))
    return len(expect), expect.count(False)


def self_check_recorded(run, recorded):
    """Binding: a recorded round of the real code is accepted as recorded and rejected after one return value was altered /
    two events were swapped. Any disagreement is Infra."""
    ctr = next((ls for ls in recorded.values() if ls[0]["kind"] == "counter" and not any(d["e"] == "race" for d in ls)), None)
    mp = next((ls for ls in recorded.values() if ls[0]["kind"] == "map" and not any(d["e"] == "race" for d in ls)), None)
    if ctr is None or mp is None:
        raise Infra("self-check: no recorded counter/map round to corrupt")
    good = renumber(ctr)
    bad = [dict(d) for d in good]
    fin = max(i for i, d in enumerate(bad) if d["e"] == "ret" and d["g"] == 0 and bad[i - 1].get("op") == "Get")
    bad[fin]["r"] += 1000                       # the final Get after the join, off by 1000
    sw = [dict(d) for d in renumber(mp)]
    sw[-1], sw[-2] = sw[-2], sw[-1]             # the last return before its call
    expect = [True, False, True, False]
    acc, finished, hw, o = lin_check(run, "selfcheck-recorded", concat([good, bad, renumber(mp), sw]), skip=True, timeout=300)
    if not finished:
        raise Infra("self-check of LinTrace did not complete:\n" + tail_errors(o))
    got = [(i + 1) in acc for i in range(4)]
    if got != expect:
        raise Infra("self-check of LinTrace on recorded rounds (as recorded / corrupted): verdicts %s, expected %s" % (got, expect))
    return 4, 2


def split_rounds(lines):
    cur = []
    for d in lines:
        if d["e"] == "reset" and cur:
            yield cur
            cur = []
        if d["e"] != "end":
            cur.append(d)
    if cur:
        yield cur


# ------------------------------------------------------------------------------------------------ the drivers
CRASH_SIGNS = ["fatal error: concurrent map", "WARNING: DATA RACE", "fatal error: sync:", "sync: RUnlock of unlocked RWMutex", "sync: Unlock of unlocked RWMutex",
               "sync: unlock of unlocked mutex"]


def drive(run, exe, race, seed, rounds, bulk, bulkreps, tag, kinds=KINDS, bulkg=8, gmax=None):
    """One driver invocation. -> dict(trace, stats, args, race, crash) ; crash = text when the process died of a concurrency failure."""
    trace = os.path.join(run.dir, "conc-%s.ndjson" % tag)
    racelog = os.path.join(run.dir, "racelog-%s" % tag)
    # logged rounds: 2-16 goroutines; 2-8 in the race build (its slow instrumented operations nearly all overlap, and the
    # linearization search grows with 2^overlap); the unlogged bulk runs use bulkg goroutines in both builds
    gmax = gmax or (8 if race else 16)
    args = ["conc", "-seed", str(seed), "-rounds", str(rounds), "-kinds", kinds, "-bulk", str(bulk), "-bulkreps", str(bulkreps), "-bulkg", str(bulkg), "-gmax", str(gmax)]
    full = [exe] + args + ["-out", trace] + (["-racelog", racelog] if race else [])
    env = dict(os.environ, GORACE="log_path=%s halt_on_error=0 exitcode=66" % racelog)
    try:
        p = subprocess.run(full, cwd=run.dir, env=env, stdout=subprocess.PIPE, stderr=subprocess.PIPE, timeout=1500, text=True, errors="replace")
    except subprocess.TimeoutExpired:
        raise Infra("driver timed out: " + " ".join(full))
    res = {"trace": trace, "args": args, "race": race, "crash": None, "stats": None, "racelog": ""}
    for f in sorted(os.listdir(run.dir)):
        if f.startswith("racelog-%s." % tag):
            res["racelog"] += open(os.path.join(run.dir, f), errors="replace").read()[:8000]
    if p.returncode not in (0, 66):
        txt = (p.stderr or "") + (p.stdout or "")
        if any(s in txt for s in CRASH_SIGNS):
            res["crash"] = txt[:6000]
            return res
        raise Infra("driver failed (%d): %s\n%s" % (p.returncode, " ".join(full), txt[-3000:]))
    try:
        res["stats"] = json.loads(p.stdout.strip().splitlines()[-1])
    except Exception:
        raise Infra("driver output not understood: " + (p.stdout or "")[-1000:])
    if p.returncode == 66 and not res["stats"].get("races"):
        res["late_race"] = res["racelog"] or "exit status 66 (race detector) without a report in the log"
    return res


def race_sites(report):
    """The two conflicting accesses of the first race report: 'Write at ... by goroutine N:' is followed by the innermost frame."""
    out = []
    lines = report.splitlines()
    for i, l in enumerate(lines[:-2]):
        if re.match(r"^(Previous )?(atomic )?(read|write) at 0x", l.strip(), re.I):
            out.append("%s %s (%s)" % (l.strip().split(" at ")[0].lower(), lines[i + 1].strip(), lines[i + 2].strip().split(" +")[0]))
        if len(out) == 2:
            break
    return out


_VLOCK = threading.Lock()


def add_violation(run, pred, desc, robj):
    """run.add_violation numbers the replay files by the violations registered so far: one at a time (chunks are judged in threads)."""
    with _VLOCK:
        run.add_violation(pred, desc, robj)


def classify(ls):
    if any(d["e"] == "race" for d in ls):
        return "P19_NoRace"
    kind = ls[0]["kind"]
    if kind == "bulk":
        obj = next((d.get("obj") for d in ls if d["e"] == "bulk"), "")
        return "P19_OneSchedule" if obj == "gas" else ("P19_Linearizable" if obj == "snap" else "P19_NoLostUpdate")
    return PRED_OF_KIND.get(kind, "P19_Linearizable")


def judge_chunk(run, d, tag, maxviol=6):
    """Validates one recorded trace; registers a violation for every rejected round (after an exhaustive single-round search)."""
    cnt = Counter()
    if d["crash"]:
        add_violation(run, "P19_NoRace", {"kind": "crash", "what": d["crash"].splitlines()[0][:200]},
                          {"family": "conc", "history": [], "driver": {"args": d["args"], "race": d["race"]}, "report": d["crash"]})
        return {"rounds": 0, "accepted": 0, "ops": 0, "cnt": cnt, "stats": {}}
    rounds = read_rounds(d["trace"])
    check_wellformed(rounds)
    if len(rounds) != d["stats"]["rounds"]:
        raise Infra("trace %s holds %d rounds, the driver reported %d" % (d["trace"], len(rounds), d["stats"]["rounds"]))
    sd = run.spec_dir("lin-" + tag)
    dst = os.path.join(sd, "trace.ndjson")
    if os.path.lexists(dst):
        os.remove(dst)
    os.symlink(d["trace"], dst)
    acc, finished, hw, o = lin_check_dir(run, sd, skip=True)
    if not finished or "Model checking completed. No error has been found." not in o or hw is None or hw[0] != hw[1] + 1:
        raise Infra("trace validation of %s did not run to the end of the log:\n%s" % (d["trace"], tail_errors(o)))
    if not acc <= set(rounds):
        raise Infra("LinTrace accepted unknown rounds")
    rejected = sorted(set(rounds) - acc)
    outcome_stats({r: rounds[r] for r in acc}, cnt)
    for rn in rejected[:maxviol]:
        ls = rounds[rn]
        single = concat([ls])
        acc1, fin1, hw1, o1 = lin_check(run, "single-%s-%d" % (tag, rn), single, skip=False, timeout=900)
        if not fin1 or hw1 is None:
            raise Infra("round %d of %s was not accepted, but the exhaustive search of that round alone did not complete: no verdict\n%s" % (rn, d["trace"], tail_errors(o1)))
        if hw1[0] == hw1[1] + 1:
            raise Infra("round %d of %s: rejected inside the file but accepted alone (checker inconsistency)" % (rn, d["trace"]))
        stuck = dict(single[hw1[0] - 1]) if hw1[0] - 1 < len(single) else {}
        if stuck.get("obj") == "gas":      # description only (the verdict is TLC's): the charges no single schedule explains
            bad = [x for x in stuck["charges"] if not decode(x["c"], x["m"], x["n"])]
            stuck["charges"] = bad[:5]
            stuck["undecodable"] = len(bad)
        pred = classify(ls)
        desc = {"kind": ls[0]["kind"], "round": rn, "tag": ls[0].get("tag", ""), "ops": len([x for x in ls if x["e"] == "call"]),
                "stuck_at": {k: v for k, v in stuck.items() if k != "report"}, "race_build": d["race"]}
        if ls[0]["kind"] == "sched":
            desc["decoding"] = describe_sched(ls)[:4]
        rep = next((x.get("report") for x in ls if x["e"] == "race"), None)
        if rep:
            desc["race_at"] = race_sites(rep)
        add_violation(run, pred, desc, {"family": "conc", "history": single, "driver": {"args": d["args"], "race": d["race"]},
                                       "report": rep or d.get("racelog", "")[:6000], "tlc": "high-water mark %d of %d lines; the search of this round was exhaustive" % hw1})
    if len(rejected) > maxviol:
        cnt["rejected_not_recheck"] = len(rejected) - maxviol
    if d.get("late_race"):
        add_violation(run, "P19_NoRace", {"kind": "race-report", "what": d["late_race"].splitlines()[0][:200] if d["late_race"] else ""},
                          {"family": "conc", "history": [], "driver": {"args": d["args"], "race": d["race"]}, "report": d["late_race"]})
    return {"rounds": len(rounds), "accepted": len(acc), "ops": d["stats"]["ops"], "cnt": cnt, "stats": d["stats"], "sample": rounds}


# ------------------------------------------------------------------------------------------------ the check
def run_c19(run):
    cfg = TIERS[run.tier]
    run.trusted += ["Go race detector (-race build of the harness): data races are observed by it, not by TLC; a report becomes a `race` event the specification has no action for",
                    "Go runtime's concurrent-map-access check (a `fatal error: concurrent map ...` crash of the driver counts as a race report)",
                    "sync/atomic of the Go standard library for the sequence counter that orders the recorded events"]
    run.extra_assumptions += [
        "C19: exploration of goroutine schedules is random (seeded operation mixes, real scheduler), not exhaustive; only the model of the lock protocol (Concurrency.tla part 2) is explored exhaustively",
        "C19: data races are detected by Go's race detector on the schedules that actually ran, not by TLC",
        "C19: gas-schedule changes are issued by ONE goroutine at a time (GasScheduleChange is not claimed to be safe against itself); epoch notifications by one goroutine",
        "C19: (m, n) of every priced call are measured by running the identical call sequentially on an identical account against a second container fixed at schedule 1",
        "C19: counter operands stay far from the int64 bounds (TLC integers are 32-bit); register values are compared as opaque strings",
    ]
    t0 = time.time()
    # builds and the model runs overlap
    with ThreadPoolExecutor(max_workers=4) as ex:
        f_plain = ex.submit(run.build_harness)
        f_lock = ex.submit(run.model_check, "Concurrency", LOCK_CFG, "Concurrency-lock", 600)
        f_nolock = ex.submit(run.model_check, "Concurrency", NOLOCK_CFG, "Concurrency-nolock", 600, False)
        f_toys = ex.submit(self_check_toys, run)
        exe = f_plain.result()
        f_race = ex.submit(run.build_harness, True)
        ok, o, info = f_lock.result()           # raises Infra when an invariant of the lock model fails
        if not info["complete"]:
            raise Infra("lock-protocol model: state space not explored completely")
        nok, no, ninfo = f_nolock.result()
        if nok or "Invariant OneSchedule is violated" not in no:
            raise Infra("non-vacuity: with NoLock = TRUE TLC did not find the mixed charge (OneSchedule was not violated):\n" + tail_errors(no))
        run.cov["counters"]["nolock_mixture_found"] = 1
        n_self, n_rej = f_toys.result()         # Infra when the checker misjudges a hand-made history
        exe_race = f_race.result()
    run.cov["exhaustive"] = False                                  # schedule exploration on the real code is random ...
    run.cov["exhaustive_parts"] = "lock-protocol model (Concurrency.tla part 2) only; every recorded round is searched exhaustively for a linearization"

    jobs = []
    toff = 0 if run.tier == "quick" else 100     # the tiers draw different operation mixes
    for i, n in enumerate(cfg["plain"]):
        jobs.append((exe, False, run.seed * 1000 + toff + i, n, cfg["bulk_plain"], 1, "p%d" % i))
    for i, n in enumerate(cfg["race"]):
        jobs.append((exe_race, True, run.seed * 1000 + toff + 500 + i, n, cfg["bulk_race"], cfg["bulkreps"], "r%d" % i))
    results = []
    total = Counter()
    tot = dict(rounds=0, accepted=0, ops=0, overlaps=0, races=0, bulk_rounds=0)
    by_kind = Counter()
    first_rounds = None
    def chunk(j):
        d = drive(run, *j)
        return d, judge_chunk(run, d, j[6])

    # a few drivers run side by side (which also varies the load the goroutines meet), each followed by its validation
    with ThreadPoolExecutor(max_workers=cfg["par"]) as ex:
        futs = [(j, ex.submit(chunk, j)) for j in jobs]
        for j, f in futs:
            d, r = f.result()
            total.update(r["cnt"])
            tot["rounds"] += r["rounds"]
            tot["accepted"] += r["accepted"]
            tot["ops"] += r["ops"]
            st = r["stats"]
            tot["overlaps"] += st.get("overlaps", 0)
            tot["races"] += st.get("races", 0)
            by_kind.update(st.get("by_kind", {}))
            if first_rounds is None and r.get("sample"):
                first_rounds = r["sample"]
            r.pop("sample", None)
            if run.tier == "thorough" and os.path.exists(d["trace"]) and not run.violations and j[6] not in ("p0", "r0"):
                os.remove(d["trace"])
    if first_rounds:
        if not any(v["desc"].get("kind") in ("counter", "map") for v in run.violations):
            a, b = self_check_recorded(run, first_rounds)
            n_self, n_rej = n_self + a, n_rej + b
        run.cov["counters"]["selfcheck_histories"] = n_self
        run.cov["counters"]["selfcheck_rejected_as_required"] = n_rej
        small = sorted(first_rounds.items(), key=lambda kv: (len(kv[1]) > 14, kv[0]))
        seen = set()
        for rn, ls in small:
            k = ls[0]["kind"]
            if k in seen or len(run.cov["samples"]) >= 6:
                continue
            seen.add(k)
            run.cov["samples"].append({"round": rn, "kind": k, "history": [{x: y for x, y in d.items() if x not in ("tag", "next", "rl")} for d in ls][:16]})
    elif not run.violations:
        raise Infra("no recorded round")

    run.cov["traces_validated_against_impl"] = tot["accepted"]
    run.cov["evaluations"] = tot["ops"]
    opnames = sorted(k for k in total if "." in k and ":" not in k and not k.startswith("fn."))
    outcomes = sorted(k for k in total if ":" in k)
    run.cov["distinct_nontrivial"] = len(opnames) + len(outcomes)
    run.cov["rule"] = ("recorded call/return histories of the real objects (2-16 goroutines, <= 24 operations per round, seeded mixes), every round decided by an exhaustive "
                       "TLC search for a linearization against the sequential specification; distinct_nontrivial = number of distinct (object kind, operation) pairs "
                       "plus distinct (operation, outcome class) pairs that occurred in accepted histories; evaluations = recorded operations; "
                       "states/transitions = the exhaustive lock-protocol model (2 executors, 1 repricer, 3 schedules)")
    run.cov["counters"].update({k: v for k, v in total.items()})
    run.cov["counters"].update({"rounds_recorded": tot["rounds"], "rounds_accepted": tot["accepted"], "operations": tot["ops"], "overlapping_pairs_in_log": tot["overlaps"],
                                "race_reports": tot["races"], "driver_runs_plain": len(cfg["plain"]), "driver_runs_race": len(cfg["race"])})
    run.cov["counters"].update({"rounds_" + k: v for k, v in by_kind.items()})
    run.cov["predicates"] = ["P19_Linearizable", "P19_NoLostUpdate", "P19_OneSchedule", "P19_NoRace", "OneSchedule (model)", "HeldStable (model)", "MutualExclusion (model)"]
    if not run.violations:
        for k in NEED_OPS:
            run.require(total.get(k, 0) >= 1, "operation %s never recorded" % k)
        for k in NEED_OUTCOMES:
            run.require(total.get(k, 0) >= 1, "outcome %s never recorded" % k)
        for fn in PRICED + BASE_ONLY:
            run.require(total.get("fn." + fn, 0) >= 1, "priced function %s never executed" % fn)
        for k in ("map", "cont", "flag", "counter", "i64", "u32", "u64", "str", "sched", "bulk"):
            run.require(by_kind.get(k, 0) >= 1, "no round of kind %s" % k)
        run.require(tot["overlaps"] * 10 >= tot["rounds"], "histories hardly concurrent: %d overlapping pairs in %d rounds" % (tot["overlaps"], tot["rounds"]))
        run.require(tot["accepted"] == tot["rounds"], "accepted %d of %d rounds without a violation being registered" % (tot["accepted"], tot["rounds"]))


# ------------------------------------------------------------------------------------------------ replay
def replay(run, obj):
    """Re-validates the stored history with TLC (it is the evidence: a concurrent schedule cannot be re-forced) and re-runs the
    driver with the stored parameters a number of times against the current tree."""
    still = False
    hist = obj.get("history") or []
    if hist:
        acc, finished, hw, o = lin_check(run, "replay-stored", hist, skip=False, timeout=900)
        if not finished or hw is None:
            print("INFRA replay: TLC did not complete on the stored history\n" + tail_errors(o))
            return 2
        still = hw[0] != hw[1] + 1
        print("STORED-HISTORY property=%s predicate=%s: %s by LinTrace (consumed %d of %d lines)" % (
            obj["property"], obj["predicate"], "still REJECTED" if still else "now accepted", hw[0] - 1, hw[1]))
    drv = obj.get("driver") or {}
    reruns, hits = 8, 0
    if drv.get("args"):
        exe = run.build_harness(race=True) if drv.get("race") else run.build_harness()
        a = drv["args"]
        seed = int(a[a.index("-seed") + 1])
        rounds = int(a[a.index("-rounds") + 1])
        bulk = int(a[a.index("-bulk") + 1])
        reps = int(a[a.index("-bulkreps") + 1])
        kinds = a[a.index("-kinds") + 1]
        gmax = int(a[a.index("-gmax") + 1]) if "-gmax" in a else None
        before = len(run.violations)
        run.add_violation = lambda pred, desc, robj: run.violations.append({"predicate": pred, "desc": desc, "replay": None})   # re-runs write no replay files
        for i in range(reruns):
            d = drive(run, exe, bool(drv.get("race")), seed, rounds, bulk, reps, "replay%d" % i, kinds=kinds, gmax=gmax)
            n0 = len(run.violations) + len(run.known_hits)
            judge_chunk(run, d, "replay%d" % i, maxviol=2)
            if len(run.violations) + len(run.known_hits) > n0:
                hits += 1
        preds = sorted({v["predicate"] for v in run.violations[before:]})
        print("RERUN property=%s: %d of %d re-runs of the driver (same parameters, current tree) showed a violation %s" % (obj["property"], hits, reruns, preds))
    # the verdict about the CURRENT tree comes from re-running the driver; the stored history is the witness for the tree it was
    # recorded on (a concurrent schedule cannot be re-forced) and is only re-validated, never counted against another tree
    if hits > 0 or (still and not drv.get("args")):
        print("REPRODUCED property=%s predicate=%s" % (obj["property"], obj["predicate"]))
        return 1
    print("NOT-REPRODUCED property=%s predicate=%s" % (obj["property"], obj["predicate"]))
    return 0


PROPS = {"C19": {"run": run_c19}}
FAMILIES = ["conc"]
