"""Collects the property families defined in bin/fam_*.py (each exposes PROPS = {id: {"run": fn}} and optionally replay(run, obj))."""
import glob, importlib, os, sys

PROPS = {}
_REPLAY = {}
for _f in sorted(glob.glob(os.path.join(os.path.dirname(os.path.abspath(__file__)), "fam_*.py"))):
    try:
        _m = importlib.import_module(os.path.basename(_f)[:-3])
    except Exception as _e:          # a broken family must not take the others down
        sys.stderr.write("warning: family %s not loaded: %r\n" % (os.path.basename(_f), _e))
        continue
    PROPS.update(getattr(_m, "PROPS", {}))
    if hasattr(_m, "replay"):
        for _fam in getattr(_m, "FAMILIES", []):
            _REPLAY[_fam] = _m.replay


def replay(run, obj):
    fn = _REPLAY.get(obj.get("family"))
    if not fn:
        print("INFRA replay: unknown family", obj.get("family"))
        return 2
    return fn(run, obj)
