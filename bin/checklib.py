"""Shared machinery of bin/check: work directories, harness build, TLC invocations, verdicts, evidence."""
import json, os, re, shutil, subprocess, sys, time, glob, tempfile

ROOT = os.path.dirname(os.path.dirname(os.path.abspath(__file__)))
SPEC = os.path.join(ROOT, "spec")
WORK = os.path.join(ROOT, ".work")
REPLAYS = os.path.join(ROOT, "replays")
GOENV = dict(os.environ, GOFLAGS="-mod=mod", GOPROXY="off", GOSUMDB="off", GOTOOLCHAIN="local", CGO_ENABLED=os.environ.get("CGO_ENABLED", "1"))
NCPU = os.cpu_count() or 4

ASSUMPTIONS = [
    "protocol model of the harness (DESIGN.md 1.2): rollback of a failed call by the caller, commit of sender/destination accounts on success, "
    "cross-shard delivery of emitted built-in calls, return-after-error refunds, hand-over message sent by the previous holder",
    "the harness's projection of storage into the abstract world (harness/world/project.go), which decodes entries with the generated decoder",
    "TLC, the Json community module and the Go toolchain",
    "system-contract discipline: roles only for issued alias-free tokens, no role twice, one create-role holder per token",
]


class Infra(Exception):
    pass


def sh(cmd, cwd=None, env=None, timeout=None, check=False):
    p = subprocess.run(cmd, cwd=cwd, env=env, stdout=subprocess.PIPE, stderr=subprocess.STDOUT, timeout=timeout, text=True, errors="replace")
    if check and p.returncode != 0:
        raise Infra("command failed (%d): %s\n%s" % (p.returncode, " ".join(cmd), p.stdout[-3000:]))
    return p.returncode, p.stdout


def load_known():
    path = os.path.join(ROOT, "known_findings.json")
    if not os.path.exists(path):
        return {"open": [], "fixed": []}
    return json.load(open(path))


class Run:
    """One invocation of one property's check."""

    def __init__(self, pid, tier, seed):
        self.pid, self.tier, self.seed = pid, tier, seed
        # VERIF_REPO / VERIF_WORKTAG / VERIF_EVIDENCE_DIR: development only (mutation calibration against a scratch copy of the
        # repository without touching /repo or the committed evidence); the registered commands never set them
        self.repo = os.environ.get("VERIF_REPO", "/repo")
        tag = os.environ.get("VERIF_WORKTAG", "")
        self.dir = os.path.join(WORK, "%s-%s%s" % (pid, tier, ("-" + tag) if tag else ""))
        shutil.rmtree(self.dir, ignore_errors=True)
        os.makedirs(self.dir, exist_ok=True)
        self.snap = os.path.join(self.dir, "spec-snapshot")
        os.makedirs(self.snap)
        for f in glob.glob(os.path.join(SPEC, "*.tla")):
            shutil.copy(f, self.snap)
        self.vh = None
        self.violations = []      # dicts: pred, line, trace file, replay path
        self.known_hits = []
        self.cov = {"states": 0, "transitions": 0, "traces_validated_against_impl": 0, "samples": [], "evaluations": 0,
                    "distinct_nontrivial": 0, "rule": "", "exhaustive": False, "tlc_cmds": [], "counters": {}, "drift_steps": 0, "model_runs": []}
        self.level = "model_checking"
        self.trusted = []
        self.extra_assumptions = []
        self.vacuity_failures = []

    # ---------------------------------------------------------------- build
    def build_harness(self, race=False):
        out = os.path.join(self.dir, "vh-race" if race else "vh")
        # the harness module replaces the library with /repo: this compiles the current working tree
        src = os.path.join(ROOT, "harness")
        if self.repo != "/repo":
            src = os.path.join(self.dir, "harness-src")
            shutil.rmtree(src, ignore_errors=True)
            shutil.copytree(os.path.join(ROOT, "harness"), src)
            gm = open(os.path.join(src, "go.mod")).read().replace("=> /repo", "=> " + self.repo)
            open(os.path.join(src, "go.mod"), "w").write(gm)
        shutil.copy(os.path.join(self.repo, "go.sum"), os.path.join(src, "go.sum"))
        cmd = ["go", "build"] + (["-race"] if race else []) + ["-o", out, "./cmd/vh"]
        if os.environ.get("VERIF_COVER"):
            # development aid (bin/covreport): statement coverage of the library under the drivers; the binary writes to $GOCOVERDIR
            cmd[2:2] = ["-cover", "-coverpkg=all"]
        rc, o = sh(cmd, cwd=src, env=GOENV, timeout=600)
        if rc != 0:
            raise Infra("harness does not build against /repo: " + o[-2000:])
        if not race:
            self.vh = out
        return out

    def harness(self, args, out_json=True, timeout=3000, exe=None, env=None):
        rc, o = sh([exe or self.vh] + args, cwd=self.dir, timeout=timeout, env=env)
        if rc != 0:
            raise Infra("harness failed (%d): vh %s\n%s" % (rc, " ".join(args), o[-3000:]))
        if not out_json:
            return o
        try:
            # (the statistics object is the last line; a coverage-instrumented binary may print warnings after it)
            return json.loads([l for l in o.strip().splitlines() if l.startswith("{")][-1])
        except Exception:
            raise Infra("harness output not understood: " + o[-1000:])

    # ---------------------------------------------------------------- TLC
    def spec_dir(self, name):
        # (the specification was snapshotted when the run started: a run must not see half of a later edit)
        snap = self.snap
        d = os.path.join(self.dir, name)
        os.makedirs(d, exist_ok=True)
        for f in glob.glob(os.path.join(snap, "*.tla")):
            shutil.copy(f, d)
        return d

    def tlc(self, d, module, cfg_text, workers=None, timeout=3000, extra=None, heap=None):
        """Runs TLC; the complete output goes to <module>.out, the returned text leaves out the (possibly huge) emitted TRANS lines."""
        with open(os.path.join(d, module + ".cfg"), "w") as f:
            f.write(cfg_text)
        md = os.path.join(d, "md-" + module)
        shutil.rmtree(md, ignore_errors=True)
        cmd = ["tlc", "-workers", str(workers or NCPU), "-metadir", md] + (extra or []) + [module + ".tla"]
        t0 = time.time()
        outp = os.path.join(d, module + ".out")
        with open(outp, "w") as of:
            # deep recursion over long argument lists (multi-transfers of 257 tokens) needs a larger thread stack
            # (java.io.tmpdir: SANY unpacks the standard modules into a temporary directory per run; keep it inside the work directory)
            jt = tempfile.mkdtemp(prefix="jtmp-", dir=d)     # (one per invocation: several TLC runs may share d)
            env = dict(os.environ, JAVA_TOOL_OPTIONS=(os.environ.get("JAVA_TOOL_OPTIONS", "") + " -Xss256m -Djava.io.tmpdir=" + jt).strip())
            p = subprocess.Popen(cmd, cwd=d, stdout=of, stderr=subprocess.STDOUT, env=env)
            try:
                rc = p.wait(timeout=timeout)
            except subprocess.TimeoutExpired:
                p.kill()
                subprocess.run(["pkill", "-f", md])
                raise Infra("TLC timed out after %ds: %s" % (timeout, " ".join(cmd)))
        shutil.rmtree(md, ignore_errors=True)
        shutil.rmtree(jt, ignore_errors=True)
        self.cov["tlc_cmds"].append("(cd %s && %s)  # %.1fs" % (os.path.relpath(d, ROOT), " ".join(cmd), time.time() - t0))
        keep = []
        with open(outp, errors="replace") as f:
            for line in f:
                if not line.startswith('<<"TRANS"'):
                    keep.append(line)
        return rc, "".join(keep)

    def model_check(self, module, cfg_text, name=None, timeout=3000, must_hold=True):
        """(M): exhaustive check of a bounded configuration. A violation here is a specification bug -> Infra."""
        d = self.spec_dir("mc-" + (name or module))
        rc, o = self.tlc(d, module, cfg_text, timeout=timeout)
        m = re.search(r"(\d[\d,]*) states generated, (\d[\d,]*) distinct states found, (\d[\d,]*) states left", o)
        gen = int(m.group(1).replace(",", "")) if m else 0
        dist = int(m.group(2).replace(",", "")) if m else 0
        left = int(m.group(3).replace(",", "")) if m else -1
        depth = re.search(r"depth of the complete state graph search is (\d+)", o)
        ok = "Model checking completed. No error has been found." in o
        info = {"config": name or module, "generated": gen, "distinct": dist, "complete": ok and left == 0, "depth": int(depth.group(1)) if depth else None}
        self.cov["model_runs"].append(info)
        if must_hold:
            if not ok:
                raise Infra("model check of %s failed (specification-level, nothing about the code was observed):\n%s" % (name or module, tail_errors(o)))
            self.cov["states"] += dist
            self.cov["transitions"] += gen
        return ok, o, info

    def validate(self, tracefile, checked, module="EsdtTrace", label="tv", timeout=3000):
        """(T): TLC evaluates the checked predicates on every recorded state and step. Returns (viols, done)."""
        d = self.spec_dir(label)
        dst = os.path.join(d, "trace.ndjson")
        if os.path.abspath(tracefile) != dst:
            if os.path.exists(dst):
                os.remove(dst)
            os.symlink(os.path.abspath(tracefile), dst)
        cfg = "INIT Init\nNEXT Next\nCHECK_DEADLOCK FALSE\nINVARIANT Finished\nCONSTANT Checked = {%s}\n" % ", ".join('"%s"' % c for c in checked)
        rc, o = self.tlc(d, module, cfg, workers=1, timeout=timeout)
        viols = []
        for m in re.finditer(r'<<\s*"VIOL",\s*(\d+),\s*\{([^}]*)\}\s*>>', o):
            for pred in re.findall(r'"([^"]+)"', m.group(2)):
                viols.append((int(m.group(1)), pred))
        drift = len(re.findall(r'<<\s*"DRIFT"', o))
        dm = re.search(r'<<\s*"DONE",\s*(\d+),\s*(\d+),\s*(\d+),\s*\[(.*?)\]\s*>>', o, re.S)
        if not dm or "Model checking completed. No error has been found." not in o:
            raise Infra("trace validation did not run to the end of the log (specification or harness error):\n" + tail_errors(o))
        counters = {k: int(v) for k, v in re.findall(r"(\w+) \|-> (\d+)", dm.group(4))}
        nlines = int(dm.group(1))
        drift_lines = [(int(a), b) for a, b in re.findall(r'<<\s*"DRIFT",\s*(\d+),.*?(\{.*\})\s*>>', o)]
        return viols, {"lines": nlines, "drift": drift, "counters": counters, "drift_lines": drift_lines}

    # ---------------------------------------------------------------- verdict
    def add_violation(self, pred, desc, replay_obj):
        """Registers a violation observed on real-code behaviour, unless a known open finding covers it."""
        for k in load_known().get("open", []):
            if k.get("property") == self.pid and k.get("predicate") in (pred, "*") and all(str(desc.get(f)) == str(v) for f, v in k.get("match", {}).items()):
                self.known_hits.append((k, desc))
                return
        rdir = os.path.join(REPLAYS + ("-" + os.environ["VERIF_WORKTAG"] if os.environ.get("VERIF_WORKTAG") else ""), self.pid)
        os.makedirs(rdir, exist_ok=True)
        path = os.path.join(rdir, "%s-seed%d-%d.json" % (self.tier, self.seed, len(self.violations) + 1))
        replay_obj = dict(replay_obj, property=self.pid, predicate=pred, description=desc)
        with open(path, "w") as f:
            json.dump(replay_obj, f, indent=1)
        self.violations.append({"predicate": pred, "desc": desc, "replay": path})

    def require(self, cond, what):
        if not cond:
            self.vacuity_failures.append(what)

    def finish(self):
        seen = set()
        for k, desc in self.known_hits:
            key = json.dumps(k, sort_keys=True)
            if key not in seen:
                seen.add(key)
                print("KNOWN-FINDING: property=%s %s" % (self.pid, k.get("what", "")))
        if self.violations:
            for v in self.violations[:20]:
                print("VIOLATION property=%s replay=%s predicate=%s %s" % (self.pid, v["replay"], v["predicate"], json.dumps(v["desc"])[:300]))
            return 1
        if self.vacuity_failures:
            print("INFRA property=%s: vacuity guard(s) not met: %s" % (self.pid, "; ".join(self.vacuity_failures)))
            return 2
        print("OK property=%s tier=%s seed=%d states=%d transitions=%d traces=%d steps=%d" % (
            self.pid, self.tier, self.seed, self.cov["states"], self.cov["transitions"], self.cov["traces_validated_against_impl"], self.cov["evaluations"]))
        return 0

    def write_evidence(self, wall, infra=None):
        evdir = os.environ.get("VERIF_EVIDENCE_DIR", os.path.join(ROOT, "evidence"))
        os.makedirs(evdir, exist_ok=True)
        cov = dict(self.cov)
        if not cov["samples"]:
            cov["samples"] = ["(no sample recorded: run ended early)"]
        cov["samples"] = cov["samples"][:6]
        if self.trusted:
            cov["trusted_base"] = self.trusted
        if infra:
            cov["infra_error"] = infra[:2000]
        if self.vacuity_failures:
            cov["vacuity_failures"] = self.vacuity_failures
        cov["violating_predicates"] = sorted({v["predicate"] for v in self.violations})
        cov["known_findings_hit"] = len(self.known_hits)
        ev = {"property_id": self.pid, "tier": self.tier, "seed": self.seed, "level": self.level, "coverage": cov,
              "assumptions": ASSUMPTIONS + self.extra_assumptions, "wall_s": round(wall, 2), "violations": len(self.violations)}
        with open(os.path.join(evdir, self.pid + ".json"), "w") as f:
            json.dump(ev, f, indent=1)


def tail_errors(o):
    lines = o.splitlines()
    keep = [l for l in lines if re.search(r"Error|error|violated|Invariant|Exception|line \d+, col", l)]
    return "\n".join((keep[:25] or lines[-25:]))[:4000]


def read_lines(path, wanted):
    """Returns {line number: parsed json} for the wanted 1-based line numbers."""
    res = {}
    wanted = set(wanted)
    if not wanted:
        return res
    mx = max(wanted)
    with open(path) as f:
        for i, line in enumerate(f, 1):
            if i in wanted:
                res[i] = json.loads(line)
            if i >= mx:
                break
    return res


def trace_prefix(replayfile, upto):
    """Concrete steps of the trace containing line `upto` (from its init line through `upto`)."""
    steps = []
    with open(replayfile) as f:
        for i, line in enumerate(f, 1):
            if i > upto:
                break
            c = json.loads(line)["c"]
            if c.get("kind") in ("init", "mcinit", "inject"):
                steps = []
            steps.append(c)
    return steps
