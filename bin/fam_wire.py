"""Wire family: C12 (transaction-data parsers are total and inverse to the builders) and C14 (token-data serialisation is lossless,
canonical and format-stable).  TLC is used here as an evaluator / enumerator of transcribed pure functions (DESIGN.md 8).

Verdict rule (DESIGN.md 2.4):
  (M) TLC checks laws ABOUT THE OPERATORS of spec/Wire.tla (round trips, sizes, canonical order, converse laws) on small exhaustive
      domains enumerated as a state space (spec/WireMC.tla) and GENERATES the case tables (spec/WireGen.tla, ndJsonSerialize).  A failure
      here is a specification error -> Infra (exit 2), never a violation: nothing about the code was observed.
  (T) the Go harness (harness/wire, vh wire12 / wire14) executes every table row and seeded random inputs on the REAL parsers / builder /
      Marshal / Unmarshal / Size of /repo, every call under recover(), and writes the observed table; TLC (spec/WireTrace.tla) consumes it
      line by line, re-evaluates the operators on the recorded inputs and evaluates the property predicates.  Only a predicate failing on
      an observed row is a VIOLATION; its replay file holds the concrete input row.
  (V) vacuity: TLC-side counters of what the observed table exercised; a deliberately corrupted copy of observed rows must be flagged by
      every predicate (binding self-test); mutated copies of the specification must violate the laws of (M).
"""
import concurrent.futures, json, os, random, re, shutil, time
from checklib import *  # noqa

FAMILIES = ["wire"]

P12 = ["P12_Total", "P12_Agrees", "P12_Inverse"]
P14 = ["P14_Bytes", "P14_RoundTrip", "P14_Size", "P14_Deterministic", "P14_DecodeTotal"]
PAR = max(2, min(10, NCPU - 4))          # concurrent single-worker TLC processes of the (T) pass


def q(names):
    return "{" + ", ".join('"%s"' % n for n in names) + "}"


def class_bytes(seed):
    """One representative byte per character class, chosen by the seed; the neighbours of the hex ranges are favoured."""
    r = random.Random(seed * 7919 + 12)
    return dict(CLetter=r.choice([ord(c) for c in "gGzZkxwyHTS_"]),
                CLower=r.choice([ord(c) for c in "abcdef"]),
                CUpper=r.choice([ord(c) for c in "ABCDEF"]),
                CDigit=r.choice([ord(c) for c in "0123456789"]),
                CNonHex=r.choice([47, 58, 96, 32, 0, 255, 37, 45, 10, 123]))   # '/' ':' '`' space NUL 0xff '%' '-' LF '{'


def consts_text(c):
    return "".join("  %s = %d\n" % kv for kv in sorted(c.items()))


# ---------------------------------------------------------------------------------------------------------------------
# (M) and generation
# ---------------------------------------------------------------------------------------------------------------------
def mc_cfg(fams, maxlen, maxargs, maxbytes, cb, invs):
    return ("SPECIFICATION Spec\nCONSTANTS\n  Fams = %s\n  MaxLen = %d\n  MaxArgs = %d\n  MaxBytes = %d\n%sINVARIANTS %s\nCHECK_DEADLOCK FALSE\n"
            % (q(fams), maxlen, maxargs, maxbytes, consts_text(cb), " ".join(invs)))


def gen_cfg(mode, maxlen, xlen, mlen, blen, cb):
    return "CONSTANTS\n  Mode = \"%s\"\n  MaxLen = %d\n  XLen = %d\n  MLen = %d\n  BLen = %d\n%s" % (mode, maxlen, xlen, mlen, blen, consts_text(cb))


def generate(run, mode, cfg, outfile):
    """One TLC run of WireGen (ASSUME ndJsonSerialize ...). Returns (path of the table, number of rows TLC reports)."""
    d = run.spec_dir("gen-" + mode)
    rc, o = run.tlc(d, "WireGen", cfg, workers=1, timeout=900 if run.tier == "quick" else 2400)
    m = re.search(r'<<\s*"GEN",\s*"%s",\s*(\d+)\s*>>' % mode, o)
    path = os.path.join(d, outfile)
    if not m or "No error has been found" not in o or not os.path.exists(path):
        raise Infra("table generation (%s) failed (specification-level):\n%s" % (mode, tail_errors(o)))
    return path, int(m.group(1))


SPEC_MUTANTS = {
    # (label, text in Wire.tla, replacement, invariant that must fail, families)
    "C12": [("upper-case encoder", "HexChar(n) == IF n < 10 THEN 48 + n ELSE 87 + n", "HexChar(n) == IF n < 10 THEN 48 + n ELSE 55 + n", "InvStr", ["str"]),
            ("sender-side items start one argument early", "first == IF atSender THEN 3 ELSE 2 IN", "first == IF atSender THEN 2 ELSE 2 IN", "InvXf", ["xf"]),
            ("odd-length hex accepted", "HexOK(t) == Len(t) % 2 = 0 /\\", "HexOK(t) ==", "InvStr", ["str"]),
            ("storage updates keep the leading separator", "TrimLeadingAt(s) == IF Len(s) > 0 /\\ s[1] = AT THEN SubSeq(s, 2, Len(s)) ELSE s", "TrimLeadingAt(s) == s", "InvArgs", ["args"])],
    "C14": [("zero amount as one byte", "ELSE IF a.mag = <<>> THEN <<0, 0>>", "ELSE IF a.mag = <<>> THEN <<0>>", "InvAmt", ["amt"]),
            ("empty repeated element dropped", "RepField(f, bs) == Cat([i \\in 1..Len(bs) |-> LenField(f, bs[i])])", "RepField(f, bs) == Cat([i \\in 1..Len(bs) |-> BytesField(f, bs[i])])", "InvRoles", ["roles"]),
            ("size forgets the reserved field", "+ (IF t.meta.has THEN SizeLen(SizeMeta(t.meta.m)) ELSE 0) + SizeBytesField(t.reserved)", "+ (IF t.meta.has THEN SizeLen(SizeMeta(t.meta.m)) ELSE 0)", "InvTok", ["tok"]),
            ("royalties before creator", "VarField(1, m.nonce) \\o BytesField(2, m.name) \\o BytesField(3, m.creator) \\o VarField(4, m.roy)",
             "VarField(1, m.nonce) \\o BytesField(2, m.name) \\o VarField(4, m.roy) \\o BytesField(3, m.creator)", "InvMeta", ["meta"])],
}


def spec_mutants(run, cb, which):
    """Non-vacuity of the (M) laws: a mutated copy of Wire.tla must violate the named invariant on a small configuration."""
    def one(idx):
        label, old, new, inv, fams = SPEC_MUTANTS[run.pid][idx]
        d = run.spec_dir("mut-%d" % idx)
        p = os.path.join(d, "Wire.tla")
        s = open(p).read()
        if old not in s:
            raise Infra("specification self-test '%s': the text to mutate is not in Wire.tla any more" % label)
        open(p, "w").write(s.replace(old, new))
        rc, o = run.tlc(d, "WireMC", mc_cfg(fams, 4, 2, 1, cb, [inv]), workers=2, timeout=600)
        if ("Invariant %s is violated" % inv) not in o and not re.search(r"Assumption .* of module WireMC is false", o):
            raise Infra("specification self-test '%s': the mutated specification does not violate %s\n%s" % (label, inv, tail_errors(o)))
        return label
    with concurrent.futures.ThreadPoolExecutor(max_workers=4) as ex:
        return list(ex.map(one, which))


# ---------------------------------------------------------------------------------------------------------------------
# (T)
# ---------------------------------------------------------------------------------------------------------------------
def validate_table(run, path, checked, label, timeout=3000):
    """TLC consumes one observed table to its end. Returns (viols [(line, pred)], done {lines, counters})."""
    d = run.spec_dir(label)
    dst = os.path.join(d, "observed.ndjson")
    if os.path.lexists(dst):
        os.remove(dst)
    os.symlink(os.path.abspath(path), dst)
    cfg = "INIT Init\nNEXT Next\nCHECK_DEADLOCK FALSE\nINVARIANT Finished\nCONSTANT Checked = %s\n" % q(checked)
    rc, o = run.tlc(d, "WireTrace", cfg, workers=1, timeout=timeout)
    viols = []
    for m in re.finditer(r'<<\s*"VIOL",\s*(\d+),\s*\{([^}]*)\}\s*>>', o):
        for pred in re.findall(r'"([^"]+)"', m.group(2)):
            viols.append((int(m.group(1)), pred))
    dm = re.search(r'<<\s*"DONE",\s*(\d+),\s*(\d+),\s*\[(.*?)\]\s*>>', o, re.S)
    if not dm or "Model checking completed. No error has been found." not in o:
        raise Infra("validation of %s did not run to the end of the table (specification or harness error):\n%s" % (os.path.basename(path), tail_errors(o)))
    if int(dm.group(2)) != len(viols):
        raise Infra("validation of %s reported %s violations but %d were read" % (os.path.basename(path), dm.group(2), len(viols)))
    for f in os.listdir(d):           # the copies of the specification are not needed any more
        if f.endswith(".tla"):
            os.remove(os.path.join(d, f))
    return viols, {"lines": int(dm.group(1)), "counters": {k: int(v) for k, v in re.findall(r"(\w+) \|-> (\d+)", dm.group(3))}}


def validate_all(run, files, checked):
    """All chunks of the observed table, PAR TLC processes at a time. Returns ([(file, line, pred)], summed counters, accepted tables)."""
    t = 900 if run.tier == "quick" else 3000
    # many single-worker JVMs side by side: without a cap every one of them starts one GC thread per core and they starve each other
    saved = os.environ.get("JAVA_TOOL_OPTIONS")
    os.environ["JAVA_TOOL_OPTIONS"] = ((saved + " ") if saved else "") + "-XX:ParallelGCThreads=2 -Xmx8g"
    try:
        with concurrent.futures.ThreadPoolExecutor(max_workers=PAR) as ex:
            # the chunks of random rows come last in the table and take longest: they are started first
            futs = {i: ex.submit(validate_table, run, f, checked, "tv-%03d" % i, t) for i, f in reversed(list(enumerate(files)))}
            res = [futs[i].result() for i in range(len(files))]
    finally:
        if saved is None:
            del os.environ["JAVA_TOOL_OPTIONS"]
        else:
            os.environ["JAVA_TOOL_OPTIONS"] = saved
    viols, total, accepted, lines = [], {}, 0, 0
    for f, (v, done) in zip(files, res):
        viols += [(f, l, p) for l, p in v]
        accepted += 0 if v else 1
        lines += done["lines"]
        for k, n in done["counters"].items():
            total[k] = total.get(k, 0) + n
    return viols, total, accepted, lines


def slim(row, n=160):
    """A row for the evidence / a description: long byte strings shortened."""
    def cut(v):
        if isinstance(v, list):
            if len(v) > 24 and all(isinstance(x, int) for x in v):
                return v[:24] + ["... %d bytes" % len(v)]
            return [cut(x) for x in v[:12]]
        if isinstance(v, dict):
            return {k: cut(x) for k, x in v.items()}
        return v
    return cut(row)


def text_of(b):
    return "".join(chr(x) if 32 <= x < 127 else "\\x%02x" % x for x in b)


def describe(row, pred):
    """What a violation looked like, in terms a known_findings entry can match on (kind, classes, error text)."""
    d = {"kind": row["k"], "src": row.get("src"), "classes": ",".join(row.get("cl", []))}
    for f in ("call", "deploy", "su", "res", "parse", "dst", "back", "tback"):
        v = row.get(f)
        if isinstance(v, dict) and v.get("cls") not in ("value", "error", "skipped"):
            d["what"] = "%s: %s %s" % (f, v.get("cls"), str(v.get("e", ""))[:80])
    if row["k"] == "xfer":
        d.update(fn=text_of(row["fn"]), nargs=len(row["args"]), side="sender" if row["snd"] == row["rcv"] else "destination", note=row.get("note", ""))
    elif row["k"] == "str" and "s" in row:
        d["s"] = text_of(row["s"])[:80]
    elif row["k"] in ("amt", "tok", "meta", "roles"):
        d.update(b1=row.get("b1", [])[:16], b2=row.get("b2", [])[:16], size=row.get("size"), note=row.get("note", ""))
        if row["k"] in ("amt", "tok") and "v" in row:
            a = row["v"] if row["k"] == "amt" else row["v"]["value"]
            d["amount"] = "nil" if a["k"] == "nil" else ("zero" if not a["mag"] else ("negative" if a["neg"] else "positive"))
    return d


def record(run, check, viols, limit=40, per_group=4):
    """One replay file per violating row, a few per (predicate, kind, what) group."""
    groups, want = {}, {}
    for f, l, p in viols:
        want.setdefault(f, set()).add(l)
    rows = {f: read_lines(f, ls) for f, ls in want.items()}
    byrow = {}
    for f, l, p in viols:
        byrow.setdefault((f, l), []).append(p)
    n = 0
    for (f, l), preds in byrow.items():
        row = rows[f][l]
        for p in preds:
            d = describe(row, p)
            key = (p, d["kind"], d.get("what", ""), d.get("side", ""), d.get("amount", ""))
            groups[key] = groups.get(key, 0) + 1
            if groups[key] > per_group or n >= limit:
                continue
            n += 1
            run.add_violation(p, dict(d, table=os.path.basename(f), line=l), {"family": "wire", "check": check, "rows": [row], "checked": [p]})
    run.cov["violation_groups"] = [{"predicate": k[0], "kind": k[1], "what": k[2], "side": k[3], "amount": k[4], "rows": v} for k, v in sorted(groups.items())]


# ---- binding self-test: corrupted observed rows must be flagged ---------------------------------------------------
def corrupt12(rows):
    out = []
    s = next((r for r in rows if r["k"] == "str" and r.get("call", {}).get("cls") == "value" and r["call"]["v"]["args"] and r["call"]["v"]["args"][0]), None)
    e = next((r for r in rows if r["k"] == "str" and r.get("su", {}).get("cls") == "error" and "s" in r), None)
    b = next((r for r in rows if r["k"] == "build" and r["f"] and 64 not in r["f"] and r["es"] and r["parse"]["cls"] == "value"), None)
    x = next((r for r in rows if r["k"] == "xfer" and r["res"]["cls"] == "value" and r["res"]["v"]["xs"]), None)
    if s:
        c = json.loads(json.dumps(s)); c["cl"] = ["value", "panic", "error"]; out.append((c, "P12_Total"))
        c = json.loads(json.dumps(s)); c["call"]["v"]["args"][0][0] ^= 1; out.append((c, "P12_Agrees"))
    if e:
        c = json.loads(json.dumps(e)); c["su"] = {"cls": "value", "v": []}; out.append((c, "P12_Agrees"))
    if b:
        c = json.loads(json.dumps(b)); c["data2"] = c["data2"] + [64]; out.append((c, "P12_Inverse"))
        c = json.loads(json.dumps(b)); c["parse"]["v"]["fn"] = c["parse"]["v"]["fn"] + [97]; out.append((c, "P12_Inverse"))
    if x:
        c = json.loads(json.dumps(x)); c["res"]["v"]["xs"][0]["val"]["mag"] = c["res"]["v"]["xs"][0]["val"]["mag"] + [0]; out.append((c, "P12_Agrees"))
    return out, 6


def corrupt14(rows):
    out = []
    t = next((r for r in rows if r["k"] == "tok" and "v" in r and len(r.get("b1", [])) > 6 and r["back"]["cls"] == "value" and r["b1"] == r["b2"]), None)
    a = next((r for r in rows if r["k"] == "amt" and "v" in r and r["v"]["k"] == "int" and r["v"]["mag"] and r["b1"] == r["b2"]), None)
    if t:
        c = json.loads(json.dumps(t)); c["b1"][-1] ^= 1; c["b2"][-1] ^= 1; out.append((c, "P14_Bytes"))
        c = json.loads(json.dumps(t)); c["size"] += 1; out.append((c, "P14_Size"))
        c = json.loads(json.dumps(t)); c["b2"][0] ^= 2; out.append((c, "P14_Deterministic"))
        c = json.loads(json.dumps(t)); c["back"]["v"]["type"] = c["back"]["v"]["type"] + [1]; out.append((c, "P14_RoundTrip"))
        c = json.loads(json.dumps(t)); c["cl"] = ["panic"]; out.append((c, "P14_DecodeTotal"))
    if a:
        c = json.loads(json.dumps(a)); c["back"]["v"]["neg"] = not c["back"]["v"]["neg"]; out.append((c, "P14_RoundTrip"))
        c = json.loads(json.dumps(a)); c["b1"][0] = 1 - c["b1"][0]; c["b2"][0] = 1 - c["b2"][0]; out.append((c, "P14_Bytes"))
    return out, 7


def binding_selftest(run, files, checked, corrupt):
    """Corrupts single fields of observed rows (in a scratch table) and requires TLC to flag each with the intended predicate."""
    rows = []
    for f in files:
        n = 0
        with open(f) as fh:
            for i, line in enumerate(fh):
                if i < 150 or i % 40 == 0:
                    rows.append(json.loads(line))
                    n += 1
                if n >= 600:
                    break
    cases, want = corrupt(rows)
    if len(cases) != want:
        raise Infra("binding self-test: only %d of %d corruptions could be constructed from the observed table" % (len(cases), want))
    path = os.path.join(run.dir, "selftest.ndjson")
    with open(path, "w") as f:
        for c, _ in cases:
            f.write(json.dumps(c) + "\n")
    viols, done = validate_table(run, path, checked, "tv-selftest", 600)
    for i, (c, pred) in enumerate(cases, 1):
        if (i, pred) not in viols:
            raise Infra("binding self-test: a corrupted observed row (%s, line %d of selftest.ndjson) was not flagged by %s" % (c["k"], i, pred))
    return len(cases)


def finish_cov(run, st, counters, accepted, lines, files, preds, nself, muts, rule, domain):
    run.cov["traces_validated_against_impl"] = accepted
    run.cov["evaluations"] = lines
    run.cov["distinct_nontrivial"] = st["distinct_nontrivial"]
    run.cov["rule"] = rule
    run.cov["exhaustive"] = True
    run.cov["exhaustive_domain"] = domain
    run.cov["counters"] = counters
    run.cov["predicates"] = preds
    run.cov["harness"] = {k: v for k, v in st.items() if k != "files"}
    run.cov["observed_tables"] = len(files)
    run.cov["binding_selftest_corruptions_flagged"] = nself
    run.cov["spec_mutants_killed"] = muts
    run.trusted += ["recover() in harness/wire (panic observation)", "harness/wire: conversion between Go values and the abstract JSON values (no expectations are computed in Go)",
                    "harness/world: production marshalizer adapter (Reset + generated Unmarshal), two-shard world for the message rows"]
    run.extra_assumptions += ["attached-call function names are non-empty and contain no '@'; storage-update lists are non-empty with non-empty offsets (DESIGN.md 7.4)",
                              "argument lists handed to the transfer parser are shorter than 2^24 items (a count of more than three bytes is 'larger than the arguments can hold')"]
    with open(files[0]) as f:
        for i, line in enumerate(f, 1):
            if i in (2, 700, 5000):
                run.cov["samples"].append({"table": os.path.basename(files[0]), "line": i, "row": slim(json.loads(line))})
    with open(files[-1]) as f:
        for i, line in enumerate(f, 1):
            if i in (10, 300):
                run.cov["samples"].append({"table": os.path.basename(files[-1]), "line": i, "row": slim(json.loads(line))})


def cleanup(run, files, viols, tables):
    """The thorough tier leaves hundreds of MB of tables behind: only the observed chunks with a violation are kept."""
    if run.tier != "thorough":
        return
    bad = {f for f, l, p in viols}
    for f in list(files) + list(tables):
        if f not in bad and os.path.exists(f):
            os.remove(f)


# =====================================================================================================================
# C12
# =====================================================================================================================
def run_c12(run):
    quick = run.tier == "quick"
    run.build_harness()
    cb = class_bytes(run.seed)
    maxlen, xlen, mlen, blen = (6, 4, 4, 2) if quick else (7, 5, 6, 3)
    nrand = 6000 if quick else 400000
    # (M) laws on the operators + generation of the case tables, side by side
    with concurrent.futures.ThreadPoolExecutor(max_workers=5) as ex:
        fm = ex.submit(run.model_check, "WireMC", mc_cfg(["str", "args", "xf"], maxlen, 3, 2, cb, ["InvStr", "InvArgs", "InvXf"]), "WireMC-C12", 1500 if quick else 3000)
        fg = [ex.submit(generate, run, mode, gen_cfg(mode, maxlen, xlen, mlen, blen, cb), out)
              for mode, out in (("c12s", "t_strs.ndjson"), ("c12x", "t_xfer.ndjson"), ("c12b", "t_build.ndjson"))]
        fmut = ex.submit(spec_mutants, run, cb, [0, 1] if quick else [0, 1, 2, 3])
        # the builder OBJECT as a state machine: every sequence of 3 (quick) / 4 (thorough) operations over its operation alphabet
        fb = ex.submit(run.model_check, "WireMC", mc_cfg(["bld"], 3 if quick else 4, 3, 2, cb, ["InvBld"]), "WireMC-C12-builder", 1500 if quick else 3000)
        ok, o, info = fm.result()
        tables = [f.result() for f in fg]
        muts = fmut.result()
        okb, ob, infob = fb.result()
    if not info["complete"] or not infob["complete"]:
        raise Infra("the law configuration was not explored completely")
    nstr = sum(6 ** i for i in range(maxlen + 1))
    if tables[0][1] != nstr:
        raise Infra("generation: %d strings in the table, %d expected" % (tables[0][1], nstr))
    # the real code on every table row and on seeded random inputs
    st = run.harness(["wire12", "-in", ",".join(t[0] for t in tables), "-seed", str(run.seed), "-rand", str(nrand), "-big", "-out", os.path.join(run.dir, "obs12"),
                      "-chunk", "10000" if quick else "40000", "-rchunk", "1500" if quick else "12000"])
    files = st["files"]
    ntab = sum(t[1] for t in tables)
    if st["sources"].get("table", 0) != ntab:
        raise Infra("the harness executed %d table rows, TLC generated %d" % (st["sources"].get("table", 0), ntab))
    # (T)
    viols, c, accepted, lines = validate_all(run, files, P12)
    if lines != st["rows"]:
        raise Infra("validation consumed %d of %d observed rows" % (lines, st["rows"]))
    nself = binding_selftest(run, files, P12, corrupt12)
    record(run, "C12", viols)
    finish_cov(run, st, c, accepted, lines, files, P12, nself, muts,
               "distinct_nontrivial = number of distinct inputs (hash of the input part of the row) that are not trivially rejected: strings with at least one separator "
               "accepted by some parser, transfer-parser inputs naming a transfer function with >= 2 arguments, builder inputs with >= 1 element, all deploy inputs, "
               "non-empty storage-update lists, transfer messages that were emitted, builder histories of >= 2 operations; measured by the harness over the whole observed table",
               "every string up to length %d over one representative per character class {letter, '@', lower hex, upper hex, digit, non-hex} (%d strings; representatives "
               "chosen by the seed: %s); transfer-parser argument lists up to length %d (single) / %d (multi) over fixed item alphabets incl. the wrap-around counts and "
               "payloads without a Value field; builder argument lists of <= %d arguments of <= 2 bytes over {00, 0a, 40, ff}; deploy and storage-update lists over small "
               "domains: enumerated completely by TLC and executed completely on the real code" % (maxlen, nstr, json.dumps(cb), xlen, mlen, blen))
    run.cov["tables"] = {"strings": tables[0][1], "transfers": tables[1][1], "builders": tables[2][1]}
    # (V)
    need = dict(str=nstr, xfer=tables[1][1], xfer_value=1000, xfer_error=1000, unspec=20, inverse=1000, msg=20 if quick else 500, deploy=900, su=800,
                random=nrand, value=10000, error=10000, bhist=200 if quick else 10000, bhist_reuse=100 if quick else 5000, omsg=60 if quick else 4000)
    for k, n in need.items():
        run.require(c.get(k, 0) >= n, "%s=%d < %d" % (k, c.get(k, 0), n))
    run.require(c.get("evaluated", 0) >= lines - 10, "evaluated=%d of %d rows" % (c.get("evaluated", 0), lines))
    cleanup(run, files, viols, [t[0] for t in tables])


# =====================================================================================================================
# C14
# =====================================================================================================================
def run_c14(run):
    quick = run.tier == "quick"
    run.build_harness()
    cb = class_bytes(run.seed)
    nrand = 8000 if quick else 400000
    amtlen = 3 if quick else 4             # amounts: every canonical magnitude up to this many bytes over the 6-byte alphabet
    with concurrent.futures.ThreadPoolExecutor(max_workers=4) as ex:
        fm = ex.submit(run.model_check, "WireMC", mc_cfg(["amt", "meta", "tok", "roles"], 1, 1, amtlen, cb, ["InvAmt", "InvMeta", "InvTok", "InvRoles"]), "WireMC-C14", 1500)
        fg = ex.submit(generate, run, "c14", gen_cfg("c14", 1, 1, 1, amtlen, cb), "t_codec.ndjson")
        fmut = ex.submit(spec_mutants, run, cb, [0, 1] if quick else [0, 1, 2, 3])
        ok, o, info = fm.result()
        table, ntab = fg.result()
        muts = fmut.result()
    if not info["complete"]:
        raise Infra("the law configuration was not explored completely")
    st = run.harness(["wire14", "-in", table, "-seed", str(run.seed), "-rand", str(nrand), "-exh", "3", "-out", os.path.join(run.dir, "obs14"),
                      "-chunk", "6000" if quick else "20000", "-rchunk", "2500" if quick else "16000"])
    files = st["files"]
    if st["sources"].get("table", 0) != ntab:
        raise Infra("the harness executed %d table rows, TLC generated %d" % (st["sources"].get("table", 0), ntab))
    viols, c, accepted, lines = validate_all(run, files, P14)
    if lines != st["rows"]:
        raise Infra("validation consumed %d of %d observed rows" % (lines, st["rows"]))
    nself = binding_selftest(run, files, P14, corrupt14)
    record(run, "C14", viols)
    finish_cov(run, st, c, accepted, lines, files, P14, nself, muts,
               "distinct_nontrivial = number of distinct encodings (hash of kind and bytes) of values that carry at least one field beyond a bare nil/zero amount and "
               "were marshalled, sized, marshalled again into a dirty buffer and decoded back; measured by the harness over the whole observed table",
               "amounts: nil, zero and both signs of every canonical magnitude of <= %d bytes over {00, 01, 02, 7f, 80, ff}; ESDigitalToken: 9 varint boundaries x 12 amounts x "
               "4 byte fields x 7 metadata x 2; MetaData: 13 x 4 x 2 x 4 x 2 x 7 URI lists x 2; role lists of <= 3 over 4 roles (%d values, enumerated completely by TLC "
               "and encoded/decoded completely by the real code); every byte string of length <= 3 over {00 01 02 08 0a 12 1a 22 2a 7f 80 ff} through each of the four "
               "decoders (7540 decodings)" % (amtlen, ntab))
    run.cov["tables"] = {"codec": ntab}
    if c.get("illtyped", 0):
        raise Infra("the harness produced %d abstract values that are not canonical (harness error)" % c["illtyped"])
    need = dict(amt=1500, tok=5000, meta=5000, roles=300, decoded=500, rejected=1000, table=ntab, random=nrand + 7540)
    for k, n in need.items():
        run.require(c.get(k, 0) >= n, "%s=%d < %d" % (k, c.get(k, 0), n))
    cleanup(run, files, viols, [table])


# =====================================================================================================================
# replay
# =====================================================================================================================
def replay(run, obj):
    """Re-executes the concrete input row(s) of a replay file on the current tree and lets TLC evaluate the predicate again."""
    run.build_harness()
    inp = os.path.join(run.dir, "wire-rows.json")
    json.dump({"check": obj["check"], "rows": obj["rows"]}, open(inp, "w"))
    st = run.harness(["wirereplay", "-in", inp, "-out", os.path.join(run.dir, "wire-replayed")])
    viols, done = validate_table(run, st["files"][0], obj["checked"], "tv-wire-replay", 600)
    if done["lines"] != len(obj["rows"]):
        raise Infra("replay: %d of %d rows were validated" % (done["lines"], len(obj["rows"])))
    hit = [v for v in viols if v[1] == obj["predicate"]]
    if hit:
        row = read_lines(st["files"][0], [hit[0][0]])[hit[0][0]]
        print("REPRODUCED property=%s predicate=%s %s" % (obj["property"], obj["predicate"], json.dumps(describe(row, obj["predicate"]))[:300]))
        return 1
    print("NOT-REPRODUCED property=%s predicate=%s" % (obj["property"], obj["predicate"]))
    return 0


PROPS = {"C12": {"run": run_c12}, "C14": {"run": run_c14}}
