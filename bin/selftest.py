"""bin/check selftest [model|binding]: demonstrates that the machinery is bound to what it claims.

 model   : for every defect switch (Bugs = {D1}, {D2}, {D3}, {D6}, {D7}, {D10}, {D11}) TLC must FIND a violation of the matching invariant in the bounded
           specification (each invariant is non-vacuous and each repaired defect is documented at design level); with Bugs = {} the same
           configuration holds.
 binding : a recorded real-code trace is corrupted in one field (a balance, an ok flag, a gas figure, a parser report) or loses one step;
           the trace specification must flag each corruption at the right line.
Exit 0 when every expectation is met, 2 otherwise (never 1: nothing here is a verdict about /repo).
"""
import json, os, sys, copy
from checklib import *          # noqa
from families import mc_cfg, M

BUG_CASES = [
    ("D1", M("ESDTTransfer,issue,MultiESDTNFTTransfer", supply=3), "InvNoViol|InvConservation"),
    ("D2", M("ESDTTransfer,issue,MultiESDTNFTTransfer", supply=2), "InvNoViol|InvConservation|InvDelivery"),
    ("D3", M("ESDTNFTTransfer,MultiESDTNFTTransfer,create", supply=2), "InvConservation|InvWellFormed|InvNoViol"),
    ("D6", M("kv", gas=(0, 5, 1000)), "InvNoViol"),
    ("D7", M("ESDTTransfer,issue,MultiESDTNFTTransfer", hs=("u0a", "u1a", "c1a")), "InvNoViol"),
    ("D10", M("ESDTTransfer,issue,MultiESDTNFTTransfer,flags", hs=("u0a", "u0b"), supply=3), "InvNoViol"),
    ("D12", M("create,ESDTNFTTransfer,nftflags"), "InvNoViol"),
    ("D11", M("ESDTTransfer,issue,MultiESDTNFTTransfer,flags", hs=("u0a", "u0b"), supply=3), "InvNoViol"),
]


def model(run):
    bad = []
    for bug, mc, expect in BUG_CASES:
        ok0, o0, _ = run.model_check("EsdtMC", mc_cfg(mc["fns"], mc["msgs"], mc["supply"], mc["ctr"], **mc["kw"]), name="self-%s-clean" % bug, timeout=900, must_hold=False)
        ok1, o1, _ = run.model_check("EsdtMC", mc_cfg(mc["fns"], mc["msgs"], mc["supply"], mc["ctr"], bugs=(bug,), **mc["kw"]), name="self-%s-bug" % bug, timeout=900, must_hold=False)
        m = re.search(r"Invariant (\w+) is violated", o1)
        print("selftest model %s: clean=%s bug=%s" % (bug, "holds" if ok0 else "FAILS", ("violates " + m.group(1)) if m else "NO VIOLATION"))
        if not ok0 or not m or not re.fullmatch(expect, m.group(1)):
            bad.append(bug)
    return bad


def mutate_trace(src, dst, fn):
    lines = [json.loads(l) for l in open(src)]
    where = fn(lines)
    with open(dst, "w") as f:
        for l in lines:
            f.write(json.dumps(l) + "\n")
    return where


def binding(run):
    run.build_harness()
    base = os.path.join(run.dir, "base.ndjson")
    run.harness(["ledger", "-seed", "11", "-traces", "2", "-steps", "80", "-profile", "transfer", "-out", base])
    preds = ["P01_Exact", "P01_FailKeeps", "Conservation", "P05_Frame", "P06_NoGasCreated", "P10_ParserEqualsLedger", "P02_Others"]
    viols, done = run.validate(base, preds, label="tv-base")
    bad = []
    if viols:
        print("selftest binding: the unmodified trace already has violations", viols[:3])
        return ["base"]

    def first(lines, cond):
        for i, l in enumerate(lines):
            if i > 0 and cond(l):
                return i
        raise Infra("selftest: no suitable line in the base trace")

    def corrupt_balance(lines):
        i = first(lines, lambda l: l["ev"]["fn"] == "ESDTTransfer" and l["ev"]["res"] == "ok" and l["ev"]["caller"] != "esdtsc"
                  and l["w"]["acct"][l["ev"]["caller"]]["esdt"])
        acct = lines[i]["w"]["acct"][lines[i]["ev"]["caller"]]["esdt"]
        acct[sorted(acct)[0]]["val"] += 1
        return i + 1

    def flip_ok(lines):
        # (a refused transfer between two DIFFERENT accounts that the real parser could read: claiming it succeeded contradicts the ledger)
        i = first(lines, lambda l: l["ev"]["fn"] in ("ESDTTransfer", "ESDTNFTTransfer") and l["ev"]["res"] == "err" and l["ev"]["a"] == "exec"
                  and l["ev"]["par"]["ok"] and l["ev"]["par"]["items"] and l["ev"]["par"]["rcv"] not in ("", l["ev"]["caller"])
                  and all(it["val"] > 0 for it in l["ev"]["par"]["items"]))
        # claim success and move a token nobody asked for
        lines[i]["ev"]["res"] = "ok"
        return i + 1

    def gas_created(lines):
        i = first(lines, lambda l: l["ev"]["a"] == "exec" and l["ev"]["res"] == "ok" and l["ev"]["gas"] > 0 and l["ev"]["gascls"] == "")
        lines[i]["ev"]["gr"] = lines[i]["ev"]["gas"] + 1
        return i + 1

    def parser_lies(lines):
        i = first(lines, lambda l: l["ev"]["fn"] == "ESDTTransfer" and l["ev"]["res"] == "ok" and l["ev"]["par"]["ok"] and l["ev"]["caller"] != l["ev"]["rcpt"])
        lines[i]["ev"]["par"]["items"][0]["val"] += 1
        return i + 1

    def drop_step(lines):
        i = first(lines, lambda l: l["ev"]["fn"] == "ESDTTransfer" and l["ev"]["res"] == "ok" and l["ev"]["caller"] == "esdtsc")
        del lines[i]
        return i + 1   # the next line now shows a world the recorded call cannot explain

    def log_lies(lines):
        i = first(lines, lambda l: l["ev"]["fn"] == "ESDTTransfer" and l["ev"]["res"] == "ok" and l["ev"]["logs"])
        lines[i]["ev"]["logs"][0]["topics"][1]["q"] += 1
        return i + 1

    # the log model is specification coverage beyond the listed properties: a wrong log is reported as drift at its line
    dst = os.path.join(run.dir, "log-lies.ndjson")
    where = mutate_trace(base, dst, log_lies)
    viols, done = run.validate(dst, preds, label="tv-log-lies")
    hit = [d for l, d in done["drift_lines"] if l == where and "logs" in d]
    print("selftest binding log-lies: line %d -> %s" % (where, "DRIFT logs" if hit else "NOT FLAGGED"))
    if not hit:
        bad.append("log-lies")

    for name, fn, expect in [("corrupt-balance", corrupt_balance, {"P01_Exact", "Conservation"}), ("flip-ok", flip_ok, {"P01_Exact", "P10_ParserEqualsLedger"}),   # (a claimed success the reference refuses: the parser report no longer matches what moved)
                             ("gas-created", gas_created, {"P06_NoGasCreated"}), ("parser-lies", parser_lies, {"P10_ParserEqualsLedger"}),
                             ("drop-step", drop_step, {"Conservation", "P02_Others", "P05_Frame", "P01_Exact", "P01_FailKeeps"})]:
        dst = os.path.join(run.dir, name + ".ndjson")
        where = mutate_trace(base, dst, fn)
        viols, done = run.validate(dst, preds, label="tv-" + name)
        hit = {p for l, p in viols if l == where}
        ok = bool(hit & expect)
        print("selftest binding %s: line %d -> %s" % (name, where, sorted(hit) or "NOT FLAGGED"))
        if not ok:
            bad.append(name)
    return bad


def main(args):
    run = Run("selftest", "quick", 1)
    what = args or ["model", "binding"]
    bad = []
    try:
        if "model" in what:
            bad += model(run)
        if "binding" in what:
            bad += binding(run)
    except Infra as e:
        print("INFRA selftest:", e)
        return 2
    if bad:
        print("SELFTEST FAILED:", bad)
        return 2
    print("SELFTEST OK")
    return 0
