"""Helpers family: C18 (activation, registry, name -> behaviour binding) and C20 (algebraic laws of the shared helper types).

Both follow the verdict rule of DESIGN.md 2.4:
  (M) TLC checks the specification itself on exhaustive small domains (spec/Activation.tla, spec/HelpersMC.tla) and GENERATES the
      behaviours / case tables; a failure here is a specification error -> Infra (exit 2), never a violation;
  (T) the Go harness executes the generated cases plus seeded random ones on the REAL code of /repo, and TLC evaluates the property
      predicates on every recorded line (spec/ActivationTrace.tla, spec/HelpersTrace.tla); only a predicate failing here is a VIOLATION;
  (V) vacuity guards on TLC-side counters of what the recorded lines exercised.
"""
import json, os, re, shutil
from checklib import *  # noqa

FAMILIES = ["helpers"]

P18 = ["P18_ActiveIff", "P18_Registry", "P18_Bound"]
P20 = ["P20_EncodeDecode", "P20_DecodeEncode", "P20_WrongLength", "P20_AddrTotal", "P20_AddrConsistent", "P20_AddrNamed", "P20_AddrDocumented",
       "P20_MergeDelta", "P20_MergeNonce", "P20_MergeStorage", "P20_MergeTransfers", "P20_MergeNoMutation", "P20_SafeSub"]

ACT_TRACE_CONSTS = 'Epochs = {} ActEpochs = {} MaxLen = 0 Emit = FALSE Variant = "spec"\nCONSTANT Geq <- GeqLimb\n'


def q(names):
    return "{" + ", ".join('"%s"' % n for n in names) + "}"


def validate(run, tracefile, module, checked, label, extra_cfg="", timeout=3000):
    """(T): TLC evaluates the checked predicates on every recorded line. Returns (viols, done, raw output)."""
    d = run.spec_dir(label)
    dst = os.path.join(d, "trace.ndjson")
    if os.path.abspath(tracefile) != dst:
        if os.path.lexists(dst):
            os.remove(dst)
        os.symlink(os.path.abspath(tracefile), dst)
    cfg = "INIT Init\nNEXT Next\nCHECK_DEADLOCK FALSE\nINVARIANT Finished\nCONSTANTS Checked = %s %s\n" % (q(checked), extra_cfg)
    rc, o = run.tlc(d, module, cfg, workers=1, timeout=timeout)
    viols = []
    for m in re.finditer(r'<<\s*"VIOL",\s*(\d+),\s*\{([^}]*)\}\s*>>', o):
        for pred in re.findall(r'"([^"]+)"', m.group(2)):
            viols.append((int(m.group(1)), pred))
    drift = [int(x) for x in re.findall(r'<<\s*"DRIFT",\s*(\d+)', o)]
    dm = re.search(r'<<\s*"DONE",\s*(\d+),\s*(\d+),\s*(\d+),\s*\[(.*?)\]\s*>>', o, re.S)
    if not dm or "Model checking completed. No error has been found." not in o:
        raise Infra("trace validation did not run to the end of the log (specification or harness error):\n" + tail_errors(o))
    counters = {k: int(v) for k, v in re.findall(r"(\w+) \|-> (\d+)", dm.group(4))}
    if int(dm.group(2)) != len(viols):
        raise Infra("trace validation reported %s violations but %d VIOL entries were read" % (dm.group(2), len(viols)))
    return viols, {"lines": int(dm.group(1)), "drift": drift, "counters": counters}, o


MC_WORKERS = 4     # the state graphs here are small (chunks of a finite domain); a few workers are as fast as all cores and far less sensitive to load


def model_check(run, module, cfg_text, name, timeout=1500, must_hold=True):
    """(M), same bookkeeping as Run.model_check but with a fixed small number of workers. A violation is a specification bug -> Infra."""
    d = run.spec_dir("mc-" + name)
    rc, o = run.tlc(d, module, cfg_text, workers=MC_WORKERS, timeout=timeout)
    m = re.search(r"(\d[\d,]*) states generated, (\d[\d,]*) distinct states found, (\d[\d,]*) states left", o)
    gen = int(m.group(1).replace(",", "")) if m else 0
    dist = int(m.group(2).replace(",", "")) if m else 0
    left = int(m.group(3).replace(",", "")) if m else -1
    depth = re.search(r"depth of the complete state graph search is (\d+)", o)
    ok = "Model checking completed. No error has been found." in o
    info = {"config": name, "generated": gen, "distinct": dist, "complete": ok and left == 0, "depth": int(depth.group(1)) if depth else None, "expected_to_fail": not must_hold}
    run.cov["model_runs"].append(info)
    if must_hold:
        if not ok:
            raise Infra("model check of %s failed (specification-level, nothing about the code was observed):\n%s" % (name, tail_errors(o)))
        run.cov["states"] += dist
        run.cov["transitions"] += gen
    return ok, o, info


def must_fail(run, module, cfg, name, invariant):
    """Non-vacuity of a model invariant: with the defect switched on in the MODEL, TLC must report the invariant violated."""
    ok, o, info = model_check(run, module, cfg, name, timeout=600, must_hold=False)
    if ok or ("Invariant %s is violated" % invariant) not in o:
        raise Infra("non-vacuity self-test %s: the model variant does not violate %s" % (name, invariant))


# =====================================================================================================================
# C18
# =====================================================================================================================
ACT_CFG_SMALL = ('SPECIFICATION ASpec\nCONSTANTS Epochs = {0,1,2,3} ActEpochs = {0,1,2,3} MaxLen = 4 Emit = %s Variant = "%s"\nCONSTANT Geq <- GeqInt\n'
                 'INVARIANTS ActiveIff NotSticky Immediate EmitBehaviours\nCHECK_DEADLOCK FALSE\n')
ACT_CFG_BOUND = ('SPECIFICATION ASpec\nCONSTANTS MaxLen = %d Emit = TRUE Variant = "spec"\nCONSTANT Geq <- GeqLimb Epochs <- BoundaryEpochs ActEpochs <- BoundaryEpochs\n'
                 'INVARIANTS ActiveIff NotSticky Immediate EmitBehaviours\nCHECK_DEADLOCK FALSE\n')


def behaviours_of(o, small):
    """The behaviours TLC printed from the leaves of the state graph, as harness cases (epochs as two 16-bit limbs).
    TLC wraps long values over several lines, so the tuples are read with a bracket counter from the whole output."""
    out, flat, pos = [], re.sub(r"\s+", " ", o), 0
    while True:
        m = re.compile(r'<< ?"BEH",').search(flat, pos)
        if not m:
            break
        i, depth = m.start(), 0
        while True:
            if flat.startswith("<<", i):
                depth, i = depth + 1, i + 2
            elif flat.startswith(">>", i):
                depth, i = depth - 1, i + 2
                if depth == 0:
                    break
            else:
                i += 1
        j = json.loads(flat[m.start():i].replace("<<", "[").replace(">>", "]"))
        a, seq = j[1], j[2]
        if small:
            a, seq = [0, a], [[0, e] for e in seq]
        out.append({"k": "beh", "act": a, "seq": seq})
        pos = i
    return out


def run_c18(run):
    run.build_harness()
    quick = run.tier == "quick"
    # (M) every notification sequence of length <= 4 over epochs 0..3 for activation epochs 0..3; the same machine over the 32-bit boundaries
    ok, o1, i1 = model_check(run, "Activation", ACT_CFG_SMALL % ("TRUE", "spec"), "Activation-small", timeout=600)
    ok, o2, i2 = model_check(run, "Activation", ACT_CFG_BOUND % (3 if quick else 4), "Activation-boundary", timeout=900)
    if not (i1["complete"] and i2["complete"]):
        raise Infra("the activation model was not explored completely")
    must_fail(run, "Activation", ACT_CFG_SMALL % ("FALSE", "strict"), "Activation-strict", "ActiveIff")
    must_fail(run, "Activation", ACT_CFG_SMALL % ("FALSE", "sticky"), "Activation-sticky", "ActiveIff")
    behs = behaviours_of(o1, True) + behaviours_of(o2, False)
    want = 4 * 4 ** 4 + 5 * 5 ** (3 if quick else 4)
    if len(behs) != want:
        raise Infra("generation: %d behaviours printed by TLC, %d expected" % (len(behs), want))
    cases = os.path.join(run.dir, "behaviours.ndjson")
    with open(cases, "w") as f:
        for b in behs:
            f.write(json.dumps(b) + "\n")
    # real containers: generated behaviours, one build per factory configuration, seeded random boundary behaviours, binding scenarios
    trace = os.path.join(run.dir, "activation.ndjson")
    nbound = 4 if quick else 72
    st = run.harness(["activation", "-cases", cases, "-out", trace, "-seed", str(run.seed), "-random", "300" if quick else "20000", "-cfgs",
                      "-bound", str(nbound), "-cross"])
    viols, done, _ = validate(run, trace, "ActivationTrace", P18, "tv-act", ACT_TRACE_CONSTS)
    if done["lines"] != st["lines"]:
        raise Infra("trace validation consumed %d of %d lines" % (done["lines"], st["lines"]))
    c = done["counters"]
    # measured coverage: distinct (activation epoch, notification history) observation points and distinct (name, configuration) scenarios
    ctx, scen, cur, samples, bad_lines, bad_behs = set(), set(), None, [], {l for l, _ in viols}, set()
    with open(trace) as f:
        for i, line in enumerate(f, 1):
            ln = json.loads(line)
            if i in bad_lines:
                bad_behs.add(ln["beh"])
            if ln["k"] == "build":
                cur = (tuple(ln["act"]), ())
            elif ln["k"] == "confirm":
                cur = (cur[0], cur[1] + (tuple(ln["e"]),))
                ctx.add(cur)
            elif ln["k"] == "bound":
                scen.add((ln["name"], json.dumps(ln["cfg"], sort_keys=True), tuple(ln["act"]), json.dumps(ln["seq"])))
            if i in (3, 5000, st["lines"] - 600) or (ln["k"] == "bound" and ln["name"] == "ESDTUnFreeze" and len(samples) < 5):
                samples.append({"line": i, "k": ln["k"], "act": ln["act"], "e": ln["e"], "cfg": ln["cfg"], "name": ln["name"], "res": ln["res"],
                                "gated_active": {x["n"]: x["a"] for x in ln["fns"] if x["n"] in ("ESDTNFTAddURI", "ESDTNFTUpdateAttributes", "MultiESDTNFTTransfer")},
                                "nkeys": len(ln["keys"]),
                                "changed": sorted(set(ln["post"]) ^ set(ln["pre"]))[:6]})
    # recorded behaviours and scenario runs accepted by TLC (the self-test runs with deliberately wrong bindings are not counted)
    run.cov["traces_validated_against_impl"] = st["kinds"].get("build", 0) + st["kinds"].get("bound", 0) - len(bad_behs)
    run.cov["evaluations"] = done["lines"]
    run.cov["samples"] = samples
    run.cov["distinct_nontrivial"] = len(ctx) + len(scen)
    run.cov["rule"] = ("distinct_nontrivial = number of distinct (activation epoch, non-empty history of confirmed epochs) observation points at which IsActive of all "
                       "functions, Keys() and Len() of a real factory-built container were recorded (%d) + number of distinct (protocol name, factory configuration, "
                       "activation epoch, confirmed epochs) binding scenarios executed through container.Get(name) (%d). Behaviours: all %d printed by TLC from the "
                       "leaves of the two exhaustive model runs, one build per factory configuration x 4 activation epochs, seeded random behaviours over the "
                       "32-bit boundaries." % (len(ctx), len(scen), len(behs)))
    run.cov["exhaustive"] = True
    run.cov["exhaustive_domain"] = ("activation epochs 0..3 x every notification sequence of length <= 4 over 0..3, and activation epochs x sequences of length <= %d "
                                    "over {0, 1, 2^31-1, 2^31, 2^32-1}: enumerated completely by TLC and replayed completely on real containers; factory "
                                    "configurations (shards 1..3 x self shard x user-name change x gas schedule x DNS map) enumerated completely for the registry, "
                                    "sampled for the behaviours and scenarios" % (3 if quick else 4))
    run.cov["counters"] = c
    run.cov["predicates"] = P18
    run.cov["harness"] = st
    run.trusted += ["harness/act: flattening of the projected world into path=value leaves (no expectations)", "harness/world: accounts adapter, coordinator, notifier"]
    # (V)
    run.require(c.get("cross", 0) == 23 * 22 and c.get("cross_undetected", 1) == 0,
                "scenario self-test: %d of %d wrong bindings would go unnoticed" % (c.get("cross_undetected", -1), c.get("cross", 0)))
    if not viols:
        run.require(c.get("bound_ok", 0) == 23 * nbound, "bound_ok=%d != %d" % (c.get("bound_ok", 0), 23 * nbound))
    for k, n in dict(build=500, confirm=3000, activated=300, deactivated=100, regression=300, repeat=200, at_activation=300, boundary=500,
                     gated_inactive=300, nonzero_act=300).items():
        run.require(c.get(k, 0) >= n, "%s=%d < %d" % (k, c.get(k, 0), n))
    record_c18(run, trace, viols)
    # the configuration-dependent binding (DNS set, user-name change allowed or not) is checked on recorded ledger behaviour of worlds
    # built with both factory configurations, against the reference operator of the ledger specification
    import families
    lst, ldone = families.ledger_pass(run, "acctlevel", [], 8 if quick else 60, 120, ["P18_UserNameBound"], "c18")
    run.require(ldone["counters"].get("uname_ok", 0) >= 5 and ldone["counters"].get("uname_rej", 0) >= 3,
                "user-name binding scenarios: ok=%d rej=%d" % (ldone["counters"].get("uname_ok", 0), ldone["counters"].get("uname_rej", 0)))


def c18_case_for(trace, line):
    """Rebuilds the concrete case (behaviour prefix or scenario) that produced a recorded line."""
    lines, ln = [], None
    with open(trace) as f:
        for i, t in enumerate(f, 1):
            if i > line:
                break
            ln = json.loads(t)
            if ln["k"] == "build":
                lines = [ln]
            elif ln["k"] == "confirm":
                lines.append(ln)
    if ln["k"] in ("bound", "cross"):
        return ln, {"k": ln["k"], "act": ln["act"], "seq": ln["seq"], "cfg": ln["cfg"], "name": ln["name"], "via": ln["via"] if ln["k"] == "cross" else ""}
    return ln, {"k": "beh", "act": lines[0]["act"], "seq": [x["e"] for x in lines[1:]], "cfg": lines[0]["cfg"], "ts": [x.get("ts", 0) for x in lines[1:]]}


def record_c18(run, trace, viols):
    for l, pred in viols[:40]:
        ln, case = c18_case_for(trace, l)
        if pred == "P18_Bound":
            desc = {"kind": "bound", "name": ln["name"], "res": ln["res"], "line": l, "unexpected": sorted(set(ln["post"]) ^ set(ln["pre"]))[:8]}
        else:
            wrong = [x["n"] for x in ln["fns"] if x["n"] in ("ESDTNFTAddURI", "ESDTNFTUpdateAttributes", "MultiESDTNFTTransfer")]
            desc = {"kind": ln["k"], "act": ln["act"], "e": ln["e"], "history": case["seq"], "line": l, "nkeys": len(ln["keys"]),
                    "gated": {x["n"]: x["a"] for x in ln["fns"] if x["n"] in wrong}}
        run.add_violation(pred, desc, {"family": "helpers", "prop": "C18", "cases": [case], "checked": [pred]})


# =====================================================================================================================
# C20
# =====================================================================================================================
HMC_CFG = ('SPECIFICATION Spec\nCONSTANTS MergeSize = "%s" Generate = %s Alias = %s\nINVARIANTS %s\nCHECK_DEADLOCK FALSE\n')
HMC_INVS = "InvCodec InvCodecOther InvAddr InvMerge InvHeap InvSub"


def nontrivial(r):
    """The stated rule for a non-trivial case (see cov.rule)."""
    k = r["k"]
    if k == "bytes":
        return len(r["b"]) > 0 and any(r["b"])
    if k == "enc":
        return any(r["m"])
    if k == "addr":
        return r["sys"] or r["sc"] or r["mid"] or any(r["scm"]) or not r["allowed"] or (r["empty"] and len(r["s"]) > 0)
    if k == "sub":
        return any(r["y"])
    if k == "merge":
        return True  # decided by the caller (needs the inputs)
    return False


def run_c20(run):
    run.build_harness()
    quick = run.tier == "quick"
    size = "small" if quick else "full"
    # (M) the laws on the transcription over the exhaustive domains + generation of the case tables
    ok, o, info = model_check(run, "HelpersMC", HMC_CFG % (size, "TRUE", "FALSE", HMC_INVS), "HelpersMC-" + size, timeout=1500)
    if not info["complete"]:
        raise Infra("HelpersMC was not explored completely")
    m = re.search(r'<<"CASES", \[(.*?)\]>>', o)
    if not m:
        raise Infra("HelpersMC did not report the generated tables")
    ncases = {k: int(v) for k, v in re.findall(r"(\w+) \|-> (\d+)", m.group(1))}
    must_fail(run, "HelpersMC", HMC_CFG % ("small", "FALSE", "TRUE", "InvHeap"), "HelpersMC-alias", "InvHeap")
    d = os.path.join(run.dir, "mc-HelpersMC-" + size)
    files = [os.path.join(d, "cases-%s.ndjson" % k) for k in ("codec", "addr", "merge", "sub")]
    for f in files:
        if not os.path.exists(f):
            raise Infra("generation: missing case table " + f)
    # real functions on every generated row + seeded random rows
    obs = os.path.join(run.dir, "helpers.ndjson")
    nrand = 500 if quick else 40000
    st = run.harness(["helpers", "-cases", ",".join(files), "-out", obs, "-seed", str(run.seed), "-random", str(nrand)])
    want = sum(ncases.values()) + 4 * nrand + 2 * min(nrand, 300) + 1      # (+ the return-data / return-code views, 300 each at most)
    if st["lines"] != want:
        raise Infra("the harness recorded %d lines for %d generated cases + %d random ones" % (st["lines"], sum(ncases.values()), 4 * nrand))
    viols, done, _ = validate(run, obs, "HelpersTrace", P20, "tv-helpers")
    if done["lines"] != st["lines"]:
        raise Infra("trace validation consumed %d of %d lines" % (done["lines"], st["lines"]))
    c = done["counters"]
    # measured coverage
    seen, dom, samples, per_kind = set(), [], [], {}
    want_samples = {2 + 1285, 2 + 67313 + 100, st["lines"] - 3 * nrand - 7, st["lines"] - nrand + 3, st["lines"] - 2 * nrand - 5}
    with open(obs) as f:
        for i, line in enumerate(f, 1):
            r = json.loads(line)
            k = r["k"]
            if k == "hdr":
                dom = r["dom"]
                continue
            if k == "merge":
                o0 = dom[r["i"]] if r["i"] >= 0 else r["o"]
                a0 = dom[r["j"]] if r["j"] >= 0 else r["a"]
                key = ("merge", r["i"], r["j"], r["h"]) if r["i"] >= 0 else ("merge", json.dumps([r["o"], r["a"], r["c"]], sort_keys=True))
                nt = any(r["o1"][fld] != o0[fld] for fld in ("delta", "nonce", "su", "tr")) or not (r["aSame1"] and r["aSame2"] and r["cSame2"])
                if i in want_samples:
                    samples.append({"line": i, "k": k, "receiver": {x: o0[x] for x in ("delta", "nonce")}, "merged_in": {x: a0[x] for x in ("delta", "nonce")},
                                    "result": {x: r["o1"][x] for x in ("delta", "nonce")}, "ntransfers": [len(o0["tr"]), len(a0["tr"]), len(r["o1"]["tr"])],
                                    "merged_in_unchanged": [r["aSame1"], r["aSame2"], r["cSame2"]]})
            else:
                key = (k, json.dumps({x: r.get(x) for x in ("b", "m", "s", "ids", "x", "y")}, sort_keys=True))
                nt = nontrivial(r)
                if i in want_samples:
                    samples.append({x: v for x, v in r.items() if x != "ids"})
            if nt and key not in seen:
                seen.add(key)
                per_kind[k] = per_kind.get(k, 0) + 1
    run.cov["traces_validated_against_impl"] = done["lines"] - 1 - len({l for l, _ in viols})
    run.cov["evaluations"] = done["lines"] - 1
    run.cov["samples"] = samples
    run.cov["distinct_nontrivial"] = len(seen)
    run.cov["distinct_nontrivial_by_kind"] = per_kind
    run.cov["rule"] = ("one recorded line = one call (or, for merges, two successive merges) of the real helper functions. distinct_nontrivial counts distinct inputs that are "
                       "non-trivial: byte strings with at least one non-zero byte; metadata values with a flag set; byte strings for which some classifier answers true (or "
                       "the key is protected); subtractions with a non-zero subtrahend; merge triples where the first merge changes the receiver's delta, nonce, storage "
                       "updates or transfers. Tables: %s generated by TLC (all 65 536 byte pairs, every other length 0..4 over 6 byte values, every structured address of "
                       "length 0..40, all %d ordered pairs of the %d-account domain with a third account, 11x11 64-bit boundary pairs) + %d seeded random cases per kind."
                       % (json.dumps(ncases), ncases.get("merge", 0), {"small": 64, "full": 192}[size], nrand))
    run.cov["exhaustive"] = True
    run.cov["exhaustive_domain"] = "the generated tables are the complete finite domains named in the rule; the random cases are extra"
    run.cov["counters"] = c
    run.cov["drift_steps"] = len(done["drift"])
    run.cov["predicates"] = P20
    run.cov["harness"] = st
    run.trusted += ["harness/hlp: construction of output accounts from their description, projection back, deep snapshot comparison of the merged-in account"]
    # (V)
    need = dict(bytes2=65536, bytes_other=1769, bytes_maskedbit=60000, enc=8, addr=5000, addr_sc=500, addr_sys=20, addr_meta=100, addr_protected=10, addr_empty=40,
                addr_long=500, merge=4096, merge_nil_delta=1000, merge_neg_delta=1000, merge_overlap=500, merge_later_wins=300, merge_prefix=200, merge_appended=1000,
                merge_not_appended=1000, merge_nonce_raised=1000, merge_nonce_kept=1000, merge_scaled=100, sub=121, sub_underflow=50, sub_equal=20, sub_borrow=10)
    for k, n in need.items():
        run.require(c.get(k, 0) >= n, "%s=%d < %d" % (k, c.get(k, 0), n))
    record_c20(run, obs, viols, dom)


def c20_input(r, dom):
    """The concrete input of a recorded row (merge rows by number are made self-contained)."""
    k = r["k"]
    if k == "merge":
        pick = lambda n, inline: dom[r[n]] if r[n] >= 0 else r[inline]
        return {"k": k, "i": -1, "j": -1, "h": -1, "scale": r.get("scale", "1"), "o": pick("i", "o"), "a": pick("j", "a"), "c": pick("h", "c")}
    keep = {"bytes": ["b"], "enc": ["m"], "addr": ["s", "ids"], "sub": ["x", "y"]}[k]
    return dict({"k": k}, **{x: r[x] for x in keep})


def record_c20(run, obs, viols, dom):
    if not viols:
        return
    # one replay file per (predicate): the first few failing inputs of that predicate
    by_pred = {}
    for l, pred in viols:
        by_pred.setdefault(pred, []).append(l)
    wanted = sorted({l for ls in by_pred.values() for l in ls[:5]})
    rows = read_lines(obs, wanted)
    for pred, ls in sorted(by_pred.items()):
        for l in ls[:2]:
            r = rows[l]
            inp = c20_input(r, dom)
            desc = {"kind": r["k"], "line": l, "failing_rows": len(ls)}
            if r["k"] == "merge":
                desc.update(receiver={x: inp["o"][x] for x in ("delta", "nonce")}, merged_in={x: inp["a"][x] for x in ("delta", "nonce")},
                            result={x: r["o1"][x] for x in ("delta", "nonce")}, ntransfers=[len(inp["o"]["tr"]), len(inp["a"]["tr"]), len(r["o1"]["tr"]), len(r["o2"]["tr"])],
                            merged_in_unchanged=[r["aSame1"], r["aSame2"], r["cSame2"]])
            else:
                desc.update({x: v for x, v in r.items() if x not in ("ids", "k")})
            run.add_violation(pred, desc, {"family": "helpers", "prop": "C20", "rows": [c20_input(rows[x], dom) for x in ls[:5]], "checked": [pred]})


# =====================================================================================================================
# replay
# =====================================================================================================================
def replay(run, obj):
    """Re-executes the concrete inputs of a replay file on the current tree: 1 = the predicate fails again, 0 = it does not."""
    run.build_harness()
    pred = obj["predicate"]
    if obj.get("prop") == "C20":
        cases = os.path.join(run.dir, "replay-rows.ndjson")
        with open(cases, "w") as f:
            for r in obj["rows"]:
                f.write(json.dumps(r) + "\n")
        out = os.path.join(run.dir, "replay-helpers.ndjson")
        run.harness(["helpers", "-cases", cases, "-out", out, "-random", "0"])
        viols, done, _ = validate(run, out, "HelpersTrace", [pred], "tv-replay")
    elif obj.get("prop") == "C18":
        cases = os.path.join(run.dir, "replay-cases.ndjson")
        with open(cases, "w") as f:
            for c in obj["cases"]:
                f.write(json.dumps(c) + "\n")
        out = os.path.join(run.dir, "replay-activation.ndjson")
        run.harness(["activation", "-cases", cases, "-out", out, "-random", "0"])
        viols, done, _ = validate(run, out, "ActivationTrace", [pred], "tv-replay", ACT_TRACE_CONSTS)
    else:
        print("INFRA replay: unknown helpers replay object")
        return 2
    hit = [v for v in viols if v[1] == pred]
    if hit:
        print("REPRODUCED property=%s predicate=%s at line %d of %s" % (obj["property"], pred, hit[0][0], out))
        return 1
    print("NOT-REPRODUCED property=%s predicate=%s" % (obj["property"], pred))
    return 0


PROPS = {"C18": {"run": run_c18}, "C20": {"run": run_c20}}


# =====================================================================================================================
# binding demonstration (bin/check selftest may call this; also: python3 bin/fam_helpers.py selftest)
# =====================================================================================================================
def selftest(run):
    """Corrupts single fields of tables/traces recorded from the real code; every corruption must be flagged by the (T) pass at the
    corrupted line with the expected predicate, and the unmodified recording must be accepted. Returns the list of failed expectations."""
    run.build_harness()
    failed = []

    def demo(label, module, preds, extra, recorded, corruptions):
        lines = [json.loads(l) for l in open(recorded)]
        viols, done, _ = validate(run, recorded, module, preds, "self-%s-base" % label, extra)
        if viols:
            failed.append("%s: the unmodified recording is rejected %s" % (label, viols[:3]))
            return
        expect = []
        for what, cond, change, pred in corruptions:
            idx = next((i for i, r in enumerate(lines) if cond(r) and all(i + 1 != e[0] for e in expect)), None)
            if idx is None:
                failed.append("%s/%s: no suitable line recorded" % (label, what))
                continue
            change(lines[idx])
            expect.append((idx + 1, pred, what))
        bad = os.path.join(run.dir, "self-%s-corrupted.ndjson" % label)
        with open(bad, "w") as f:
            for r in lines:
                f.write(json.dumps(r) + "\n")
        viols, done, _ = validate(run, bad, module, preds, "self-%s-corrupted" % label, extra)
        got = set(viols)
        for line, pred, what in expect:
            ok = (line, pred) in got
            print("selftest binding %s: %-32s line %-5d %s %s" % (label, what, line, pred, "flagged" if ok else "NOT FLAGGED"))
            if not ok:
                failed.append("%s/%s" % (label, what))
        stray = {l for l, _ in got} - {l for l, _, _ in expect}
        if stray:
            failed.append("%s: lines flagged that were not corrupted: %s" % (label, sorted(stray)[:5]))

    # ---- C20
    cases = os.path.join(run.dir, "self-cases.ndjson")
    ids = [[], [255], [255, 255], [0]]
    with open(cases, "w") as f:
        for r in ([{"k": "bytes", "b": [5, 2]}, {"k": "bytes", "b": [255, 255]}, {"k": "bytes", "b": [1]}, {"k": "enc", "m": [True, False, True]},
                   {"k": "addr", "s": [255] * 32, "ids": ids}, {"k": "addr", "s": [0] * 9 + [1] + [0] * 19 + [2, 255, 255], "ids": ids},
                   {"k": "sub", "x": [0, 0, 0, 1], "y": [0, 0, 0, 2]}, {"k": "sub", "x": [0, 0, 1, 0], "y": [0, 0, 0, 2]}]):
            f.write(json.dumps(r) + "\n")
    obs = os.path.join(run.dir, "self-helpers.ndjson")
    run.harness(["helpers", "-cases", cases, "-out", obs, "-seed", "7", "-random", "150"])

    def setf(path, val):
        def ch(r):
            for k in path[:-1]:
                r = r[k]
            r[path[-1]] = val(r[path[-1]]) if callable(val) else val
        return ch
    demo("C20", "HelpersTrace", P20, "", obs, [
        ("encoding of a decoded pair", lambda r: r["k"] == "bytes" and r["b"] == [5, 2], setf(["ce"], [1, 2]), "P20_EncodeDecode"),
        ("decoding of an encoded value", lambda r: r["k"] == "enc", setf(["cb"], [True, True, True]), "P20_DecodeEncode"),
        ("wrong length decodes to a flag", lambda r: r["k"] == "bytes" and len(r["b"]) == 1, setf(["ud"], True), "P20_WrongLength"),
        ("a classifier panicked", lambda r: r["k"] == "addr" and len(r["s"]) == 7, setf(["res"], "panic"), "P20_AddrTotal"),
        ("metachain contract but no contract", lambda r: r["k"] == "addr" and any(r["scm"]), setf(["sc"], False), "P20_AddrConsistent"),
        ("system account not recognised", lambda r: r["k"] == "addr" and r["s"] == [255] * 32, setf(["sys"], False), "P20_AddrNamed"),
        ("contract verdict flipped", lambda r: r["k"] == "addr" and r["sc"] and len(r["s"]) > 32, setf(["sc"], False), "P20_AddrDocumented"),
        ("merged delta off by one", lambda r: r["k"] == "merge" and r["o1"]["delta"]["q"] > -1000, setf(["o1", "delta", "q"], lambda q: q + 1), "P20_MergeDelta"),
        ("merged nonce lowered", lambda r: r["k"] == "merge" and r["o2"]["nonce"] != [0, 0, 0, 0], setf(["o2", "nonce"], [0, 0, 0, 0]), "P20_MergeNonce"),
        ("a storage update lost", lambda r: r["k"] == "merge" and len(r["o1"]["su"]["e"]) > 0, setf(["o1", "su", "e"], lambda e: e[1:]), "P20_MergeStorage"),
        ("a transfer appended twice", lambda r: r["k"] == "merge" and len(r["o1"]["tr"]) > 0, setf(["o1", "tr"], lambda t: t + t[-1:]), "P20_MergeTransfers"),
        ("merged-in account changed later", lambda r: r["k"] == "merge", setf(["aSame2"], False), "P20_MergeNoMutation"),
        ("underflow not reported", lambda r: r["k"] == "sub" and r["err"], setf(["err"], False), "P20_SafeSub"),
        ("difference off by a borrow", lambda r: r["k"] == "sub" and r["x"] == [0, 0, 1, 0] and not r["err"], setf(["v"], [0, 0, 1, 65534]), "P20_SafeSub"),
    ])
    # ---- C18
    trace = os.path.join(run.dir, "self-activation.ndjson")
    run.harness(["activation", "-out", trace, "-seed", "7", "-random", "60", "-bound", "1"])

    def flip(name):
        def ch(r):
            for x in r["fns"]:
                if x["n"] == name:
                    x["a"] = not x["a"]
        return ch
    gated_on = lambda r: r["k"] == "confirm" and any(x["a"] for x in r["fns"] if x["n"] == "MultiESDTNFTTransfer")
    demo("C18", "ActivationTrace", P18, ACT_TRACE_CONSTS, trace, [
        ("gated function reported inactive", gated_on, flip("MultiESDTNFTTransfer"), "P18_ActiveIff"),
        ("gated function active before any epoch", lambda r: r["k"] == "build", flip("ESDTNFTAddURI"), "P18_ActiveIff"),
        ("ungated function reported inactive", lambda r: r["k"] == "confirm", flip("ESDTTransfer"), "P18_ActiveIff"),
        ("a key missing", lambda r: r["k"] == "confirm", setf(["keys"], lambda k: [x for x in k if x != "ESDTWipe"]), "P18_Registry"),
        ("an extra key", lambda r: r["k"] == "build", setf(["keys"], lambda k: sorted(k + ["ESDTFoo"])), "P18_Registry"),
        ("Len() disagrees", lambda r: r["k"] == "confirm", setf(["len"], 22), "P18_Registry"),
        ("unfreeze left the flag set", lambda r: r["k"] == "bound" and r["name"] == "ESDTUnFreeze", setf(["post"], lambda p: sorted(p + ["w.acct.u0a.esdt.'GFRZ-02'.frozen=true"])), "P18_Bound"),
        ("mint changed the balance by 3", lambda r: r["k"] == "bound" and r["name"] == "ESDTLocalMint",
         setf(["post"], lambda p: [x.replace("'FUNG-01'.val=12", "'FUNG-01'.val=13") for x in p]), "P18_Bound"),
        ("a scenario call failed", lambda r: r["k"] == "bound" and r["name"] == "SaveKeyValue", setf(["res"], "err"), "P18_Bound"),
    ])
    return failed


if __name__ == "__main__":
    import sys, time
    if sys.argv[1:2] == ["selftest"]:
        r = Run("C20", "selftest", 0)
        f = selftest(r)
        print("SELFTEST FAILED: %s" % f if f else "SELFTEST OK (helpers family)")
        sys.exit(2 if f else 0)
