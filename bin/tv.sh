#!/bin/bash
# dev helper: build harness, generate a trace, run trace validation
set -e
export GOFLAGS=-mod=mod GOPROXY=off GOSUMDB=off GOTOOLCHAIN=local
cd /verif/harness && go build -o /verif/.work/vh ./cmd/vh
mkdir -p /verif/.work/tv && cd /verif/.work/tv && rm -rf md && cp /verif/spec/*.tla .
/verif/.work/vh ledger -out trace.ndjson "$@" > stats.json
cat > EsdtTrace.cfg <<EOC
INIT Init
NEXT Next
CHECK_DEADLOCK FALSE
INVARIANT Finished
CONSTANT Checked = {${CHECKED:-}}
EOC
JAVA_TOOL_OPTIONS=-Xss256m timeout 600 tlc -workers 1 -metadir /verif/.work/tv/md EsdtTrace.tla 2>&1 | grep -v "^Linting\|^Semantic\|^Parsing\|^TLC2\|^Running\|^Starting\|^Computing\|^Finished comp"
