"""Property registry: which machinery decides which property."""
import json, os, re, shutil, sys
from checklib import *  # noqa

STATE_PREDS = {"TransferConservation", "Conservation", "NoNegative", "WellFormed", "SysClean", "CounterWithRole"}

MC_ALL_DIRECT = ["P04_FlagTakesEffect", "P01_DeliveryNominal", "P16_Price", "P10_RoundTrip", "P10_Accepted", "P11_ShapeVerdict", "P01_FailKeeps", "P02_Others", "P02_NoOverdraft", "P03_Authority", "P04_Immobile", "P04_NoCreditWhilePaused", "P04_FlagOnly",
                 "P05_Protected", "P05_KVExact", "P05_Frame", "P06_NoGasCreated", "P07_ReturnedNonce", "P07_CtrOnlyByCreate", "P08_Create",
                 "P08_OnlyUriAttr", "P08_WrongHash", "P09_Admissible", "P09_Rejected", "P03_Denied", "P02_FreshNonce"]


def mc_cfg(fns, msgs, supply, ctr, checked=None, bugs=(), hs=("u0a", "u0b", "u1a"), freeze=("u0a",), ptoks=("46",), pshards=(0,), gas=(1000,), rejected=False, emit=False, rejsample=4, accsample=1,
           invs=("InvNoViol", "InvConservation", "InvTransferConservation", "InvNoNegative", "InvWellFormed", "InvSysClean", "InvNonces")):
    q = lambda l: "{" + ", ".join('"%s"' % x for x in l) + "}"
    pd = q(ptoks) + "\n  PauseShards = {" + ", ".join(str(x) for x in pshards) + "}"
    return ("SPECIFICATION Spec\nCONSTANTS\n  Fns = %s\n  MaxMsgs = %d\n  MaxSupply = %d\n  MaxCtr = %d\n  Hs = %s\n  FreezeAccts = %s\n  PauseToks = %s\n"
            "  GasPoints = {%s}\n  ExploreRejected = %s\n  EmitTransitions = %s\n  RejSample = %d\n  AccSample = %d\n  Bugs = %s\n  Checked = %s\nINVARIANTS %s\nVIEW View\nCHECK_DEADLOCK FALSE\n") % (
        q(fns), msgs, supply, ctr, q(hs), q(freeze), pd, ", ".join(str(g) for g in gas), "TRUE" if rejected else "FALSE", "TRUE" if emit else "FALSE", rejsample, accsample, q(bugs), q(checked or MC_ALL_DIRECT), " ".join(invs))


# per property: driver profile and flags, predicates checked on recorded behaviour, model configurations (quick, thorough), vacuity guards
def M(fns, msgs=1, supply=2, ctr=1, accsample=1, **kw):
    return dict(fns=fns.split(","), msgs=msgs, supply=supply, ctr=ctr, accsample=accsample, kw=kw)


LEDGER = {
    "C01": dict(profile="transfer", preds=["P01_Exact", "P01_DeliveryAccepted", "P01_DeliveryNominal", "P01_RefundRestores", "P01_FailKeeps", "TransferConservation"],
                mc=([M("ESDTNFTTransfer,create,flags", hs=("u0a", "u1a"), ptoks=("4e",), pshards=(0, 1), freeze=()),
                     M("ESDTTransfer,issue,MultiESDTNFTTransfer,flags", hs=("u0a", "u1a"), pshards=(1,)),
                     M("ESDTTransfer,issue,ESDTNFTTransfer,create")],
                    [M("ESDTNFTTransfer,MultiESDTNFTTransfer,create,flags", hs=("u0a", "u1a"), ptoks=("4e",), pshards=(0, 1), freeze=()), M("ESDTTransfer,issue,MultiESDTNFTTransfer,flags", pshards=(0, 1)), M("ESDTTransfer,issue,ESDTNFTTransfer,MultiESDTNFTTransfer,create", msgs=2, accsample=2)]),
                need=dict(tok_ok=20, deliver_ok=5, deliver_err=1, refund_ok=1, overdraft_rej=1, alias_rej=1)),
    "C02": dict(profile="supply", preds=["P02_Delta", "P02_Others", "P02_NoOverdraft", "P02_FreshNonce", "NoNegative", "Conservation"],
                extra_runs=[("nonce", [], 0.5)],
                mc=([M("mintburn,create,flags,issue", supply=3)],
                    [M("mintburn,create,flags,issue,ESDTTransfer", supply=3, ctr=2, accsample=6), M("mintburn,create,roles,issue", supply=3, hs=("u0a", "u0b"))]),
                need=dict(supply_ok=20, overdraft_rej=2, role_rej=2)),
    "C03": dict(profile="roles", preds=["P03_Authority", "P03_Denied", "P03_RoleOpsExact"],
                mc=([M("mintburn,roles,acct"), M("create,handover,metaops"), M("create,metaops,nftroles", hs=("u0a",))],
                    [M("mintburn,roles,acct", supply=3, accsample=3), M("create,handover,metaops,ESDTNFTTransfer", ctr=2, hs=("u0a", "u1a"), accsample=2), M("mintburn,create,handover,acct", hs=("u0a", "u1a"))]),
                need=dict(role_ok=10, role_rej=5, acct_ok=3, acct_rej=2, handover_ok=1, flag_ok=3)),
    "C04": dict(profile="freeze", preds=["P04_Immobile", "P04_NoCreditWhilePaused", "P04_FlagOnly", "P04_FlagTakesEffect", "P04_Restores"],
                mc=([M("ESDTNFTTransfer,MultiESDTNFTTransfer,create,flags", hs=("u0a", "u1a"), ptoks=("4e",), pshards=(0, 1), freeze=(), rejected=False),
                     M("ESDTTransfer,MultiESDTNFTTransfer,flags,mintburn,issue", hs=("u0a", "u0b"), supply=3, rejsample=20),
                     M("create,ESDTNFTTransfer,nftflags,flags")],
                    [M("ESDTNFTTransfer,MultiESDTNFTTransfer,create,flags", ptoks=("4e",), pshards=(0, 1), freeze=(), accsample=2), M("create,metaops,ESDTNFTTransfer,nftflags,flags", accsample=4), M("ESDTTransfer,MultiESDTNFTTransfer,flags,mintburn,issue", freeze=("u0a", "u1a"), pshards=(0, 1), supply=3, accsample=5)]),
                need=dict(unflagged_ok=5, frozen_rej=3, paused_rej=3, flag_ok=10, refund_ok=1)),
    "C05": dict(profile="kv", preds=["P05_Protected", "P05_KVExact", "P05_Frame"],
                extra_runs=[("transfer", [], 0.4)],      # the frame condition under transfer-heavy histories (alias splits, multi-byte nonces)
                mc=([M("kv,ESDTTransfer,acct")],
                    [M("kv,ESDTTransfer,acct"), M("kv,ESDTNFTTransfer,create,flags,handover", hs=("u0a", "u1a"), accsample=2)]),
                need=dict(kv_ok=10, kv_prot_rej=5, tok_ok=5)),
    "C06": dict(profile="gas", flags=["-gassweep"], preds=["P06_NoGasCreated", "P06_Underfunded"],
                extra_runs=[("acctlevel", ["-gassweep"], 0.4)],
                mc=([M("ESDTTransfer,kv,create,ESDTNFTTransfer,MultiESDTNFTTransfer", gas=(0, 9, 10, 11, 60, 1000), hs=("u0a", "u1a"), rejected=False)],
                    [M("ESDTTransfer,kv,create,ESDTNFTTransfer,MultiESDTNFTTransfer", gas=(0, 9, 10, 11, 60, 1000), hs=("u0a", "u1a"), rejected=False), M("metaops,mintburn,acct,create", gas=(0, 9, 10, 11, 20, 1000), hs=("u0a", "u1a"), rejected=False, accsample=4)]),
                need=dict(gas_max=20, gas_rej=20, underfunded=20, priced=50)),
    "C07": dict(profile="nonce", preds=["P07_ReturnedNonce", "P07_Handover", "P07_CtrOnlyByCreate", "CounterWithRole", "P07_FaultNonce"],
                extra_runs=[("nonce", ["-faults"], 0.25)],
                mc=([M("create,handover", ctr=2), M("create,handover,ESDTNFTTransfer", ctr=2, hs=("u0a", "u1a"))],
                    [M("create,handover,ESDTNFTTransfer", ctr=2, accsample=2), M("create,handover,ESDTNFTTransfer,MultiESDTNFTTransfer", ctr=2, hs=("u0a", "u1a"), accsample=2)]),
                need=dict(create_ok=15, handover_ok=2, handover_deliver=1, faults_soft=3)),
    "C08": dict(profile="meta", preds=["P08_Conf", "P08_Create", "P08_OnlyUriAttr", "P08_UriAttrExact", "P08_WrongHash"],
                mc=([M("create,metaops,ESDTNFTTransfer,nftflags")],
                    [M("create,metaops,ESDTNFTTransfer,MultiESDTNFTTransfer", ctr=1), M("create,metaops,ESDTNFTTransfer,nftflags", hs=("u0a", "u1a"), freeze=("u0a", "u1a")), M("create,metaops,ESDTNFTTransfer", msgs=2, ctr=2, hs=("u0a", "u1a"), accsample=2)]),
                need=dict(create_ok=10, meta_fn_ok=2, tok_ok=15, deliver_ok=3)),
    "C09": dict(profile="payable", preds=["P09_Admissible", "P09_Rejected"],
                mc=([M("ESDTTransfer,ESDTNFTTransfer,MultiESDTNFTTransfer,create,issue", hs=("u0a", "u1a", "c1a"))],
                    [M("ESDTTransfer,ESDTNFTTransfer,MultiESDTNFTTransfer,create,issue", hs=("u0a", "u1a", "c1a")), M("ESDTTransfer,ESDTNFTTransfer,MultiESDTNFTTransfer,create,issue", msgs=2, hs=("u0a", "c1a"))]),
                need=dict(payable_rej=3, tok_ok=20, nonpay_exempt=1)),
    "C10": dict(profile="transfer", preds=["P10_ParserEqualsLedger", "P10_RoundTrip", "P10_Accepted"],
                mc=([M("ESDTTransfer,ESDTNFTTransfer,MultiESDTNFTTransfer,create,issue", hs=("u0a", "u1a", "c1a"))],
                    [M("ESDTTransfer,ESDTNFTTransfer,MultiESDTNFTTransfer,create,issue", hs=("u0a", "u1a", "c1a")), M("ESDTTransfer,MultiESDTNFTTransfer,handover,acct,issue,create", hs=("u0a", "u1a"), accsample=8)]),
                need=dict(out_msgs=10, parsed=30, deliver_ok=5)),
    "C11": dict(profile="mixed", flags=["-alloc", "-adversarial", "75"], preds=["P11_Shape", "P11_ShapeVerdict", "P11_Alloc"],
                mc=([M("ESDTTransfer,ESDTNFTTransfer,MultiESDTNFTTransfer,create,metadst", rejected=True, hs=("u0a", "u1a")), M("mintburn,metaops,create", rejected=True, hs=("u0a",)), M("kv,flags", rejected=True, hs=("u0a",)), M("acct,handover", rejected=True, hs=("u0a", "u1a"))],
                    [M("ESDTTransfer,ESDTNFTTransfer,MultiESDTNFTTransfer,create", rejected=True, hs=("u0a", "u1a")), M("mintburn,metaops,create,flags", rejected=True, hs=("u0a", "u1a")), M("kv,flags,acct", rejected=True, hs=("u0a", "u1a")), M("handover,roles", rejected=True, hs=("u0a", "u1a"))]),
                extra_runs=[("gas", ["-gassweep", "-alloc"], 0.5), ("kv", ["-gassweep", "-alloc"], 0.3)],
                need=dict(shapebad=100, steps=1000, gas_max=20)),
    "C13": dict(profile="mixed", flags=["-triple"], preds=["P13_Replicas", "P13_InputIntact"],
                extra_runs=[("gas", ["-triple"], 0.75)],      # histories with schedule changes and epoch notifications before the compared call
                mc=([M("ESDTTransfer,issue,ESDTNFTTransfer,create")], [M("ESDTTransfer,issue,ESDTNFTTransfer,MultiESDTNFTTransfer,create,mintburn")]),
                need=dict(replicas=500, tok_ok=10), scale=0.5),
    "C15": dict(profile="mixed", preds=["WellFormed", "SysClean", "NoNegative"],
                mc=([M("ESDTTransfer,ESDTNFTTransfer,create,handover"), M("ESDTTransfer,flags,mintburn,issue", supply=3)],
                    [M("ESDTTransfer,ESDTNFTTransfer,create,handover"), M("ESDTTransfer,flags,mintburn,issue,roles", supply=3, accsample=6), M("ESDTTransfer,issue,ESDTNFTTransfer,MultiESDTNFTTransfer,mintburn,create,handover", hs=("u0a", "u1a"))]),
                extra_runs=[("nonce", [], 0.3), ("transfer", [], 0.3), ("roles", [], 0.3)],
                need=dict(tok_ok=10, supply_ok=10, flag_ok=5, create_ok=5)),
    "C16": dict(profile="gas", flags=["-gassweep"], preds=["P16_Price", "P16_ProbePrice", "P16_Charged"],
                mc=([M("sched,ESDTTransfer,kv,create,ESDTNFTTransfer,MultiESDTNFTTransfer", gas=(60, 1000), hs=("u0a", "u1a"), rejected=False, accsample=4)],
                    [M("sched,ESDTTransfer,kv,create,ESDTNFTTransfer,MultiESDTNFTTransfer", gas=(60, 1000), hs=("u0a", "u1a"), rejected=False, accsample=2), M("sched,metaops,mintburn,acct,create", gas=(60, 1000), hs=("u0a", "u1a"), rejected=False, accsample=4)]),
                need=dict(sched_ok=3, sched_rej=2, priced=80, probe=100)),
    "C17": dict(profile="mixed", flags=["-faults"], preds=["P17_FaultIsError", "P17_NoPanic"],
                mc=([M("ESDTTransfer,issue,ESDTNFTTransfer,create")], [M("ESDTTransfer,issue,ESDTNFTTransfer,MultiESDTNFTTransfer,create,mintburn")]),
                need=dict(faults_fired=300), scale=0.4),
}

def fault_model(run):
    """C17 (M): with error propagation every ledger invariant survives every fault point; with a swallowed write it does not (non-vacuity)."""
    cfg = "SPECIFICATION Spec\nCONSTANTS Swallow = %s\n MaxCalls = %d\nINVARIANTS Conservation NoNegative FaultIsError\nCHECK_DEADLOCK FALSE\n"
    run.model_check("Fault", cfg % ("FALSE", 3 if run.tier == "quick" else 4), name="Fault-propagate", timeout=1200)
    ok, o, info = run.model_check("Fault", cfg % ("TRUE", 3), name="Fault-swallow", timeout=600, must_hold=False)
    if ok or "Invariant" not in o:
        raise Infra("Fault.tla with Swallow=TRUE must violate an invariant (non-vacuity of C17's model)")


def inductive_core(run):
    """An extra, never the verdict: Apalache discharges conservation of the fungible core (FungibleCore.tla) as an inductive invariant
    over unbounded integers: Init => IndInv and IndInv /\\ Next => IndInv'."""
    d = run.spec_dir("apalache")
    done = 0
    for init, length in (("Init", 0), ("IndInit", 1)):
        cmd = ["apalache-mc", "check", "--init=" + init, "--inv=IndInv", "--length=%d" % length, "--out-dir=" + os.path.join(d, "out"), "FungibleCore.tla"]
        try:
            rc, o = sh(cmd, cwd=d, timeout=600)
        except Exception as e:
            raise Infra("apalache did not run: %r" % e)
        run.cov["tlc_cmds"].append("(cd %s && %s)" % (os.path.relpath(d, ROOT), " ".join(cmd)))
        if rc != 0 or "EXITCODE: OK" not in o:
            raise Infra("inductive obligation --init=%s not discharged by Apalache:\n%s" % (init, o[-1500:]))
        done += 1
    shutil.rmtree(os.path.join(d, "out"), ignore_errors=True)
    run.cov["inductive_obligations_discharged"] = done


LEDGER["C17"]["extra_mc"] = [fault_model]
LEDGER["C01"]["extra_mc"] = [inductive_core]
LEDGER["C02"]["extra_mc"] = [inductive_core]

def drop_drift(run, viols):
    """Disagreement with the model's verdict beyond what the property's own predicates state is drift: recorded, never an alarm."""
    n = sum(1 for _, p in viols if p == "P00_ReplayAgrees")
    run.cov["replay_verdict_drift"] = run.cov.get("replay_verdict_drift", 0) + n
    return [(l, p) for l, p in viols if p != "P00_ReplayAgrees"]


def replay_walks(run, mc, n, depth, preds, label, rejected=False):
    """Specification -> code: TLC simulates the bounded model, the harness replays every walk on the real code from the model's
    initial world (state injection), and the recorded behaviour is validated by TLC like any other trace."""
    d = run.spec_dir("sim-" + label)
    kw = dict(mc["kw"])
    kw["rejected"] = rejected or kw.get("rejected", False)
    cfg = mc_cfg(mc["fns"], mc["msgs"], mc["supply"], mc["ctr"], **kw)
    cfg = cfg.replace("SPECIFICATION Spec", "SPECIFICATION SimSpec").replace("VIEW View\n", "").replace("CONSTANTS\n", "CONSTANTS\n  Depth = %d\n" % depth)
    rc, o = run.tlc(d, "EsdtSim", cfg, workers=1, timeout=1500, extra=["-simulate", "num=%d" % n, "-depth", str(depth + 2), "-seed", str(run.seed)])
    if "Error" in o and "WALK" not in o:
        raise Infra("simulation of the model failed:\n" + tail_errors(o))
    walks = re.findall(r'<<\s*"WALK",\s*"(.*?)"\s*>>', o, re.S)
    wf = os.path.join(run.dir, "walks-%s.ndjson" % label)
    with open(wf, "w") as f:
        for wk in walks:
            f.write(wk.replace('\\"', '"').replace("\\\\", "\\").replace("\n", "") + "\n")
    if not walks:
        raise Infra("the simulation produced no behaviour of depth %d" % depth)
    trace = os.path.join(run.dir, "mcreplay-%s.ndjson" % label)
    st = run.harness(["mcreplay", "-in", wf, "-out", trace])
    viols, done = run.validate(trace, preds + ["P00_ReplayAgrees"], label="tv-sim-" + label)
    viols = drop_drift(run, viols)
    record_ledger_violations(run, trace, viols, family="mcreplay", walks=wf)
    run.cov["traces_validated_against_impl"] += st["traces"]
    run.cov.setdefault("replayed_model_behaviours", 0)
    run.cov["replayed_model_behaviours"] += st["traces"]
    run.cov.setdefault("replayed_model_steps", 0)
    run.cov["replayed_model_steps"] += st["steps"]
    return done


def fix_tlc_world(w):
    """TLC's ToJson prints an empty function as []: restore the objects the harness expects."""
    for a in w["acct"].values():
        for f in ("esdt", "roles", "ctr", "kv", "bad"):
            if a[f] == []:
                a[f] = {}
    for f in ("paused", "sysx"):
        if w[f] == []:
            w[f] = {}
        for s in w[f]:
            if w[f][s] == []:
                w[f][s] = {}
    for f in ("oracle", "sched"):
        if w[f] == []:
            w[f] = {}
    return w


def model_and_emit(run, mc, label):
    """(M) + generation in one TLC run: exhaustive check of the bounded configuration (every invariant and direct predicate on every
    transition, rejected calls included) that also prints every accepted transition and a sample of the rejected near-misses."""
    kw = dict(mc["kw"])
    kw["emit"] = True
    # rejected calls are explored (and their near-misses emitted) in the two-holder configurations; the quick tier explores only the
    # accepted calls of the larger ones
    kw.setdefault("rejected", not (run.tier == "quick" and len(kw.get("hs", ("a", "b", "c"))) > 2))
    if len(kw.get("gas", (1000,))) > 2 and run.tier == "quick":
        kw["gas"] = (kw["gas"][1], kw["gas"][-1])       # quick: the two most interesting gas points (just below a charge, ample)
    kw.setdefault("rejsample", 12 if run.tier == "quick" else 60)
    kw.setdefault("accsample", mc.get("accsample", 1))
    ok, o, info = run.model_check("EsdtMC", mc_cfg(mc["fns"], mc["msgs"], mc["supply"], mc["ctr"], **kw), name="EsdtMC-%s-%s" % (run.pid, label),
                                  timeout=1200 if run.tier == "quick" else 7200)
    tf = os.path.join(run.dir, "trans-%s.ndjson" % label)
    n = 0
    outp = os.path.join(run.dir, "mc-EsdtMC-%s-%s" % (run.pid, label), "EsdtMC.out")
    with open(tf, "w") as out, open(outp, errors="replace") as f:
        for line in f:
            if not line.startswith('<<"TRANS", "'):
                continue
            if n >= 300000:
                break     # enough for one configuration (sampling rates are set so that this is rarely reached)
            body = line.rstrip()[len('<<"TRANS", "'):-len('">>')]
            t = json.loads(body.replace('\\"', '"').replace("\\\\", "\\"))
            t["w"] = fix_tlc_world(t["w"])
            out.write(json.dumps(t) + "\n")
            n += 1
    os.remove(outp)
    if n == 0:
        raise Infra("no transition emitted by the model run")
    return tf, n


def inject_replay(run, tf, n, preds, label, target):
    """One implementation test per transition of the bounded model's state graph: the harness injects each pre-state into a real world
    (checking Project(Inject(s)) = s), runs the call and compares the verdict; a sample of `target` transitions plus every disagreement
    is validated by TLC in full."""
    trace = os.path.join(run.dir, "inject-%s.ndjson" % label)
    st = run.harness(["inject", "-in", tf, "-out", trace, "-every", str(max(1, n // target))])
    if st["badinject"]:
        raise Infra("Project(Inject(s)) != s on %d injected states (harness error)" % st["badinject"])
    viols, done = run.validate(trace, preds + ["P00_ReplayAgrees"], label="tv-inj-" + label)
    viols = drop_drift(run, viols)
    record_ledger_violations(run, trace, viols, family="inject", walks=tf)
    run.cov["traces_validated_against_impl"] += done["counters"].get("replayed", 0)
    run.cov["model_transitions_executed_on_impl"] = run.cov.get("model_transitions_executed_on_impl", 0) + st["traces"]
    run.cov["model_transitions_validated_by_tlc"] = run.cov.get("model_transitions_validated_by_tlc", 0) + done["counters"].get("replayed", 0)
    run.cov["model_transition_verdict_disagreements"] = run.cov.get("model_transition_verdict_disagreements", 0) + st["disagree"]
    if not run.violations:
        os.remove(tf)
    return st


SIZES = {"quick": dict(traces=20, steps=140), "thorough": dict(traces=240, steps=300)}


def run_ledger(run):
    spec = LEDGER[run.pid]
    run.build_harness()
    # (M) exhaustive model check of the bounded configuration(s); the same runs emit the state graph's transitions
    cfgs = spec["mc"][0 if run.tier == "quick" else 1]
    emitted = [model_and_emit(run, mc, str(n)) for n, mc in enumerate(cfgs)]
    for f in spec.get("extra_mc", []):
        f(run)
    # specification -> code (a): one implementation test per transition of the model's state graph (state injection)
    for n, (tf, cnt) in enumerate(emitted):
        inject_replay(run, tf, cnt, spec["preds"], str(n), (1500 if run.tier == "quick" else 16000) // len(cfgs))
    # specification -> code (b): replay of simulated model behaviours from the model's initial world
    done = replay_walks(run, cfgs[0], 30 if run.tier == "quick" else 400, 12 if run.tier == "quick" else 16, spec["preds"], "0")
    run.require(done["counters"].get("replayed", 0) >= 80, "replayed model steps=%d < 80" % done["counters"].get("replayed", 0))
    # (T) recorded behaviours of the real code
    sz = SIZES[run.tier]
    scale = spec.get("scale", 1.0)
    total = dict(lines=0, drift=0, counters={})
    chunks = 1 if run.tier == "quick" else 8
    ntr = max(2, int(sz["traces"] * scale) // chunks)
    plan = [(spec["profile"], spec.get("flags", []), ntr)] * chunks
    # further driver modes whose traces are validated against the same predicates
    for prof, flags, frac in spec.get("extra_runs", []):
        plan.append((prof, flags, max(2, int(ntr * frac))))
    # record every chunk (sequential: the harness is quick), then let TLC validate the chunks - four at a time in the thorough tier
    recorded = []
    for ch, (prof, flags, ntr_ch) in enumerate(plan):
        trace = os.path.join(run.dir, "ledger-%d.ndjson" % ch)
        st = run.harness(["ledger", "-seed", str(run.seed * 100 + ch), "-traces", str(ntr_ch), "-steps", str(sz["steps"]), "-profile", prof, "-out", trace] + flags)
        recorded.append((ch, trace, st))
    import concurrent.futures
    with concurrent.futures.ThreadPoolExecutor(max_workers=1 if run.tier == "quick" else 4) as ex:
        futs = [(ch, trace, st, ex.submit(run.validate, trace, spec["preds"], "EsdtTrace", "tv%d" % ch, 7200)) for ch, trace, st in recorded]
        results = [(ch, trace, st) + f.result() for ch, trace, st, f in futs]
    for ch, trace, st, viols, done in results:
        if done["lines"] != st["lines"]:
            raise Infra("trace validation consumed %d of %d lines" % (done["lines"], st["lines"]))
        total["lines"] += done["lines"]
        total["drift"] += done["drift"]
        for k, v in done["counters"].items():
            total["counters"][k] = total["counters"].get(k, 0) + v
        run.cov["traces_validated_against_impl"] += st["traces"]
        record_ledger_violations(run, trace, viols)
        if ch == 0:
            lines = read_lines(trace, [5, 40, 90])
            run.cov["samples"] += [{"line": k, "event": slim_event(v["ev"])} for k, v in lines.items()]
    if run.tier == "thorough" and not run.violations:
        for ch, trace, st in recorded:
            os.remove(trace)
            os.remove(trace + ".replay")
    run.cov["evaluations"] = total["lines"]
    run.cov["distinct_nontrivial"] = sum(1 for k, v in total["counters"].items() if v > 0 and k not in ("steps", "ok", "err", "unk", "pred"))
    run.cov["rule"] = ("seeded random drivers over 1-3 shard worlds executing the factory-built functions of /repo; every step recorded with the complete projected world; "
                       "evaluations = recorded events validated by TLC; distinct_nontrivial = number of distinct situation classes (vacuity counters of EsdtTrace.tla) exercised at least once")
    run.cov["counters"] = total["counters"]
    run.cov["drift_steps"] = total["drift"]
    run.cov["predicates"] = spec["preds"]
    for k, n in spec["need"].items():
        need = n if run.tier == "quick" else n * 3
        run.require(total["counters"].get(k, 0) >= need, "%s=%d < %d" % (k, total["counters"].get(k, 0), need))


def ledger_pass(run, profile, flags, ntr, steps, preds, label, seed_off=0):
    """One pass of the random ledger driver validated against `preds` (usable by other families too)."""
    trace = os.path.join(run.dir, "ledger-%s.ndjson" % label)
    st = run.harness(["ledger", "-seed", str(run.seed * 100 + seed_off), "-traces", str(ntr), "-steps", str(steps), "-profile", profile, "-out", trace] + flags)
    viols, done = run.validate(trace, preds, label="tv-" + label)
    if done["lines"] != st["lines"]:
        raise Infra("trace validation consumed %d of %d lines" % (done["lines"], st["lines"]))
    record_ledger_violations(run, trace, viols)
    run.cov["traces_validated_against_impl"] += st["traces"]
    return st, done


def slim_event(ev):
    e = {k: v for k, v in ev.items() if k in ("a", "sh", "fn", "caller", "rcpt", "gas", "ct", "rae", "res", "gr", "fwd", "err", "mid")}
    e["args"] = [a.get("h", "")[:24] for a in ev.get("args", [])]
    return e


def record_ledger_violations(run, trace, viols, family="ledger", walks=None):
    if not viols:
        return
    lines = read_lines(trace, [l for l, _ in viols[:50]])
    for l, pred in viols[:50]:
        ev = lines[l]["ev"]
        desc = {"fn": ev["fn"], "a": ev["a"], "res": ev["res"], "caller": ev["caller"], "rcpt": ev["rcpt"], "line": l, "nargs": len(ev["args"])}
        obj = {"family": family, "steps": trace_prefix(trace + ".replay", l), "event": ev, "checked": [pred]}
        if family in ("mcreplay", "inject"):
            # the walk (model behaviour) / transition that contains the failing step
            tno = (obj["steps"][0].get("trace", obj["steps"][0].get("trans", 0))) if obj["steps"] else 0
            with open(walks) as f:
                for i, wl in enumerate(f):
                    if i == tno:
                        obj["walk"] = json.loads(wl)
        run.add_violation(pred, desc, obj)


def replay(path):
    """Re-executes a replay file against the current tree; exit 1 when the violation reproduces, 0 when not, 2 on error."""
    obj = json.load(open(path))
    run = Run(obj["property"], "quick", 0)
    run.dir = os.path.join(WORK, "replay")
    os.makedirs(run.dir, exist_ok=True)
    try:
        if obj.get("family") in ("ledger", "mcreplay", "inject"):
            run.build_harness()
            trace = os.path.join(run.dir, "replay.ndjson")
            if obj["family"] == "ledger":
                steps = os.path.join(run.dir, "steps.json")
                json.dump(obj["steps"], open(steps, "w"))
                run.harness(["replay", "-in", steps, "-out", trace])
            else:
                wf = os.path.join(run.dir, "walk.ndjson")
                open(wf, "w").write(json.dumps(obj["walk"]) + "\n")
                run.harness([obj["family"], "-in", wf, "-out", trace])
            viols, done = run.validate(trace, obj["checked"], label="tv-replay")
            hit = [v for v in viols if v[1] == obj["predicate"]]
            if hit:
                print("REPRODUCED property=%s predicate=%s at line %d of %s" % (obj["property"], obj["predicate"], hit[0][0], trace))
                return 1
            print("NOT-REPRODUCED property=%s predicate=%s" % (obj["property"], obj["predicate"]))
            return 0
        import families_ext
        return families_ext.replay(run, obj)
    except Infra as e:
        print("INFRA replay:", e)
        return 2


def selftest(args):
    import selftest as st
    return st.main(args)


PROPS = {pid: {"run": run_ledger} for pid in LEDGER}
try:
    import families_ext
    PROPS.update(families_ext.PROPS)
except ImportError:
    pass
