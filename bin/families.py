"""Property registry: which machinery decides which property."""
import json, os, sys
from checklib import *  # noqa

STATE_PREDS = {"Conservation", "NoNegative", "WellFormed", "SysClean", "CounterWithRole"}

MC_ALL_DIRECT = ["P01_FailKeeps", "P02_Others", "P02_NoOverdraft", "P03_Authority", "P04_Immobile", "P04_NoCreditWhilePaused", "P04_FlagOnly",
                 "P05_Protected", "P05_KVExact", "P05_Frame", "P06_NoGasCreated", "P07_ReturnedNonce", "P07_CtrOnlyByCreate", "P08_Create",
                 "P08_OnlyUriAttr", "P08_WrongHash", "P09_Admissible", "P09_Rejected"]


def mc_cfg(fns, msgs, supply, ctr, checked=None, bugs=(), hs=("u0a", "u0b", "u1a"), freeze=("u0a",), ptoks=("46",), pshards=(0,),
           invs=("InvNoViol", "InvConservation", "InvNoNegative", "InvWellFormed", "InvSysClean", "InvNonces")):
    q = lambda l: "{" + ", ".join('"%s"' % x for x in l) + "}"
    pd = q(ptoks) + "\n  PauseShards = {" + ", ".join(str(x) for x in pshards) + "}"
    return ("SPECIFICATION Spec\nCONSTANTS\n  Fns = %s\n  MaxMsgs = %d\n  MaxSupply = %d\n  MaxCtr = %d\n  Hs = %s\n  FreezeAccts = %s\n  PauseToks = %s\n"
            "  Bugs = %s\n  Checked = %s\nINVARIANTS %s\nVIEW View\nCHECK_DEADLOCK FALSE\n") % (
        q(fns), msgs, supply, ctr, q(hs), q(freeze), pd, q(bugs), q(checked or MC_ALL_DIRECT), " ".join(invs))


# per property: driver profile, predicates checked on recorded behaviour, model configuration (quick, thorough), vacuity guards
LEDGER = {
    "C01": dict(profile="transfer", preds=["P01_Exact", "P01_DeliveryAccepted", "P01_RefundRestores", "P01_FailKeeps", "Conservation", "NoNegative"],
                mc=(dict(fns=["ESDTTransfer", "issue", "ESDTNFTTransfer", "nft", "flags"], msgs=1, supply=2, ctr=1),
                    dict(fns=["ESDTTransfer", "issue", "ESDTNFTTransfer", "MultiESDTNFTTransfer", "nft", "flags"], msgs=2, supply=3, ctr=1)),
                need=dict(tok_ok=20, deliver_ok=5, deliver_err=1, refund_ok=1, overdraft_rej=1, alias_rej=1)),
    "C02": dict(profile="supply", preds=["P02_Delta", "P02_Others", "P02_NoOverdraft", "NoNegative", "Conservation"],
                mc=(dict(fns=["mintburn", "nft", "flags", "issue"], msgs=1, supply=3, ctr=2),
                    dict(fns=["mintburn", "nft", "flags", "issue", "ESDTTransfer", "roles"], msgs=1, supply=4, ctr=3)),
                need=dict(supply_ok=20, overdraft_rej=2, role_rej=2)),
    "C03": dict(profile="roles", preds=["P03_Authority", "P03_Grant", "P03_Denied"],
                mc=(dict(fns=["mintburn", "nft", "roles", "handover", "acct", "flags"], msgs=1, supply=3, ctr=1),
                    dict(fns=["mintburn", "nft", "roles", "handover", "acct", "flags", "ESDTTransfer"], msgs=2, supply=3, ctr=2)),
                need=dict(role_ok=10, role_rej=5, acct_ok=3, acct_rej=2, handover_ok=1, flag_ok=3)),
    "C04": dict(profile="freeze", preds=["P04_Immobile", "P04_NoCreditWhilePaused", "P04_FlagOnly", "P04_Restores"],
                mc=(dict(fns=["ESDTTransfer", "flags", "mintburn", "issue"], msgs=1, supply=3, ctr=1),
                    dict(fns=["ESDTTransfer", "ESDTNFTTransfer", "MultiESDTNFTTransfer", "flags", "mintburn", "nft", "issue"], msgs=1, supply=3, ctr=1)),
                need=dict(frozen_rej=3, paused_rej=3, flag_ok=10, refund_ok=1)),
    "C05": dict(profile="kv", preds=["P05_Protected", "P05_KVExact", "P05_Frame"],
                mc=(dict(fns=["kv", "ESDTTransfer", "acct", "flags"], msgs=1, supply=2, ctr=1),
                    dict(fns=["kv", "ESDTTransfer", "ESDTNFTTransfer", "nft", "acct", "flags", "roles", "handover"], msgs=1, supply=2, ctr=1)),
                need=dict(kv_ok=10, kv_prot_rej=5, tok_ok=5)),
    "C07": dict(profile="nonce", preds=["P07_ReturnedNonce", "P07_Handover", "P07_CtrOnlyByCreate", "CounterWithRole"],
                mc=(dict(fns=["nft", "handover", "ESDTNFTTransfer"], msgs=1, supply=2, ctr=2),
                    dict(fns=["nft", "handover", "ESDTNFTTransfer", "MultiESDTNFTTransfer"], msgs=2, supply=2, ctr=3)),
                need=dict(create_ok=15, handover_ok=2, handover_deliver=1)),
    "C08": dict(profile="meta", preds=["P08_Conf", "P08_Create", "P08_OnlyUriAttr", "P08_UriAttrExact", "P08_WrongHash"],
                mc=(dict(fns=["nft", "ESDTNFTTransfer"], msgs=2, supply=2, ctr=2),
                    dict(fns=["nft", "ESDTNFTTransfer", "MultiESDTNFTTransfer"], msgs=2, supply=2, ctr=2)),
                need=dict(create_ok=10, meta_fn_ok=2, tok_ok=15, deliver_ok=3)),
    "C09": dict(profile="payable", preds=["P09_Admissible", "P09_Rejected"],
                mc=(dict(fns=["ESDTTransfer", "ESDTNFTTransfer", "nft", "issue"], msgs=2, supply=2, ctr=1),
                    dict(fns=["ESDTTransfer", "ESDTNFTTransfer", "MultiESDTNFTTransfer", "nft", "issue"], msgs=2, supply=3, ctr=1)),
                need=dict(payable_rej=3, tok_ok=20, nonpay_exempt=1)),
    "C15": dict(profile="mixed", preds=["WellFormed", "SysClean", "NoNegative"],
                mc=(dict(fns=["ESDTTransfer", "ESDTNFTTransfer", "mintburn", "nft", "flags", "roles", "handover"], msgs=1, supply=2, ctr=1),
                    dict(fns=["ESDTTransfer", "issue", "ESDTNFTTransfer", "MultiESDTNFTTransfer", "mintburn", "nft", "flags", "roles", "handover", "acct", "kv"], msgs=1, supply=2, ctr=2)),
                need=dict(tok_ok=10, supply_ok=10, flag_ok=5, create_ok=5)),
}

SIZES = {"quick": dict(traces=16, steps=140), "thorough": dict(traces=240, steps=300)}


def run_ledger(run):
    spec = LEDGER[run.pid]
    run.build_harness()
    # (M) exhaustive model check of the bounded configuration
    mc = spec["mc"][0 if run.tier == "quick" else 1]
    run.model_check("EsdtMC", mc_cfg(mc["fns"], mc["msgs"], mc["supply"], mc["ctr"]), name="EsdtMC-" + run.pid, timeout=1500 if run.tier == "quick" else 7200)
    # (T) recorded behaviours of the real code
    sz = SIZES[run.tier]
    total = dict(lines=0, drift=0, counters={})
    chunks = 1 if run.tier == "quick" else 6
    for ch in range(chunks):
        trace = os.path.join(run.dir, "ledger-%d.ndjson" % ch)
        st = run.harness(["ledger", "-seed", str(run.seed * 100 + ch), "-traces", str(sz["traces"] // chunks), "-steps", str(sz["steps"]), "-profile", spec["profile"], "-out", trace])
        viols, done = run.validate(trace, spec["preds"], label="tv%d" % ch)
        if done["lines"] != st["lines"]:
            raise Infra("trace validation consumed %d of %d lines" % (done["lines"], st["lines"]))
        total["lines"] += done["lines"]
        total["drift"] += done["drift"]
        for k, v in done["counters"].items():
            total["counters"][k] = total["counters"].get(k, 0) + v
        run.cov["traces_validated_against_impl"] += st["traces"]
        record_ledger_violations(run, trace, viols)
        if ch == 0:
            lines = read_lines(trace, [5, 40, 90])
            run.cov["samples"] += [{"line": k, "event": slim_event(v["ev"])} for k, v in lines.items()]
        if run.tier == "thorough":
            os.remove(trace)
    run.cov["evaluations"] = total["counters"].get("steps", 0)
    run.cov["distinct_nontrivial"] = sum(1 for k, v in total["counters"].items() if v > 0 and k not in ("steps", "ok", "err", "unk", "pred"))
    run.cov["rule"] = ("seeded random drivers over 1-3 shard worlds executing the factory-built functions of /repo; every step recorded with the complete projected world; "
                       "distinct_nontrivial = number of distinct situation classes (vacuity counters of EsdtTrace.tla) exercised at least once")
    run.cov["counters"] = total["counters"]
    run.cov["drift_steps"] = total["drift"]
    run.cov["predicates"] = spec["preds"]
    for k, n in spec["need"].items():
        need = n if run.tier == "quick" else n * 3
        run.require(total["counters"].get(k, 0) >= need, "%s=%d < %d" % (k, total["counters"].get(k, 0), need))


def slim_event(ev):
    e = {k: v for k, v in ev.items() if k in ("a", "sh", "fn", "caller", "rcpt", "gas", "ct", "rae", "res", "gr", "fwd", "err", "mid")}
    e["args"] = [a.get("h", "")[:24] for a in ev.get("args", [])]
    return e


def record_ledger_violations(run, trace, viols):
    if not viols:
        return
    lines = read_lines(trace, [l for l, _ in viols[:50]])
    for l, pred in viols[:50]:
        ev = lines[l]["ev"]
        desc = {"fn": ev["fn"], "a": ev["a"], "res": ev["res"], "caller": ev["caller"], "rcpt": ev["rcpt"], "line": l, "nargs": len(ev["args"])}
        run.add_violation(pred, desc, {"family": "ledger", "steps": trace_prefix(trace + ".replay", l), "event": ev, "checked": [pred]})


def replay(path):
    """Re-executes a replay file against the current tree; exit 1 when the violation reproduces, 0 when not, 2 on error."""
    obj = json.load(open(path))
    run = Run(obj["property"], "quick", 0)
    run.dir = os.path.join(WORK, "replay")
    os.makedirs(run.dir, exist_ok=True)
    try:
        if obj.get("family") == "ledger":
            run.build_harness()
            steps = os.path.join(run.dir, "steps.json")
            json.dump(obj["steps"], open(steps, "w"))
            trace = os.path.join(run.dir, "replay.ndjson")
            run.harness(["replay", "-in", steps, "-out", trace])
            viols, done = run.validate(trace, obj["checked"], label="tv-replay")
            hit = [v for v in viols if v[1] == obj["predicate"]]
            if hit:
                print("REPRODUCED property=%s predicate=%s at line %d of %s" % (obj["property"], obj["predicate"], hit[0][0], trace))
                return 1
            print("NOT-REPRODUCED property=%s predicate=%s" % (obj["property"], obj["predicate"]))
            return 0
        import families_ext
        return families_ext.replay(run, obj)
    except Infra as e:
        print("INFRA replay:", e)
        return 2


def selftest(args):
    import selftest as st
    return st.main(args)


PROPS = {pid: {"run": run_ledger} for pid in LEDGER}
try:
    import families_ext
    PROPS.update(families_ext.PROPS)
except ImportError:
    pass
