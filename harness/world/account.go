// Package world is the verification harness's stand-in for the node: in-memory accounts,
// accounts adapters, shard coordinators, payability oracles, the production marshalizer
// and the protocol rules (rollback on error, cross-shard delivery, refunds).
// Nothing here uses the repository's mocks, so a change to them cannot move the oracle.
package world

import (
	"bytes"
	"errors"
	"math/big"
	"sort"

	vmcommon "github.com/ElrondNetwork/elrond-vm-common"
)

// ErrInjected is the error every injected dependency failure returns.
var ErrInjected = errors.New("verif: injected dependency failure")

// Faults counts dependency calls by kind and makes the k-th call of one kind fail.
// Kinds: read, write, load, save, marshal, unmarshal, payable, acctop, sysread.
type Faults struct {
	Counts   map[string]int
	FailKind string
	FailAt   int // 1-based index within FailKind; 0 = never
	Fired    bool
	Seq      []string // order of dependency calls (kinds), for enumeration
}

// NewFaults returns a counting, non-failing injector.
func NewFaults() *Faults { return &Faults{Counts: map[string]int{}} }

// Hit records one dependency call and reports whether it must fail.
func (f *Faults) Hit(kind string) bool {
	if f == nil {
		return false
	}
	f.Counts[kind]++
	f.Seq = append(f.Seq, kind)
	if f.FailAt > 0 && f.FailKind == kind && f.Counts[kind] == f.FailAt {
		f.Fired = true
		return true
	}
	return false
}

// Account implements vmcommon.UserAccountHandler with the semantics of the node's user account.
type Account struct {
	Addr      []byte
	Nonce     uint64
	Balance   *big.Int
	Storage   map[string][]byte
	Owner     []byte
	Username  []byte
	DevReward *big.Int
	CodeMeta  []byte
	sh        *Shard
	isSys     bool
}

// NewAccount returns an empty account.
func NewAccount(addr []byte, sh *Shard) *Account {
	return &Account{
		Addr:      append([]byte(nil), addr...),
		Balance:   big.NewInt(0),
		Storage:   map[string][]byte{},
		DevReward: big.NewInt(0),
		sh:        sh,
		isSys:     bytes.Equal(addr, vmcommon.SystemAccountAddress),
	}
}

// Clone deep-copies the account (bound to shard sh).
func (a *Account) Clone(sh *Shard) *Account {
	b := &Account{
		Addr:      append([]byte(nil), a.Addr...),
		Nonce:     a.Nonce,
		Balance:   new(big.Int).Set(a.Balance),
		Storage:   make(map[string][]byte, len(a.Storage)),
		Owner:     append([]byte(nil), a.Owner...),
		Username:  append([]byte(nil), a.Username...),
		DevReward: new(big.Int).Set(a.DevReward),
		CodeMeta:  append([]byte(nil), a.CodeMeta...),
		sh:        sh,
		isSys:     a.isSys,
	}
	for k, v := range a.Storage {
		b.Storage[k] = append([]byte(nil), v...)
	}
	return b
}

func (a *Account) faults() *Faults {
	if a.sh == nil {
		return nil
	}
	return a.sh.Faults
}

// SortedKeys returns the storage keys in byte order.
func (a *Account) SortedKeys() []string {
	ks := make([]string, 0, len(a.Storage))
	for k := range a.Storage {
		ks = append(ks, k)
	}
	sort.Strings(ks)
	return ks
}

// ---- AccountDataHandler

// RetrieveValue returns a copy of the stored value (nil when absent).
func (a *Account) RetrieveValue(key []byte) ([]byte, error) {
	kind := "read"
	if a.isSys {
		kind = "sysread"
	}
	if a.faults().Hit(kind) {
		return nil, ErrInjected
	}
	v, ok := a.Storage[string(key)]
	if !ok {
		return nil, nil
	}
	return append([]byte(nil), v...), nil
}

// SaveKeyValue stores a copy; an empty value removes the key.
func (a *Account) SaveKeyValue(key []byte, value []byte) error {
	if a.faults().Hit("write") {
		return ErrInjected
	}
	if a.sh != nil && a.sh.WriteLog != nil {
		a.sh.WriteLog(a.Addr, key, value)
	}
	if len(value) == 0 {
		delete(a.Storage, string(key))
		return nil
	}
	a.Storage[string(key)] = append([]byte(nil), value...)
	return nil
}

// AccountDataHandler returns the account itself.
func (a *Account) AccountDataHandler() vmcommon.AccountDataHandler { return a }

// ---- UserAccountHandler

func (a *Account) GetCodeMetadata() []byte { return a.CodeMeta }
func (a *Account) GetCodeHash() []byte     { return nil }
func (a *Account) GetRootHash() []byte     { return nil }
func (a *Account) GetBalance() *big.Int    { return new(big.Int).Set(a.Balance) }
func (a *Account) AddressBytes() []byte    { return a.Addr }
func (a *Account) IncreaseNonce(n uint64)  { a.Nonce += n }
func (a *Account) GetNonce() uint64        { return a.Nonce }
func (a *Account) IsInterfaceNil() bool    { return a == nil }
func (a *Account) GetOwnerAddress() []byte { return a.Owner }
func (a *Account) GetUserName() []byte     { return a.Username }
func (a *Account) SetOwnerAddress(o []byte) {
	a.Owner = append([]byte(nil), o...)
}
func (a *Account) SetUserName(u []byte) {
	a.Username = append([]byte(nil), u...)
}
func (a *Account) GetDeveloperReward() *big.Int { return new(big.Int).Set(a.DevReward) }

// AddToBalance refuses to go negative.
func (a *Account) AddToBalance(v *big.Int) error {
	if a.faults().Hit("acctop") {
		return ErrInjected
	}
	n := new(big.Int).Add(a.Balance, v)
	if n.Sign() < 0 {
		return errors.New("insufficient funds")
	}
	a.Balance = n
	return nil
}

// ClaimDeveloperRewards re-checks the owner, like the node's account.
func (a *Account) ClaimDeveloperRewards(sender []byte) (*big.Int, error) {
	if a.faults().Hit("acctop") {
		return nil, ErrInjected
	}
	if !bytes.Equal(sender, a.Owner) {
		return nil, errors.New("operation not permitted")
	}
	old := new(big.Int).Set(a.DevReward)
	a.DevReward = big.NewInt(0)
	return old, nil
}

// ChangeOwnerAddress re-checks the owner and the address length.
func (a *Account) ChangeOwnerAddress(sender []byte, newOwner []byte) error {
	if a.faults().Hit("acctop") {
		return ErrInjected
	}
	if !bytes.Equal(sender, a.Owner) {
		return errors.New("operation not permitted")
	}
	if len(newOwner) != len(a.Addr) {
		return errors.New("invalid address length")
	}
	a.Owner = append([]byte(nil), newOwner...)
	return nil
}
