package world

import (
	"bytes"
	"fmt"
	"math/big"
	"sort"

	vmcommon "github.com/ElrondNetwork/elrond-vm-common"
	"github.com/ElrondNetwork/elrond-vm-common/parsers"
)

// The harness's own copies of the protocol constants (a change to the repository's constants
// must not move the oracle).
var (
	ESDTSC  = []byte{0, 0, 0, 0, 0, 0, 0, 0, 0, 1, 0, 0, 0, 0, 0, 0, 0, 0, 0, 0, 0, 0, 0, 0, 0, 0, 0, 0, 0, 2, 255, 255}
	SysAddr = bytes.Repeat([]byte{255}, 32)
)

// AddrInfo describes one named address of the world.
type AddrInfo struct {
	Name  string
	Bytes []byte
	Kind  string // user | sc | esdtsc | sys | meta | junk
	Shard int    // home shard, -1 = metachain / none
	DNS   bool
}

// Msg is a cross-shard message in flight (or an output transfer that was only recorded).
type Msg struct {
	ID        int
	From, To  []byte
	Data      []byte
	Fn        string   // parsed with the real call-arguments parser ("" when unparsable/empty)
	Args      [][]byte // parsed arguments
	ParseErr  string
	Value     *big.Int
	Gas       uint64
	GasLocked uint64
	CT        vmcommon.CallType
	RAE       bool
	Dead      bool // a refund that failed: stays in the bag forever
	Tx        bool // the user's own transaction travelling to the destination shard
	SrcShard  int
}

// Clone copies a message.
func (m *Msg) Clone() *Msg {
	c := *m
	c.From = append([]byte(nil), m.From...)
	c.To = append([]byte(nil), m.To...)
	c.Data = append([]byte(nil), m.Data...)
	c.Args = cloneArgs(m.Args)
	if m.Value != nil {
		c.Value = new(big.Int).Set(m.Value)
	}
	return &c
}

func cloneArgs(a [][]byte) [][]byte {
	if a == nil {
		return nil
	}
	r := make([][]byte, len(a))
	for i := range a {
		r[i] = append([]byte{}, a[i]...)
	}
	return r
}

// Config fixes a world's shape.
type Config struct {
	WithMeta     bool // add the metachain as one more shard (index NShards): metachain addresses then have a home
	NShards      int
	Gas          map[string]map[string]uint64
	EnableChange bool
	ChangeBeforeCreate bool // the schedule reaches the factories as a change that arrives before their containers are created
	Activation   uint32
}

// World is the whole multi-shard ledger plus the in-flight bag.
type World struct {
	Cfg     Config
	Shards  []*Shard
	Addrs   []*AddrInfo
	byBytes map[string]*AddrInfo
	byName  map[string]*AddrInfo
	Msgs    []*Msg
	NextID  int
	Sched   map[string]map[string]uint64 // the schedule the harness believes is in force
	Epoch   int64                        // last confirmed epoch, -1 = none
}

// GasKeys lists the entries of a schedule section in the order of the library's structs.
func GasKeys(section string) []string {
	if section == "BuiltInCost" {
		return []string{"ChangeOwnerAddress", "ClaimDeveloperRewards", "SaveUserName", "SaveKeyValue", "ESDTTransfer", "ESDTBurn",
			"ESDTLocalMint", "ESDTLocalBurn", "ESDTNFTCreate", "ESDTNFTAddQuantity", "ESDTNFTBurn", "ESDTNFTTransfer",
			"ESDTNFTChangeCreateOwner", "ESDTNFTMultiTransfer", "ESDTNFTAddURI", "ESDTNFTUpdateAttributes"}
	}
	return []string{"StorePerByte", "ReleasePerByte", "DataCopyPerByte", "PersistPerByte", "CompilePerByte", "AoTPreparePerByte"}
}

// StdGas returns a schedule of small pairwise distinct primes.
func StdGas(variant int) map[string]map[string]uint64 {
	primes := []uint64{101, 103, 107, 109, 113, 127, 131, 137, 139, 149, 151, 157, 163, 167, 173, 179, 2, 3, 5, 7, 11, 13,
		181, 191, 193, 197, 199, 211, 223, 227, 229, 233, 239, 241, 251, 257, 263, 269, 17, 19, 23, 29, 31, 37}
	bi := []string{"ChangeOwnerAddress", "ClaimDeveloperRewards", "SaveUserName", "SaveKeyValue", "ESDTTransfer", "ESDTBurn",
		"ESDTLocalMint", "ESDTLocalBurn", "ESDTNFTCreate", "ESDTNFTAddQuantity", "ESDTNFTBurn", "ESDTNFTTransfer",
		"ESDTNFTChangeCreateOwner", "ESDTNFTMultiTransfer", "ESDTNFTAddURI", "ESDTNFTUpdateAttributes"}
	bo := []string{"StorePerByte", "ReleasePerByte", "DataCopyPerByte", "PersistPerByte", "CompilePerByte", "AoTPreparePerByte"}
	off := (variant % 2) * 22
	g := map[string]map[string]uint64{"BuiltInCost": {}, "BaseOperationCost": {}}
	for i, k := range bi {
		g["BuiltInCost"][k] = primes[off+i]
	}
	for i, k := range bo {
		g["BaseOperationCost"][k] = primes[off+16+i]
	}
	return g
}

// CloneGas deep-copies a schedule.
func CloneGas(g map[string]map[string]uint64) map[string]map[string]uint64 {
	r := map[string]map[string]uint64{}
	for k, m := range g {
		r[k] = map[string]uint64{}
		for k2, v := range m {
			r[k][k2] = v
		}
	}
	return r
}

func mkAddr(first byte, fill byte, contract bool, last byte) []byte {
	a := make([]byte, 32)
	for i := range a {
		a[i] = fill
	}
	a[0] = first
	if contract {
		for i := 0; i < 8; i++ {
			a[i] = 0
		}
		a[8], a[9] = 5, 0
		a[10] = first
	}
	a[31] = last
	return a
}

// StdAddrs builds the standard address table for n shards: per shard three users, two contracts and a
// DNS contract; plus the ESDT system contract, a metachain contract and two junk-length addresses.
func StdAddrs(n int) []*AddrInfo {
	var l []*AddrInfo
	for s := 0; s < n; s++ {
		for i, nm := range []string{"a", "b", "c"} {
			l = append(l, &AddrInfo{Name: fmt.Sprintf("u%d%s", s, nm), Bytes: mkAddr(byte(0x10+16*s+i), byte(0x21+i), false, byte(s)), Kind: "user", Shard: s})
		}
		for i, nm := range []string{"a", "b"} {
			l = append(l, &AddrInfo{Name: fmt.Sprintf("c%d%s", s, nm), Bytes: mkAddr(byte(0x80+16*s+i), byte(0x31+i), true, byte(s)), Kind: "sc", Shard: s})
		}
		l = append(l, &AddrInfo{Name: fmt.Sprintf("d%d", s), Bytes: mkAddr(byte(0xd0+s), 0x44, true, byte(s)), Kind: "sc", Shard: s, DNS: true})
	}
	l = append(l, &AddrInfo{Name: "sys", Bytes: append([]byte(nil), SysAddr...), Kind: "sys", Shard: -1})
	sysv := bytes.Repeat([]byte{255}, 32)
	sysv[31] = 1
	l = append(l, &AddrInfo{Name: "sysv", Bytes: sysv, Kind: "sys", Shard: -1})
	l = append(l, &AddrInfo{Name: "esdtsc", Bytes: append([]byte(nil), ESDTSC...), Kind: "esdtsc", Shard: -1})
	meta := make([]byte, 32)
	meta[8], meta[9] = 5, 0
	for i := 25; i < 31; i++ {
		meta[i] = 0x55
	}
	meta[31] = 0xff
	l = append(l, &AddrInfo{Name: "meta1", Bytes: meta, Kind: "meta", Shard: -1})
	l = append(l, &AddrInfo{Name: "short31", Bytes: mkAddr(0x71, 0x72, false, 0)[:31], Kind: "junk", Shard: int(ShardOf(mkAddr(0x71, 0x72, false, 0)[:31], uint32(n)))})
	long := append(mkAddr(0x73, 0x74, false, 0), 0)
	l = append(l, &AddrInfo{Name: "long33", Bytes: long, Kind: "junk", Shard: int(ShardOf(long, uint32(n)))})
	return l
}

// New builds a world.
func New(cfg Config, addrs []*AddrInfo) (*World, error) {
	w := &World{Cfg: cfg, Addrs: addrs, byBytes: map[string]*AddrInfo{}, byName: map[string]*AddrInfo{}, NextID: 1, Epoch: -1}
	dns := map[string]struct{}{}
	for _, a := range addrs {
		w.byBytes[string(a.Bytes)] = a
		w.byName[a.Name] = a
		if a.DNS {
			dns[string(a.Bytes)] = struct{}{}
		}
	}
	w.Sched = CloneGas(cfg.Gas)
	nsh := cfg.NShards
	if cfg.WithMeta {
		nsh++
	}
	for s := 0; s < nsh; s++ {
		sh := &Shard{ID: uint32(s), Idx: s, N: uint32(cfg.NShards), Accounts: map[string]*Account{}, Faults: nil, Oracle: &Oracle{Table: map[string]string{}}}
		if s == cfg.NShards {
			sh.ID = vmcommon.MetachainShardId
		}
		sh.ChangeBeforeCreate = cfg.ChangeBeforeCreate
		if err := sh.BuildContainer(CloneGas(cfg.Gas), dns, cfg.EnableChange, cfg.Activation); err != nil {
			return nil, err
		}
		w.Shards = append(w.Shards, sh)
	}
	return w, nil
}

// Clone deep-copies the world's data and builds fresh containers (a "fresh function instance").
func (w *World) Clone() (*World, error) {
	cfg := w.Cfg
	cfg.Gas = CloneGas(w.Sched)
	c, err := New(cfg, w.Addrs)
	if err != nil {
		return nil, err
	}
	for i, s := range w.Shards {
		c.Shards[i].Accounts = s.Snapshot()
		for k, a := range c.Shards[i].Accounts {
			a.sh = c.Shards[i]
			c.Shards[i].Accounts[k] = a
		}
		for k, v := range s.Oracle.Table {
			c.Shards[i].Oracle.Table[k] = v
		}
		if w.Epoch >= 0 {
			c.Shards[i].Notifier.Confirm(uint32(w.Epoch))
		}
	}
	c.Epoch = w.Epoch
	for _, m := range w.Msgs {
		c.Msgs = append(c.Msgs, m.Clone())
	}
	c.NextID = w.NextID
	return c, nil
}

// Addr returns the named address (panics on unknown names: harness bug).
func (w *World) Addr(name string) []byte {
	a, ok := w.byName[name]
	if !ok {
		panic("verif: unknown address name " + name)
	}
	return a.Bytes
}

// Info returns the table entry of a name, or nil.
func (w *World) Info(name string) *AddrInfo { return w.byName[name] }

// NameOf returns the table name of an address or "0x<hex>".
func (w *World) NameOf(b []byte) string {
	if a, ok := w.byBytes[string(b)]; ok {
		return a.Name
	}
	return fmt.Sprintf("0x%x", b)
}

// HomeShard returns the shard index an address lives on, or -1.
func (w *World) HomeShard(b []byte) int {
	s := ShardOf(b, uint32(w.Cfg.NShards))
	if s == vmcommon.MetachainShardId {
		if w.Cfg.WithMeta {
			return w.Cfg.NShards
		}
		return -1
	}
	return int(s)
}

// SetOracle sets the payability answer for an address on every shard.
func (w *World) SetOracle(addr []byte, v string) {
	for _, s := range w.Shards {
		if v == "yes" {
			delete(s.Oracle.Table, string(addr))
		} else {
			s.Oracle.Table[string(addr)] = v
		}
	}
}

// Reprice offers a schedule to every shard's factory and tracks what an honest factory would now hold.
func (w *World) Reprice(g map[string]map[string]uint64) {
	for _, s := range w.Shards {
		s.Factory.GasScheduleChange(CloneGas(g))
	}
}

// ConfirmEpoch notifies all subscribers on all shards.
func (w *World) ConfirmEpoch(e uint32) {
	for _, s := range w.Shards {
		s.Notifier.Confirm(e)
	}
	w.Epoch = int64(e)
}

// Call is one invocation of a built-in function as the node would make it.
type Call struct {
	Fn        string
	Caller    []byte
	Rcpt      []byte
	Args      [][]byte
	Gas       uint64
	GasLocked uint64
	CT        vmcommon.CallType
	RAE       bool
	Value     *big.Int
}

// Clone deep-copies a call.
func (c *Call) Clone() *Call {
	d := *c
	d.Caller = append([]byte(nil), c.Caller...)
	d.Rcpt = append([]byte(nil), c.Rcpt...)
	d.Args = cloneArgs(c.Args)
	if c.Value != nil {
		d.Value = new(big.Int).Set(c.Value)
	}
	return &d
}

// StepResult is what one execution produced.
type StepResult struct {
	Shard      int
	Res        string // ok | err | panic | shape
	Err        string
	Panic      string
	Out        *vmcommon.VMOutput
	SndPresent bool
	DstPresent bool
	Emitted    []*Msg // every output transfer (and the forwarded user transaction), in canonical order
	Queued     []int  // ids of the emitted messages that went in flight
	FnMissing  bool
	Input      *vmcommon.ContractCallInput
}

// BuildInput makes the ContractCallInput for a call.
func BuildInput(c *Call) *vmcommon.ContractCallInput {
	v := c.Value
	if v == nil {
		v = big.NewInt(0)
	}
	return &vmcommon.ContractCallInput{
		VMInput: vmcommon.VMInput{
			CallerAddr:           c.Caller,
			Arguments:            c.Args,
			CallValue:            v,
			CallType:             c.CT,
			GasProvided:          c.Gas,
			GasLocked:            c.GasLocked,
			ReturnCallAfterError: c.RAE,
		},
		RecipientAddr: c.Rcpt,
		Function:      c.Fn,
	}
}

// Invoke runs fn with panic capture and classifies the result shape.
func Invoke(fn vmcommon.BuiltinFunction, snd, dst vmcommon.UserAccountHandler, in *vmcommon.ContractCallInput) (res string, out *vmcommon.VMOutput, errs string, pan string) {
	defer func() {
		if r := recover(); r != nil {
			res, out, pan = "panic", nil, fmt.Sprint(r)
		}
	}()
	o, err := fn.ProcessBuiltinFunction(snd, dst, in)
	switch {
	case o != nil && err == nil && o.ReturnCode == vmcommon.Ok:
		return "ok", o, "", ""
	case o == nil && err != nil:
		return "err", nil, err.Error(), ""
	default:
		e := ""
		if err != nil {
			e = err.Error()
		}
		return "shape", o, e, ""
	}
}

// Accounts decides, like the node's blockchain hook, which account objects a call receives.
func (w *World) accounts(s *Shard, c *Call) (snd, dst *Account) {
	if w.HomeShard(c.Caller) == s.Idx {
		snd = s.get(c.Caller)
	}
	if w.HomeShard(c.Rcpt) == s.Idx && !bytes.Equal(c.Rcpt, SysAddr) {
		if snd != nil && bytes.Equal(c.Caller, c.Rcpt) {
			dst = snd
		} else {
			dst = s.get(c.Rcpt)
		}
	}
	return
}

func iface(a *Account) vmcommon.UserAccountHandler {
	if a == nil {
		return nil
	}
	return a
}

var callParser = parsers.NewCallArgsParser()

// Run executes one call on a shard under the protocol rules: rollback on error, commit and
// collect output transfers on success. It does not touch the in-flight bag except to add.
func (w *World) Run(shard int, c *Call) *StepResult {
	s := w.Shards[shard]
	r := &StepResult{Shard: shard}
	fn, err := s.Container.Get(c.Fn)
	if err != nil {
		r.Res, r.Err, r.FnMissing = "err", err.Error(), true
		return r
	}
	snap := s.Snapshot()
	snd, dst := w.accounts(s, c)
	r.SndPresent, r.DstPresent = snd != nil, dst != nil
	in := BuildInput(c)
	r.Input = in
	r.Res, r.Out, r.Err, r.Panic = Invoke(fn, iface(snd), iface(dst), in)
	if r.Res != "ok" {
		s.Restore(snap)
		return r
	}
	if snd != nil {
		s.put(snd)
	}
	if dst != nil && dst != snd {
		s.put(dst)
	}
	r.Emitted = w.collect(shard, c, r.Out)
	for _, m := range r.Emitted {
		if w.deliverable(shard, m) {
			m.ID = w.NextID
			w.NextID++
			w.Msgs = append(w.Msgs, m)
			r.Queued = append(r.Queued, m.ID)
		}
	}
	return r
}

// Probe executes a call and then undoes every effect (accounts of the shard, the in-flight bag, ids).
// With f != nil the dependency calls are counted / made to fail by f.
func (w *World) Probe(shard int, c *Call, f *Faults) *StepResult {
	return w.ProbeWith(shard, c.Clone(), f, nil)
}

// ProbeWith is Probe with a callback that sees the world before the effects are undone; it hands c itself to the function.
func (w *World) ProbeWith(shard int, c *Call, f *Faults, after func(r *StepResult)) *StepResult {
	s := w.Shards[shard]
	snap := s.Snapshot()
	msgs := w.Msgs
	w.Msgs = append([]*Msg(nil), msgs...)
	next := w.NextID
	oldF := s.Faults
	oldCalls := s.Oracle.Calls
	s.Faults = f
	r := w.Run(shard, c)
	if after != nil {
		after(r)
	}
	s.Faults = oldF
	s.Oracle.Calls = oldCalls
	s.Restore(snap)
	w.Msgs = msgs
	w.NextID = next
	return r
}

// IsTokenFn reports whether fn is one of the three transfer functions.
func IsTokenFn(fn string) bool {
	return fn == "ESDTTransfer" || fn == "ESDTNFTTransfer" || fn == "MultiESDTNFTTransfer"
}

func (w *World) deliverable(shard int, m *Msg) bool {
	if m.Fn == "" {
		return false
	}
	h := w.HomeShard(m.To)
	if h < 0 || h == shard {
		return false
	}
	if _, err := w.Shards[h].Container.Get(m.Fn); err != nil {
		return false
	}
	return true
}

// collect turns output transfers into messages; a user's own cross-shard transaction is forwarded as a message too.
func (w *World) collect(shard int, c *Call, out *vmcommon.VMOutput) []*Msg {
	var ms []*Msg
	keys := make([]string, 0, len(out.OutputAccounts))
	for k := range out.OutputAccounts {
		keys = append(keys, k)
	}
	sort.Strings(keys)
	for _, k := range keys {
		oa := out.OutputAccounts[k]
		if oa == nil {
			continue
		}
		for _, ot := range oa.OutputTransfers {
			m := &Msg{To: append([]byte(nil), oa.Address...), Data: append([]byte(nil), ot.Data...), Gas: ot.GasLimit, GasLocked: ot.GasLocked,
				CT: ot.CallType, SrcShard: shard, Value: big.NewInt(0)}
			if ot.Value != nil {
				m.Value = new(big.Int).Set(ot.Value)
			}
			if string(oa.Address) != k {
				m.ParseErr = "output account key differs from its address"
			}
			m.From = append([]byte(nil), ot.SenderAddress...)
			if len(ot.Data) > 0 {
				f, a, err := callParser.ParseData(string(ot.Data))
				if err != nil {
					m.ParseErr = err.Error()
				} else {
					m.Fn, m.Args = f, cloneArgs(a)
				}
			}
			if m.Fn == "ESDTNFTCreateRoleTransfer" {
				// protocol model: the hand-over message travels from the previous holder
				m.From = append([]byte(nil), c.Rcpt...)
			}
			ms = append(ms, m)
		}
	}
	// the user's own transaction continues on the destination shard
	if !IsContract(c.Caller) && w.HomeShard(c.Caller) == shard && w.HomeShard(c.Rcpt) >= 0 && w.HomeShard(c.Rcpt) != shard &&
		(c.Fn == "ESDTTransfer" || c.Fn == "ChangeOwnerAddress" || c.Fn == "ClaimDeveloperRewards") {
		m := &Msg{From: append([]byte(nil), c.Caller...), To: append([]byte(nil), c.Rcpt...), Fn: c.Fn, Args: cloneArgs(c.Args),
			Gas: out.GasRemaining, GasLocked: c.GasLocked, CT: c.CT, SrcShard: shard, Value: big.NewInt(0), Tx: true}
		ms = append(ms, m)
	}
	return ms
}

// FindMsg returns the in-flight message with the id, or nil.
func (w *World) FindMsg(id int) *Msg {
	for _, m := range w.Msgs {
		if m.ID == id {
			return m
		}
	}
	return nil
}

func (w *World) removeMsg(id int) {
	for i, m := range w.Msgs {
		if m.ID == id {
			w.Msgs = append(w.Msgs[:i:i], w.Msgs[i+1:]...)
			return
		}
	}
}

// DeliverCall builds the call a delivery of m makes.
func (w *World) DeliverCall(m *Msg) (int, *Call) {
	return w.HomeShard(m.To), &Call{Fn: m.Fn, Caller: m.From, Rcpt: m.To, Args: cloneArgs(m.Args), Gas: m.Gas, GasLocked: m.GasLocked, CT: m.CT, RAE: m.RAE, Value: big.NewInt(0)}
}

// Deliver executes an in-flight message on its destination shard. Success removes it; a failed
// token-bearing message turns into a return-after-error refund; a failed refund stays as dead;
// any other failed message is dropped. Duplicate = true leaves the message in the bag on success
// (at-least-once delivery).
func (w *World) Deliver(id int, duplicate bool) (*StepResult, *Call) {
	m := w.FindMsg(id)
	if m == nil || m.Dead {
		return nil, nil
	}
	sh, c := w.DeliverCall(m)
	r := w.Run(sh, c)
	switch {
	case r.Res == "ok":
		if !duplicate {
			w.removeMsg(id)
		}
	case IsTokenFn(m.Fn) && !m.RAE:
		m.From, m.To = m.To, m.From
		m.RAE = true
		m.Args = append(m.Args, []byte("verif: delivery failed"))
		m.Gas = 0
		if IsContract(m.To) {
			m.CT = vmcommon.AsynchronousCallBack
		} else {
			m.CT = vmcommon.DirectCall
		}
	case IsTokenFn(m.Fn):
		m.Dead = true
	default:
		w.removeMsg(id)
	}
	return r, c
}
