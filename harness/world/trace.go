package world

import (
	"bufio"
	"bytes"
	"encoding/json"
	"fmt"
	"math/big"
	"os"

	vmcommon "github.com/ElrondNetwork/elrond-vm-common"
	"github.com/ElrondNetwork/elrond-vm-common/parsers"
)

// AAddr is the trace's description of a named address.
type AAddr struct {
	Hex   string `json:"hex"`
	Kind  string `json:"kind"`
	Shard int    `json:"shard"`
	SC    bool   `json:"sc"`
	Meta  bool   `json:"meta"`
	Len   int    `json:"len"`
	DNS   bool   `json:"dns"`
}

// ACfg is the static part of a trace (first line / reset line).
type ACfg struct {
	NShards      int              `json:"nshards"`
	S1           bool             `json:"s1"`
	Scale        string           `json:"scale"`
	Addrs        map[string]AAddr `json:"addrs"`
	EnableChange bool             `json:"enableChange"`
	Activation   int64            `json:"activation"`
	Issued       []string         `json:"issued"`
	Dup          []string         `json:"dup"`
	Trace        int              `json:"trace"`
	Profile      string           `json:"profile"`
}

// APar is the ESDT-transfer parser's report for a call.
type APar struct {
	Ok       bool     `json:"ok"`
	Panic    bool     `json:"panic"`
	Rcv      string   `json:"rcv"`
	Items    []AParIt `json:"items"`
	CallFn   string   `json:"callfn"`
	CallArgs []string `json:"callargs"`
}

// AParIt is one reported token.
type AParIt struct {
	Tok   string `json:"tok"`
	Nonce int64  `json:"nonce"`
	Val   int64  `json:"val"`
	Type  int64  `json:"type"`
}

// AEvent is one trace event.
type AEvent struct {
	A      string   `json:"a"` // init | exec | deliver | sched | oracle | epoch
	Sh     int      `json:"sh"`
	Fn     string   `json:"fn"`
	Caller string   `json:"caller"`
	Rcpt   string   `json:"rcpt"`
	Args   []AArg   `json:"args"`
	Gas    int64    `json:"gas"`
	GL     int64    `json:"gl"`
	CT     int      `json:"ct"`
	RAE    bool     `json:"rae"`
	CV     int64    `json:"cv"`
	Snd    bool     `json:"snd"`
	Dst    bool     `json:"dst"`
	Mid    int      `json:"mid"`
	Dup    bool     `json:"dup"`
	Res    string   `json:"res"`
	GR     int64    `json:"gr"`
	Fwd    int64    `json:"fwd"`
	Out    []AMsg   `json:"out"`
	Ret    []string `json:"ret"`
	RetN   int64    `json:"retn"`
	NLogs  int      `json:"nlogs"`
	Logs   []ALog   `json:"logs"`
	Err    string   `json:"err"`
	PL     []int64  `json:"pl"`
	Par    APar     `json:"par"`
	Key    string   `json:"key"`   // oracle/sched events: what changed
	Val    string   `json:"val"`   // oracle events: new answer
	SchOK  bool     `json:"schok"` // sched events: whether the offered schedule is complete and non-zero
	GasCls string   `json:"gascls"`
	X      map[string]interface{} `json:"x"`
}

// ALog is a projected log entry: identifier, address (account name) and topics projected like arguments.
type ALog struct {
	ID     string `json:"id"`
	Addr   string `json:"addr"`
	Topics []AArg `json:"topics"`
	Data   string `json:"data"`
}

// ALine is one ndjson line.
type ALine struct {
	L   int     `json:"l"`
	Ev  AEvent  `json:"ev"`
	Cfg *ACfg   `json:"cfg,omitempty"`
	W   *AWorld `json:"w"`
}

// Tracer writes ndjson trace lines and keeps the concrete replay information next to them.
type Tracer struct {
	f      *os.File
	bw     *bufio.Writer
	rf     *os.File
	rbw    *bufio.Writer
	Lines  int
	Traces int
	Stats  map[string]int
}

// NewTracer opens path (abstract trace) and path+".replay" (concrete inputs per line).
func NewTracer(path string) (*Tracer, error) {
	f, err := os.Create(path)
	if err != nil {
		return nil, err
	}
	rf, err := os.Create(path + ".replay")
	if err != nil {
		return nil, err
	}
	return &Tracer{f: f, bw: bufio.NewWriterSize(f, 1<<20), rf: rf, rbw: bufio.NewWriterSize(rf, 1<<20), Stats: map[string]int{}}, nil
}

// Close flushes.
func (t *Tracer) Close() error {
	t.bw.Flush()
	t.rbw.Flush()
	t.rf.Close()
	return t.f.Close()
}

// Write emits one line; concrete is any JSON-able description of the concrete inputs of the step.
func (t *Tracer) Write(l *ALine, concrete interface{}) error {
	t.Lines++
	l.L = t.Lines
	if l.Ev.Args == nil {
		l.Ev.Args = []AArg{}
	}
	if l.Ev.Out == nil {
		l.Ev.Out = []AMsg{}
	}
	if l.Ev.Ret == nil {
		l.Ev.Ret = []string{}
	}
	if l.Ev.Logs == nil {
		l.Ev.Logs = []ALog{}
	}
	if l.Ev.PL == nil {
		l.Ev.PL = []int64{}
	}
	if l.Ev.Par.Items == nil {
		l.Ev.Par.Items = []AParIt{}
	}
	if l.Ev.Par.CallArgs == nil {
		l.Ev.Par.CallArgs = []string{}
	}
	if l.Ev.X == nil {
		l.Ev.X = map[string]interface{}{}
	}
	b, err := json.Marshal(l)
	if err != nil {
		return err
	}
	t.bw.Write(b)
	t.bw.WriteByte('\n')
	cb, err := json.Marshal(map[string]interface{}{"l": t.Lines, "c": concrete})
	if err != nil {
		return err
	}
	t.rbw.Write(cb)
	t.rbw.WriteByte('\n')
	t.Stats[l.Ev.A+"/"+l.Ev.Fn+"/"+l.Ev.Res]++
	return nil
}

// CfgOf describes the world's static configuration.
func (p *Proj) CfgOf(issued [][]byte, trace int, profile string) *ACfg {
	w := p.W
	c := &ACfg{NShards: w.Cfg.NShards, S1: p.Scale.Cmp(big.NewInt(1)) == 0, Scale: p.Scale.String(), Addrs: map[string]AAddr{}, EnableChange: w.Cfg.EnableChange,
		Activation: int64(w.Cfg.Activation), Issued: []string{}, Dup: []string{}, Trace: trace, Profile: profile}
	for _, a := range w.Addrs {
		c.Addrs[a.Name] = AAddr{Hex: hx(a.Bytes), Kind: a.Kind, Shard: w.HomeShard(a.Bytes), SC: IsContract(a.Bytes), Meta: IsMetaAddress(a.Bytes), Len: len(a.Bytes), DNS: a.DNS}
	}
	for _, t := range issued {
		c.Issued = append(c.Issued, hx(t))
	}
	return c
}

var transferParser, _ = parsers.NewESDTTransferParser(&Marshalizer{})

// ParserReport runs the real ESDT-transfer parser on a call.
func (p *Proj) ParserReport(c *Call) (r APar) {
	r = APar{Items: []AParIt{}, CallArgs: []string{}}
	defer func() {
		if x := recover(); x != nil {
			r = APar{Panic: true, Items: []AParIt{}, CallArgs: []string{}}
		}
	}()
	res, err := transferParser.ParseESDTTransfers(c.Caller, c.Rcpt, c.Fn, c.Args)
	if err != nil || res == nil {
		return r
	}
	r.Ok = true
	r.Rcv = p.W.NameOf(res.RcvAddr)
	for _, t := range res.ESDTTransfers {
		r.Items = append(r.Items, AParIt{Tok: hx(t.ESDTTokenName), Nonce: NU(t.ESDTTokenNonce), Val: p.Q(t.ESDTValue), Type: int64(t.ESDTTokenType)})
	}
	r.CallFn = hx([]byte(res.CallFunction))
	r.CallArgs = hxs(res.CallArgs)
	return r
}

// GasProj projects a gas figure; anything >= 2^30 becomes Huge(=2^30), larger than every legal charge.
func GasProj(g uint64) int64 {
	if g >= lim {
		return lim
	}
	return int64(g)
}

// EventOf describes a call and its result.
func (p *Proj) EventOf(kind string, shard int, c *Call, r *StepResult, mid int, dup bool) AEvent {
	destSide := !bytes.Equal(c.Caller, c.Rcpt)
	ev := AEvent{A: kind, Sh: shard, Fn: c.Fn, Caller: p.W.NameOf(c.Caller), Rcpt: p.W.NameOf(c.Rcpt), Args: p.Args(c.Fn, c.Args, destSide),
		Gas: GasProj(c.Gas), GL: GasProj(c.GasLocked), CT: int(c.CT), RAE: c.RAE, Mid: mid, Dup: dup, Res: r.Res, Err: r.Err + r.Panic,
		Snd: r.SndPresent, Dst: r.DstPresent}
	if c.Value != nil {
		ev.CV = p.Q(c.Value)
	}
	if c.Gas == ^uint64(0) {
		ev.GasCls = "max"
	} else if c.Gas >= lim {
		ev.GasCls = "huge"
	}
	if r.Out != nil {
		ev.GR = GasProj(r.Out.GasRemaining)
		fwd := new(big.Int)
		for _, oa := range r.Out.OutputAccounts {
			if oa == nil {
				continue
			}
			for _, ot := range oa.OutputTransfers {
				fwd.Add(fwd, new(big.Int).SetUint64(ot.GasLimit))
			}
		}
		if fwd.Cmp(big.NewInt(lim)) >= 0 {
			ev.Fwd = lim
		} else {
			ev.Fwd = fwd.Int64()
		}
		if ev.GasCls != "" {
			// huge provided gas: report consumption instead (provided - remaining - forwarded) when it is small
			cons := new(big.Int).SetUint64(c.Gas)
			cons.Sub(cons, new(big.Int).SetUint64(r.Out.GasRemaining))
			cons.Sub(cons, fwd)
			ev.X = map[string]interface{}{"consumed": clampBig(cons)}
		}
		ev.Ret = hxs(r.Out.ReturnData)
		if len(r.Out.ReturnData) > 0 {
			ev.RetN = N(r.Out.ReturnData[0])
		}
		ev.NLogs = len(r.Out.Logs)
		for _, l := range r.Out.Logs {
			if l == nil {
				ev.Logs = append(ev.Logs, ALog{ID: "<nil>", Topics: []AArg{}})
				continue
			}
			al := ALog{ID: string(l.Identifier), Addr: p.W.NameOf(l.Address), Topics: p.Args("", l.Topics, false), Data: hx(l.Data)}
			if al.ID == "ESDTNFTCreate" && len(al.Topics) >= 3 {
				// the third topic is the marshalled entry that was stored: shown decoded
				if e, ok := DecodeEntry(l.Topics[2]); ok {
					ae := p.Entry(e)
					al.Topics[2].HE, al.Topics[2].E, al.Topics[2].H = true, &ae, ""
				}
			}
			ev.Logs = append(ev.Logs, al)
		}
	}
	for _, m := range r.Emitted {
		ev.Out = append(ev.Out, p.Msg(m))
	}
	if IsTokenFn(c.Fn) {
		ev.Par = p.ParserReport(c)
	}
	return ev
}

func clampBig(v *big.Int) int64 {
	if v.Sign() < 0 {
		return -1
	}
	if v.Cmp(big.NewInt(lim)) >= 0 {
		return lim
	}
	return v.Int64()
}

// Describe gives the concrete form of a call for replay files.
func Describe(kind string, shard int, c *Call, mid int) map[string]interface{} {
	args := make([]string, len(c.Args))
	for i, a := range c.Args {
		args[i] = hx(a)
	}
	v := "0"
	if c.Value != nil {
		v = c.Value.String()
	}
	return map[string]interface{}{"kind": kind, "shard": shard, "fn": c.Fn, "caller": hx(c.Caller), "rcpt": hx(c.Rcpt), "args": args,
		"gas": fmt.Sprint(c.Gas), "gasLocked": fmt.Sprint(c.GasLocked), "ct": int(c.CT), "rae": c.RAE, "value": v, "mid": mid, "dup": false}
}

var _ = vmcommon.Ok
