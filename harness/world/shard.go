package world

import (
	"bytes"
	"errors"
	"fmt"

	vmcommon "github.com/ElrondNetwork/elrond-vm-common"
	"github.com/ElrondNetwork/elrond-vm-common/builtInFunctions"
)

// ---- marshalizer: the production encoding (generated gogo-proto code), Reset before Unmarshal
// exactly like the node's GogoProtoMarshalizer.

type protoObj interface {
	Marshal() ([]byte, error)
	Unmarshal([]byte) error
	Reset()
}

// Marshalizer adapts the generated protobuf code to vmcommon.Marshalizer.
type Marshalizer struct{ F **Faults }

func (m *Marshalizer) f() *Faults {
	if m == nil || m.F == nil {
		return nil
	}
	return *m.F
}

// Marshal encodes obj with its generated Marshal method.
func (m *Marshalizer) Marshal(obj interface{}) ([]byte, error) {
	if m.f().Hit("marshal") {
		return nil, ErrInjected
	}
	p, ok := obj.(protoObj)
	if !ok {
		return nil, fmt.Errorf("verif: %T is not a gogo-proto object", obj)
	}
	return p.Marshal()
}

// Unmarshal resets obj and decodes buff with the generated Unmarshal method.
func (m *Marshalizer) Unmarshal(obj interface{}, buff []byte) error {
	if m.f().Hit("unmarshal") {
		return ErrInjected
	}
	p, ok := obj.(protoObj)
	if !ok {
		return fmt.Errorf("verif: %T is not a gogo-proto object", obj)
	}
	p.Reset()
	return p.Unmarshal(buff)
}

// IsInterfaceNil -
func (m *Marshalizer) IsInterfaceNil() bool { return m == nil }

// ---- payability oracle

// Oracle answers IsPayable from a table: "yes", "no", "err"; unknown addresses are payable.
type Oracle struct {
	Table map[string]string
	F     **Faults
	Calls int
}

// IsPayable -
func (o *Oracle) IsPayable(addr []byte) (bool, error) {
	o.Calls++
	if o.F != nil && (*o.F).Hit("payable") {
		return false, ErrInjected
	}
	switch o.Table[string(addr)] {
	case "no":
		return false, nil
	case "err":
		return false, errors.New("verif: payable oracle error")
	}
	return true, nil
}

// IsInterfaceNil -
func (o *Oracle) IsInterfaceNil() bool { return o == nil }

// ---- epoch notifier

// Notifier records the subscribers the factory registers.
type Notifier struct {
	Subs  []vmcommon.EpochSubscriberHandler
	Start *uint32 // when set: every new subscriber is told this epoch at once, as a node's notifier tells the current epoch on registration
	n     uint64
}

// RegisterNotifyHandler -
func (n *Notifier) RegisterNotifyHandler(h vmcommon.EpochSubscriberHandler) {
	n.Subs = append(n.Subs, h)
	if n.Start != nil {
		h.EpochConfirmed(*n.Start, 0)
	}
}

// IsInterfaceNil -
func (n *Notifier) IsInterfaceNil() bool { return n == nil }

// Confirm notifies every subscriber; the timestamps of successive notifications shrink (a later notification may well be
// about an older header: activation follows the notification order, not the timestamps).
func (n *Notifier) Confirm(epoch uint32) {
	n.n++
	n.ConfirmAt(epoch, 1<<40-n.n)
}

// ConfirmAt notifies every subscriber with the given timestamp.
func (n *Notifier) ConfirmAt(epoch uint32, ts uint64) {
	for _, s := range n.Subs {
		s.EpochConfirmed(epoch, ts)
	}
}

// ---- shard: accounts adapter + coordinator + container

// GasScheduler is what the factory offers for repricing.
type GasScheduler interface {
	GasScheduleChange(map[string]map[string]uint64)
}

// Shard is one shard of the world.
type Shard struct {
	ChangeBeforeCreate bool // set before BuildContainer: the schedule in force reaches the factory as a CHANGE, before the container is created
	StartEpoch *uint32 // set before BuildContainer: the notifier confirms this epoch to every subscriber at registration
	Idx       int // index in World.Shards (the metachain shard, when present, is the last one)
	ID        uint32
	N         uint32
	Accounts  map[string]*Account
	Faults    *Faults
	Oracle    *Oracle
	Notifier  *Notifier
	Marsh     *Marshalizer
	Container vmcommon.BuiltInFunctionContainer
	Factory   GasScheduler
	WriteLog  func(addr, key, val []byte)
	Loads     int
	Saves     int
}

// ShardOf is the harness's own address → shard rule: the ESDT system contract and every
// address shaped like a metachain contract live on the metachain; otherwise the last byte
// modulo the shard count decides.
func ShardOf(addr []byte, n uint32) uint32 {
	if IsMetaAddress(addr) {
		return vmcommon.MetachainShardId
	}
	if len(addr) == 0 || n == 0 {
		return 0
	}
	return uint32(addr[len(addr)-1]) % n
}

// IsMetaAddress: 32 bytes, eight leading zeros, bytes 10..24 zero, last byte 0xff.
func IsMetaAddress(addr []byte) bool {
	if len(addr) != 32 {
		return false
	}
	for i := 0; i < 8; i++ {
		if addr[i] != 0 {
			return false
		}
	}
	for i := 10; i < 25; i++ {
		if addr[i] != 0 {
			return false
		}
	}
	return addr[31] == 0xff
}

// IsContract is the harness's own "is a smart contract address" rule (> 10 bytes, eight leading zeros).
func IsContract(addr []byte) bool {
	if len(addr) <= 10 {
		return false
	}
	for i := 0; i < 8; i++ {
		if addr[i] != 0 {
			return false
		}
	}
	return true
}

// Coordinator
func (s *Shard) NumberOfShards() uint32           { return s.N }
func (s *Shard) ComputeId(a []byte) uint32        { return ShardOf(a, s.N) }
func (s *Shard) SelfId() uint32                   { return s.ID }
func (s *Shard) SameShard(a, b []byte) bool       { return ShardOf(a, s.N) == ShardOf(b, s.N) }
func (s *Shard) CommunicationIdentifier(d uint32) string { return fmt.Sprintf("%d_%d", s.ID, d) }
func (s *Shard) IsInterfaceNil() bool             { return s == nil }

// AccountsAdapter: LoadAccount hands out a private copy; only SaveAccount makes changes visible.
func (s *Shard) LoadAccount(addr []byte) (vmcommon.AccountHandler, error) {
	s.Loads++
	kind := "load"
	if bytes.Equal(addr, SysAddr) {
		kind = "sysload"
	}
	if s.Faults.Hit(kind) {
		return nil, ErrInjected
	}
	if a, ok := s.Accounts[string(addr)]; ok {
		return a.Clone(s), nil
	}
	return NewAccount(addr, s), nil
}

func (s *Shard) GetExistingAccount(addr []byte) (vmcommon.AccountHandler, error) {
	if s.Faults.Hit("load") {
		return nil, ErrInjected
	}
	if a, ok := s.Accounts[string(addr)]; ok {
		return a.Clone(s), nil
	}
	return nil, errors.New("account not found")
}

func (s *Shard) SaveAccount(acc vmcommon.AccountHandler) error {
	s.Saves++
	if s.Faults.Hit("save") {
		return ErrInjected
	}
	a, ok := acc.(*Account)
	if !ok || a == nil {
		return errors.New("verif: foreign account type")
	}
	s.Accounts[string(a.Addr)] = a.Clone(s)
	return nil
}

func (s *Shard) RemoveAccount(addr []byte) error {
	delete(s.Accounts, string(addr))
	return nil
}
func (s *Shard) Commit() ([]byte, error)            { return nil, nil }
func (s *Shard) JournalLen() int                    { return 0 }
func (s *Shard) RevertToSnapshot(int) error         { return nil }
func (s *Shard) GetNumCheckpoints() uint32          { return 0 }
func (s *Shard) GetCode([]byte) []byte              { return nil }
func (s *Shard) RootHash() ([]byte, error)          { return nil, nil }
func (s *Shard) RecreateTrie([]byte) error          { return nil }

// Snapshot deep-copies the account table.
func (s *Shard) Snapshot() map[string]*Account {
	m := make(map[string]*Account, len(s.Accounts))
	for k, a := range s.Accounts {
		m[k] = a.Clone(s)
	}
	return m
}

// Restore puts a snapshot back.
func (s *Shard) Restore(m map[string]*Account) { s.Accounts = m }

// get returns a private copy of the account (created empty when absent) without counting as a dependency call.
func (s *Shard) get(addr []byte) *Account {
	if a, ok := s.Accounts[string(addr)]; ok {
		return a.Clone(s)
	}
	return NewAccount(addr, s)
}

// Peek returns the stored account or nil (no copy; read-only use).
func (s *Shard) Peek(addr []byte) *Account { return s.Accounts[string(addr)] }

// put stores the account.
func (s *Shard) put(a *Account) { s.Accounts[string(a.Addr)] = a.Clone(s) }

// BuildContainer creates the factory-built container of this shard.
func (s *Shard) BuildContainer(gas map[string]map[string]uint64, dns map[string]struct{}, enableChange bool, activation uint32) error {
	s.Notifier = &Notifier{Start: s.StartEpoch}
	s.Marsh = &Marshalizer{F: &s.Faults}
	construct := gas
	if s.ChangeBeforeCreate {
		// the factory is constructed under ANOTHER schedule (every price one higher) and told the schedule in force before the container
		// exists: the functions it then creates must be priced by the schedule in force
		construct = CloneGas(gas)
		for _, sec := range construct {
			for k := range sec {
				sec[k]++
			}
		}
	}
	f, err := builtInFunctions.NewBuiltInFunctionsFactory(builtInFunctions.ArgsCreateBuiltInFunctionContainer{
		GasMap:                              construct,
		MapDNSAddresses:                     dns,
		EnableUserNameChange:                enableChange,
		Marshalizer:                         s.Marsh,
		Accounts:                            s,
		ShardCoordinator:                    s,
		EpochNotifier:                       s.Notifier,
		ESDTNFTImprovementV1ActivationEpoch: activation,
	})
	if err != nil {
		return err
	}
	if s.ChangeBeforeCreate {
		f.GasScheduleChange(CloneGas(gas))
	}
	c, err := f.CreateBuiltInFunctionContainer()
	if err != nil {
		return err
	}
	s.Factory = f
	s.Container = c
	s.Oracle.F = &s.Faults
	return builtInFunctions.SetPayableHandler(c, s.Oracle)
}

// HasAddr reports whether the shard's table holds the address.
func (s *Shard) HasAddr(addr []byte) bool { _, ok := s.Accounts[string(addr)]; return ok }

var _ = bytes.Equal
