package world

import (
	"bytes"
	"encoding/hex"
	"fmt"
	"math/big"
	"sort"

	"github.com/ElrondNetwork/elrond-vm-common/data/esdt"
)

// Abstract (projected) forms. They are what the trace lines contain and what the TLA+
// specification reads; every map is keyed by strings so that a JSON object is a TLA+ record.

const (
	// Bad marks an amount that is not an exact, in-range multiple of the trace's scale.
	Bad = -(1 << 24) // small enough that TLC's 32-bit sums over all accounts and messages cannot overflow
	// Huge marks a number >= 2^30 that still fits 64 bits; Wide one that needs more than 8 bytes.
	Huge = -1
	Wide = -2
	lim  = 1 << 30
	qlim = 1 << 24 // amounts (quotients by the scale) stay below this, so that sums of them stay far below 2^31
)

var (
	pfxProt  = []byte("ELROND")
	pfxEsdt  = []byte("ELRONDesdt")
	pfxRole  = []byte("ELRONDroleesdt")
	pfxNonce = []byte("ELRONDnonce")
)

// AMeta is projected NFT metadata.
type AMeta struct {
	Nonce   int64    `json:"nonce"`
	Name    string   `json:"name"`
	Creator string   `json:"creator"`
	Roy     int64    `json:"roy"`
	Hash    string   `json:"hash"`
	Attrs   string   `json:"attrs"`
	URIs    []string `json:"uris"`
}

// AEntry is a projected token entry.
type AEntry struct {
	Type  int64  `json:"type"`
	Val   int64  `json:"val"`
	Props string `json:"props"`
	HM    bool   `json:"hm"`
	Meta  AMeta  `json:"meta"`
	Res   string `json:"res"`
}

// AAcct is a projected account.
type AAcct struct {
	Esdt  map[string]AEntry   `json:"esdt"`
	Roles map[string][]string `json:"roles"`
	Ctr   map[string]int64    `json:"ctr"`
	KV    map[string]string   `json:"kv"`
	Bad   map[string]string   `json:"bad"`
	Owner string              `json:"owner"`
	Uname string              `json:"uname"`
	Dev   int64               `json:"dev"`
	Egld  int64               `json:"egld"`
}

// AArg is a projected argument.
type AArg struct {
	H  string  `json:"h"`
	N  int64   `json:"n"`
	Q  int64   `json:"q"`
	HE bool    `json:"he"`
	E  *AEntry `json:"e,omitempty"`
	Ad string  `json:"ad"`
}

// AMsg is a projected message.
type AMsg struct {
	ID   int    `json:"id"`
	Fn   string `json:"fn"`
	From string `json:"from"`
	To   string `json:"to"`
	Args []AArg `json:"args"`
	Val  int64  `json:"val"`
	Gas  int64  `json:"gas"`
	GL   int64  `json:"gl"`
	CT   int    `json:"ct"`
	RAE  bool   `json:"rae"`
	Dead bool   `json:"dead"`
	Tx   bool   `json:"tx"`
	Perr bool   `json:"perr"`
}

// AWorld is the projected world.
type AWorld struct {
	Acct   map[string]AAcct             `json:"acct"`
	Paused map[string]map[string]string `json:"paused"`
	Sysx   map[string]map[string]string `json:"sysx"`
	Msgs   []AMsg                       `json:"msgs"`
	NextID int                          `json:"nextId"`
	Sched  map[string]int64             `json:"sched"`
	Oracle map[string]string            `json:"oracle"`
	Epoch  int64                        `json:"epoch"`
}

// Proj carries what the projection needs besides the world.
type Proj struct {
	W     *World
	Scale *big.Int
}

// Q projects an amount: exact quotient by the scale, or Bad.
func (p *Proj) Q(v *big.Int) int64 {
	if v == nil {
		return Bad
	}
	q, r := new(big.Int).QuoRem(v, p.Scale, new(big.Int))
	if r.Sign() != 0 || q.CmpAbs(big.NewInt(qlim)) >= 0 {
		if v.Sign() < 0 {
			return Bad + 1 // not representable AND negative (the sign is never lost)
		}
		return Bad
	}
	return q.Int64()
}

// N projects a big-endian number taken from argument bytes.
func N(b []byte) int64 {
	t := bytes.TrimLeft(b, "\x00")
	if len(t) > 8 {
		return Wide
	}
	v := new(big.Int).SetBytes(t)
	if v.Cmp(big.NewInt(lim)) >= 0 {
		return Huge
	}
	return v.Int64()
}

// NU projects an unsigned 64-bit number.
func NU(u uint64) int64 {
	if u >= lim {
		return Huge
	}
	return int64(u)
}

func hx(b []byte) string { return hex.EncodeToString(b) }

func hxs(l [][]byte) []string {
	r := make([]string, len(l))
	for i := range l {
		r[i] = hx(l[i])
	}
	return r
}

func roleName(b []byte) string {
	for _, c := range b {
		if c < 0x21 || c > 0x7e {
			return "0x" + hx(b)
		}
	}
	if len(b) == 0 {
		return "0x"
	}
	return string(b)
}

// Entry projects a decoded token entry.
func (p *Proj) Entry(e *esdt.ESDigitalToken) AEntry {
	a := AEntry{Type: int64(e.Type), Val: p.Q(e.Value), Props: hx(e.Properties), Res: hx(e.Reserved), Meta: AMeta{URIs: []string{}}}
	if e.TokenMetaData != nil {
		m := e.TokenMetaData
		a.HM = true
		a.Meta = AMeta{Nonce: NU(m.Nonce), Name: hx(m.Name), Creator: p.W.NameOf(m.Creator), Roy: int64(m.Royalties), Hash: hx(m.Hash), Attrs: hx(m.Attributes), URIs: hxs(m.URIs)}
		if len(m.Creator) == 0 {
			a.Meta.Creator = ""
		}
	}
	return a
}

// DecodeEntry decodes with the generated decoder (as a projection device; C14 checks it independently).
func DecodeEntry(b []byte) (e *esdt.ESDigitalToken, ok bool) {
	defer func() {
		if r := recover(); r != nil {
			e, ok = nil, false
		}
	}()
	e = &esdt.ESDigitalToken{}
	if err := e.Unmarshal(b); err != nil {
		return nil, false
	}
	return e, true
}

func decodeRoles(b []byte) (r *esdt.ESDTRoles, ok bool) {
	defer func() {
		if x := recover(); x != nil {
			r, ok = nil, false
		}
	}()
	r = &esdt.ESDTRoles{}
	if err := r.Unmarshal(b); err != nil {
		return nil, false
	}
	return r, true
}

func newAAcct() AAcct {
	return AAcct{Esdt: map[string]AEntry{}, Roles: map[string][]string{}, Ctr: map[string]int64{}, KV: map[string]string{}, Bad: map[string]string{}}
}

// Acct projects one account.
func (p *Proj) Acct(a *Account) AAcct {
	r := newAAcct()
	if a == nil {
		return r
	}
	for _, k := range a.SortedKeys() {
		v := a.Storage[k]
		kb := []byte(k)
		switch {
		case bytes.HasPrefix(kb, pfxEsdt):
			if e, ok := DecodeEntry(v); ok {
				r.Esdt[hx(kb[len(pfxEsdt):])] = p.Entry(e)
			} else {
				r.Bad[hx(kb)] = hx(v)
			}
		case bytes.HasPrefix(kb, pfxRole):
			if rl, ok := decodeRoles(v); ok {
				l := make([]string, len(rl.Roles))
				for i, x := range rl.Roles {
					l[i] = hx(x)
				}
				r.Roles[hx(kb[len(pfxRole):])] = l
			} else {
				r.Bad[hx(kb)] = hx(v)
			}
		case bytes.HasPrefix(kb, pfxNonce):
			r.Ctr[hx(kb[len(pfxNonce):])] = N(v)
		case bytes.HasPrefix(kb, pfxProt):
			r.Bad[hx(kb)] = hx(v)
		default:
			r.KV[hx(kb)] = hx(v)
		}
	}
	if len(a.Owner) > 0 {
		r.Owner = p.W.NameOf(a.Owner)
	}
	r.Uname = hx(a.Username)
	r.Dev = p.Q(a.DevReward)
	r.Egld = p.Q(a.Balance)
	return r
}

// payloadPositions returns, for a destination-side argument list of fn, the argument indices that hold a marshalled token.
func payloadPositions(fn string, args [][]byte, destSide bool) map[int]bool {
	pos := map[int]bool{}
	if !destSide {
		return pos
	}
	switch fn {
	case "ESDTNFTTransfer":
		if len(args) >= 4 {
			pos[3] = true
		}
	case "MultiESDTNFTTransfer":
		if len(args) >= 1 {
			k := N(args[0])
			for i := int64(0); k > 0 && i < k && int(3*i+3) < len(args); i++ {
				if N(args[3*i+2]) != 0 {
					pos[int(3*i+3)] = true
				}
			}
		}
	}
	return pos
}

// Args projects an argument list. destSide selects the destination-side layout (payload arguments are decoded).
func (p *Proj) Args(fn string, args [][]byte, destSide bool) []AArg {
	pos := payloadPositions(fn, args, destSide)
	r := make([]AArg, len(args))
	for i, a := range args {
		x := AArg{H: hx(a), N: N(a), Q: p.Q(new(big.Int).SetBytes(a))}
		if ai, ok := p.W.byBytes[string(a)]; ok {
			x.Ad = ai.Name
		}
		if pos[i] {
			if e, ok := DecodeEntry(a); ok {
				ae := p.Entry(e)
				x.HE, x.E, x.H = true, &ae, ""
			}
		}
		r[i] = x
	}
	return r
}

// Msg projects a message.
func (p *Proj) Msg(m *Msg) AMsg {
	destSide := !bytes.Equal(m.From, m.To)
	a := AMsg{ID: m.ID, Fn: FnName(m.Fn), From: p.W.NameOf(m.From), To: p.W.NameOf(m.To), Args: p.Args(m.Fn, m.Args, destSide), Val: p.Q(m.Value),
		Gas: GasProj(m.Gas), GL: GasProj(m.GasLocked), CT: int(m.CT), RAE: m.RAE, Dead: m.Dead, Tx: m.Tx, Perr: m.ParseErr != ""}
	return a
}

var builtinNames = map[string]bool{"ClaimDeveloperRewards": true, "ChangeOwnerAddress": true, "SetUserName": true, "SaveKeyValue": true, "ESDTTransfer": true,
	"ESDTBurn": true, "ESDTFreeze": true, "ESDTUnFreeze": true, "ESDTWipe": true, "ESDTPause": true, "ESDTUnPause": true, "ESDTSetRole": true, "ESDTUnSetRole": true,
	"ESDTLocalBurn": true, "ESDTLocalMint": true, "ESDTNFTAddQuantity": true, "ESDTNFTBurn": true, "ESDTNFTCreate": true, "ESDTNFTTransfer": true,
	"ESDTNFTCreateRoleTransfer": true, "ESDTNFTUpdateAttributes": true, "ESDTNFTAddURI": true, "MultiESDTNFTTransfer": true}

// FnName is how a message's function appears in the trace: protocol names as text, anything else as 0x<hex>.
func FnName(fn string) string {
	if fn == "" || builtinNames[fn] {
		return fn
	}
	return "0x" + hx([]byte(fn))
}

// FlatSched flattens a schedule into "B.<name>" / "O.<name>" keys.
func FlatSched(g map[string]map[string]uint64) map[string]int64 {
	r := map[string]int64{}
	for k, v := range g["BuiltInCost"] {
		r["B."+k] = NU(v)
	}
	for k, v := range g["BaseOperationCost"] {
		r["O."+k] = NU(v)
	}
	return r
}

// World projects everything.
func (p *Proj) World() *AWorld {
	w := p.W
	a := &AWorld{Acct: map[string]AAcct{}, Paused: map[string]map[string]string{}, Sysx: map[string]map[string]string{}, Msgs: []AMsg{},
		NextID: w.NextID, Sched: FlatSched(w.Sched), Oracle: map[string]string{}, Epoch: w.Epoch}
	for _, ai := range w.Addrs {
		if ai.Kind == "sys" {
			continue
		}
		var acc *Account
		home := w.HomeShard(ai.Bytes)
		if ai.Kind == "junk" {
			home = ai.Shard
		}
		if home >= 0 && home < len(w.Shards) {
			acc = w.Shards[home].Peek(ai.Bytes)
		}
		a.Acct[ai.Name] = p.Acct(acc)
		a.Oracle[ai.Name] = "yes"
	}
	for si, s := range w.Shards {
		sk := fmt.Sprint(si)
		a.Paused[sk] = map[string]string{}
		a.Sysx[sk] = map[string]string{}
		keys := make([]string, 0, len(s.Accounts))
		for k := range s.Accounts {
			keys = append(keys, k)
		}
		sort.Strings(keys)
		for _, k := range keys {
			acc := s.Accounts[k]
			if bytes.Equal(acc.Addr, SysAddr) {
				for _, sk2 := range acc.SortedKeys() {
					if bytes.HasPrefix([]byte(sk2), pfxEsdt) {
						a.Paused[sk][hx([]byte(sk2)[len(pfxEsdt):])] = hx(acc.Storage[sk2])
					} else {
						a.Sysx[sk][hx([]byte(sk2))] = hx(acc.Storage[sk2])
					}
				}
				if acc.Balance.Sign() != 0 || len(acc.Owner) != 0 || len(acc.Username) != 0 || acc.DevReward.Sign() != 0 {
					a.Sysx[sk]["fields"] = "changed"
				}
				continue
			}
			ai, known := w.byBytes[k]
			if known && (w.HomeShard(ai.Bytes) == si || (ai.Kind == "junk" && ai.Shard == si)) {
				continue // projected above
			}
			// an account that exists where it should not: show it
			name := w.NameOf(acc.Addr) + "@" + sk
			pa := p.Acct(acc)
			if known || !isEmptyAcct(pa) {
				a.Acct[name] = pa
			}
		}
		for k, v := range s.Oracle.Table {
			if si == 0 {
				a.Oracle[w.NameOf([]byte(k))] = v
			}
		}
	}
	for _, m := range w.Msgs {
		a.Msgs = append(a.Msgs, p.Msg(m))
	}
	return a
}

func isEmptyAcct(a AAcct) bool {
	return len(a.Esdt) == 0 && len(a.Roles) == 0 && len(a.Ctr) == 0 && len(a.KV) == 0 && len(a.Bad) == 0 && a.Owner == "" && a.Uname == "" && a.Dev == 0 && a.Egld == 0
}
