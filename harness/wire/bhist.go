package wire

// Builder histories (C12): the tx-data builder is a mutable object.  A row of kind "bhist" applies a
// sequence of operations to ONE real builder and records, after every operation, what ToString, ToBytes
// and GetLast return and what the real call parser makes of the string.  The specification
// (Wire.tla: B0 / BOp / BRun) steps its own builder state through the same operations; nothing is
// expected or computed here.

import (
	"math/big"
	"math/rand"

	"github.com/ElrondNetwork/elrond-vm-common/txDataBuilder"
)

var canNames = []string{"canFreeze", "canWipe", "canPause", "canMint", "canBurn", "canTransferNFTCreateRole", "canAddSpecialRoles"}

func normOp(o map[string]interface{}) Row {
	out := Row{"op": S(o["op"])}
	for _, f := range []string{"f", "s", "tok", "tick"} {
		if v, ok := o[f]; ok {
			out[f] = I(B(v))
		}
	}
	for _, f := range []string{"sup", "dec", "val", "nonce", "v"} {
		if v, ok := o[f]; ok {
			out[f] = N(v)
		}
	}
	if v, ok := o["w"]; ok {
		out["w"] = S(v)
	}
	if v, ok := o["e"]; ok {
		out["e"] = normElems([]interface{}{v})[0]
	}
	return out
}

// ProcessBHist runs one history on a real builder.
func ProcessBHist(in Row) (Row, string) {
	ops := L(in["ops"])
	norm := make([]Row, len(ops))
	for i, x := range ops {
		norm[i] = normOp(x.(map[string]interface{}))
	}
	out := Row{"k": "bhist", "src": src(in), "ops": norm}
	obs := []Row{}
	cl := []string{}
	res := Guard(func() (interface{}, error) {
		b := txDataBuilder.NewBuilder()
		for _, x := range ops {
			o := x.(map[string]interface{})
			switch S(o["op"]) {
			case "func":
				b.Func(string(B(o["f"])))
			case "elem":
				e := o["e"].(map[string]interface{})
				switch S(e["t"]) {
				case "bytes":
					b.Bytes(B(e["b"]))
				case "str":
					b.Str(string(B(e["b"])))
				case "byte":
					b.Byte(byte(N(e["n"])))
				case "int":
					b.Int(int(N(e["n"])))
				case "int64":
					b.Int64(N(e["n"]))
				case "big":
					b.BigInt(new(big.Int).SetBytes(B(e["b"])))
				case "bool":
					b.Bool(N(e["n"]) == 1)
				default:
					panic("wire: unknown element type " + S(e["t"]))
				}
			case "true":
				b.True()
			case "false":
				b.False()
			case "setlast":
				b.SetLast(string(B(o["s"])))
			case "clear":
				b.Clear()
			case "issue":
				b.IssueESDT(string(B(o["tok"])), string(B(o["tick"])), N(o["sup"]), byte(N(o["dec"])))
			case "xfer":
				b.TransferESDT(string(B(o["tok"])), N(o["val"]))
			case "xfernft":
				b.TransferESDTNFT(string(B(o["tok"])), int(N(o["nonce"])), N(o["val"]))
			case "burn":
				b.BurnESDT(string(B(o["tok"])), N(o["val"]))
			case "can":
				v := N(o["v"]) == 1
				switch S(o["w"]) {
				case "canFreeze":
					b.CanFreeze(v)
				case "canWipe":
					b.CanWipe(v)
				case "canPause":
					b.CanPause(v)
				case "canMint":
					b.CanMint(v)
				case "canBurn":
					b.CanBurn(v)
				case "canTransferNFTCreateRole":
					b.CanTransferNFTCreateRole(v)
				case "canAddSpecialRoles":
					b.CanAddSpecialRoles(v)
				default:
					panic("wire: unknown property method " + S(o["w"]))
				}
			default:
				panic("wire: unknown builder operation " + S(o["op"]))
			}
			s := b.ToString()
			p := parseCall(s)
			cl = append(cl, Cls(p))
			obs = append(obs, Row{"s": I([]byte(s)), "b": I(b.ToBytes()), "last": I([]byte(b.GetLast())), "parse": p})
		}
		return true, nil
	})
	out["bcls"] = Cls(res)
	if Cls(res) != "value" {
		out["be"] = res["e"]
	}
	out["obs"] = obs
	out["cl"] = append([]string{Cls(res)}, cl...)
	nt := ""
	if len(ops) > 1 {
		nt = sig("bhist", norm)
	}
	return out, nt
}

func randBName(r *rand.Rand) []byte {
	switch r.Intn(10) {
	case 0:
		return []byte{}
	case 1:
		return []byte(randName(r) + "@x")
	}
	n := randName(r)
	b := []byte(n)
	for i := range b {
		if b[i] == '@' {
			b[i] = 'a'
		}
	}
	return b
}

func randRawText(r *rand.Rand) []byte {
	switch r.Intn(8) {
	case 0:
		return []byte{}
	case 1:
		return []byte(randHexToken(r) + "f") // odd length
	case 2:
		return []byte("zz")
	case 3:
		return []byte("@")
	default:
		return []byte(randHexToken(r))
	}
}

func randTok(r *rand.Rand) []byte {
	if r.Intn(6) == 0 {
		return []byte{}
	}
	return []byte(randName(r))
}

// RandBHist draws a history of 2..12 operations; changes that do not add an element (Func, SetLast, Clear)
// follow observations on purpose: whatever the object remembers of an earlier ToString must not show.
func RandBHist(r *rand.Rand) Row {
	ops := []Row{}
	for n := 2 + r.Intn(11); n > 0; n-- {
		switch x := r.Intn(100); {
		case x < 18:
			ops = append(ops, Row{"op": "func", "f": I(randBName(r))})
		case x < 48:
			ops = append(ops, Row{"op": "elem", "e": randElem(r)})
		case x < 62:
			ops = append(ops, Row{"op": "setlast", "s": I(randRawText(r))})
		case x < 68:
			ops = append(ops, Row{"op": "clear"})
		case x < 72:
			ops = append(ops, Row{"op": []string{"true", "false"}[r.Intn(2)]})
		case x < 76:
			ops = append(ops, Row{"op": "issue", "tok": I(randTok(r)), "tick": I(randTok(r)), "sup": int64(r.Int31()) - int64(r.Intn(2))*int64(r.Int31()), "dec": r.Intn(256)})
		case x < 80:
			ops = append(ops, Row{"op": "xfer", "tok": I(randTok(r)), "val": int64(r.Int31n(1 << 20))})
		case x < 84:
			ops = append(ops, Row{"op": "xfernft", "tok": I(randTok(r)), "nonce": r.Intn(70000), "val": int64(r.Intn(3))})
		case x < 88:
			ops = append(ops, Row{"op": "burn", "tok": I(randTok(r)), "val": int64(r.Int31())})
		default:
			ops = append(ops, Row{"op": "can", "w": canNames[r.Intn(len(canNames))], "v": r.Intn(2)})
		}
	}
	return Row{"k": "bhist", "src": "rand", "ops": ops}
}
