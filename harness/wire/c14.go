package wire

import (
	"fmt"
	"math/big"
	"math/rand"

	"github.com/ElrondNetwork/elrond-vm-common/data"
	"github.com/ElrondNetwork/elrond-vm-common/data/esdt"

	"verif/harness/world"
)

// ------------------------------------------------------------------------------------------------ abstract <-> concrete

// Digits gives the base-128 digits of u, least significant first, without trailing zeros ([] is zero).
func Digits(u uint64) []int {
	d := []int{}
	for u > 0 {
		d = append(d, int(u&0x7f))
		u >>= 7
	}
	return d
}

// FromDigits is the inverse of Digits.
func FromDigits(v interface{}) uint64 {
	var u uint64
	b := B(v)
	for i := len(b) - 1; i >= 0; i-- {
		u = u<<7 | uint64(b[i])
	}
	return u
}

// emptyAs returns nil or a non-nil empty slice for an empty field, as the mask says (Go callers hand over both).
func emptyAs(b []byte, ne int64, bit uint) []byte {
	if len(b) > 0 {
		return b
	}
	if ne&(1<<bit) != 0 {
		return []byte{}
	}
	return nil
}

func metaOf(v interface{}, ne int64) *esdt.MetaData {
	m := v.(map[string]interface{})
	md := &esdt.MetaData{
		Nonce:      FromDigits(m["nonce"]),
		Name:       emptyAs(B(m["name"]), ne, 0),
		Creator:    emptyAs(B(m["creator"]), ne, 1),
		Royalties:  uint32(FromDigits(m["roy"])),
		Hash:       emptyAs(B(m["hash"]), ne, 2),
		Attributes: emptyAs(B(m["attr"]), ne, 3),
	}
	uris := BB(m["uris"])
	if len(uris) > 0 || ne&(1<<4) != 0 {
		md.URIs = uris
	}
	return md
}

func absMeta(m *esdt.MetaData) Row {
	return Row{"nonce": Digits(m.Nonce), "name": I(m.Name), "creator": I(m.Creator), "roy": Digits(uint64(m.Royalties)), "hash": I(m.Hash),
		"uris": II(m.URIs), "attr": I(m.Attributes)}
}

func tokenOf(v interface{}, ne int64) *esdt.ESDigitalToken {
	t := v.(map[string]interface{})
	tok := &esdt.ESDigitalToken{
		Type:       uint32(FromDigits(t["type"])),
		Value:      BigOf(t["value"]),
		Properties: emptyAs(B(t["props"]), ne, 5),
		Reserved:   emptyAs(B(t["reserved"]), ne, 6),
	}
	md := t["meta"].(map[string]interface{})
	if Bool(md["has"]) {
		tok.TokenMetaData = metaOf(md["m"], ne)
	}
	return tok
}

func absToken(t *esdt.ESDigitalToken) Row {
	md := Row{"has": false}
	if t.TokenMetaData != nil {
		md = Row{"has": true, "m": absMeta(t.TokenMetaData)}
	}
	return Row{"type": Digits(uint64(t.Type)), "value": Amount(t.Value), "props": I(t.Properties), "meta": md, "reserved": I(t.Reserved)}
}

func rolesOf(v interface{}, ne int64) *esdt.ESDTRoles {
	rs := BB(v)
	r := &esdt.ESDTRoles{}
	if len(rs) > 0 || ne&1 != 0 {
		r.Roles = rs
	}
	return r
}

func absRoles(r *esdt.ESDTRoles) [][]int { return II(r.Roles) }

// ------------------------------------------------------------------------------------------------ the real codec

func dirty(n int) []byte {
	b := make([]byte, n)
	for i := range b {
		b[i] = 0xAA
	}
	return b
}

type sizer interface {
	Size() int
	MarshalTo([]byte) (int, error)
}

// guardRaw is Guard for results that may legitimately be nil.
func guardRaw(f func() (interface{}, error)) (res Row) {
	defer func() {
		if r := recover(); r != nil {
			res = Row{"cls": "panic", "e": fmt.Sprint(r)}
		}
	}()
	v, err := f()
	if err != nil {
		return Row{"cls": "error", "e": err.Error()}
	}
	return Row{"cls": "value", "v": v}
}

var marsh = &world.Marshalizer{}

// a decoding target that is not empty: the adapter must reset it
func usedToken() *esdt.ESDigitalToken {
	return &esdt.ESDigitalToken{Type: 9, Value: big.NewInt(77), Properties: []byte{1}, Reserved: []byte{2},
		TokenMetaData: &esdt.MetaData{Nonce: 5, Name: []byte("x"), URIs: [][]byte{{1}}, Royalties: 3}}
}

// decode runs the real decoder of a kind on bytes.
func decode(kind string, b []byte) Row {
	in := append([]byte{}, b...)
	switch kind {
	case "amt":
		return guardRaw(func() (interface{}, error) {
			x, err := (&data.BigIntCaster{}).Unmarshal(in)
			if err != nil {
				return nil, err
			}
			return Amount(x), nil
		})
	case "tok":
		return guardRaw(func() (interface{}, error) {
			t := usedToken()
			if err := marsh.Unmarshal(t, in); err != nil {
				return nil, err
			}
			return absToken(t), nil
		})
	case "meta":
		return guardRaw(func() (interface{}, error) {
			m := &esdt.MetaData{Nonce: 4, Name: []byte("y"), URIs: [][]byte{{2}, {3}}}
			if err := marsh.Unmarshal(m, in); err != nil {
				return nil, err
			}
			return absMeta(m), nil
		})
	case "roles":
		return guardRaw(func() (interface{}, error) {
			r := &esdt.ESDTRoles{Roles: [][]byte{[]byte("old")}}
			if err := marsh.Unmarshal(r, in); err != nil {
				return nil, err
			}
			return absRoles(r), nil
		})
	}
	panic("wire: unknown codec kind " + kind)
}

// encode marshals the abstract value twice (Marshal into a fresh buffer through the production adapter;
// MarshalTo into a larger, dirty buffer from a second copy of the value) and reports Size().
func encode(kind string, v interface{}, ne int64) (m1, m2, size Row) {
	if kind == "amt" {
		c := &data.BigIntCaster{}
		a, a2 := BigOf(v), BigOf(v)
		size = guardRaw(func() (interface{}, error) { return c.Size(a), nil })
		m1 = guardRaw(func() (interface{}, error) {
			buf := make([]byte, c.Size(a))
			n, err := c.MarshalTo(a, buf)
			if err != nil {
				return nil, err
			}
			return buf[:n], nil
		})
		m2 = guardRaw(func() (interface{}, error) {
			buf := dirty(c.Size(a2))
			n, err := c.MarshalTo(a2, buf)
			if err != nil {
				return nil, err
			}
			return buf[:n], nil
		})
		return
	}
	mk := func(mask int64) sizer {
		switch kind {
		case "tok":
			return tokenOf(v, mask)
		case "meta":
			return metaOf(v, mask)
		case "roles":
			return rolesOf(v, mask)
		}
		panic("wire: unknown codec kind " + kind)
	}
	x, y := mk(ne), mk(^ne)
	size = guardRaw(func() (interface{}, error) { return x.Size(), nil })
	m1 = guardRaw(func() (interface{}, error) { return marsh.Marshal(x) })
	m2 = guardRaw(func() (interface{}, error) {
		buf := dirty(y.Size() + 3)
		n, err := y.MarshalTo(buf)
		if err != nil {
			return nil, err
		}
		return buf[:n], nil
	})
	return
}

func bytesOr(r Row) []int {
	if Cls(r) == "value" {
		if b, ok := r["v"].([]byte); ok {
			return I(b)
		}
	}
	return []int{}
}

// Process14 executes one C14 row: a value row (k = amt|tok|meta|roles with "v", optionally the reference
// bytes "tb" of the TLC table) or a decoding row (k, "in").
func Process14(in Row) (Row, string) {
	kind := S(in["k"])
	out := Row{"k": kind, "src": src(in)}
	cl := []string{}
	v, hasV := in["v"]
	ne := int64(0)
	if x, ok := in["ne"]; ok {
		ne = N(x)
		out["ne"] = ne
	}
	if raw, ok := in["in"]; ok { // decode arbitrary bytes first; a decoded value is then treated like any other value
		b := B(raw)
		out["in"] = I(b)
		if n, ok := in["note"]; ok {
			out["note"] = n
		}
		d := decode(kind, b)
		out["dcls"] = Cls(d)
		cl = append(cl, Cls(d))
		if Cls(d) == "value" {
			v, hasV = d["v"], true
		} else {
			out["de"] = d["e"]
			hasV = false
		}
	}
	nt := ""
	if hasV {
		v = roundJSON(v)
		out["v"] = v
		m1, m2, size := encode(kind, v, ne)
		out["mcls"] = Cls(m1)
		if Cls(m1) != "value" {
			out["me"] = m1["e"]
		}
		out["b1"], out["b2"] = bytesOr(m1), bytesOr(m2)
		out["size"] = -1
		if Cls(size) == "value" {
			out["size"] = size["v"].(int)
		}
		if Cls(m2) != "value" {
			out["b2"] = []int{-1} // never equal to an encoding
			out["m2e"] = m2["e"]
		}
		out["back"] = Row{"cls": "skipped"}
		if Cls(m1) == "value" {
			b1 := m1["v"].([]byte)
			back := decode(kind, b1)
			out["back"] = back
			cl = append(cl, Cls(back))
			if len(b1) > 2 || (kind == "amt" && len(b1) > 1) {
				nt = sig(kind, b1) // non-trivial: a value with at least one field beyond the bare amount
			}
		}
		if tb, ok := in["tb"]; ok { // the reference encoder's bytes: the real decoder must read them as the same value
			t := B(tb)
			out["tb"] = I(t)
			tback := decode(kind, t)
			out["tback"] = tback
			cl = append(cl, Cls(tback))
		}
	}
	out["cl"] = cl
	return out, nt
}

// roundJSON makes a value built from Go types look like one read from JSON (so that both take the same path).
func roundJSON(v interface{}) interface{} {
	switch x := v.(type) {
	case Row:
		r := Row{}
		for k, e := range x {
			r[k] = roundJSON(e)
		}
		return r
	case []int:
		r := make([]interface{}, len(x))
		for i, n := range x {
			r[i] = float64(n)
		}
		return r
	case [][]int:
		r := make([]interface{}, len(x))
		for i := range x {
			r[i] = roundJSON(x[i])
		}
		return r
	case []interface{}:
		r := make([]interface{}, len(x))
		for i := range x {
			r[i] = roundJSON(x[i])
		}
		return r
	}
	return v
}

// ------------------------------------------------------------------------------------------------ random inputs

func randAmount(r *rand.Rand) *big.Int {
	switch r.Intn(12) {
	case 0:
		return nil
	case 1:
		return big.NewInt(0)
	case 2:
		return big.NewInt(int64(r.Intn(3)) - 1)
	case 3, 4: // huge
		x := new(big.Int).SetBytes(randBytes(r, 33+r.Intn(400)))
		if r.Intn(2) == 0 {
			x.Neg(x)
		}
		return x
	case 5: // powers of 256 and their neighbours
		x := new(big.Int).Lsh(big.NewInt(1), uint(8*(1+r.Intn(40))))
		x.Add(x, big.NewInt(int64(r.Intn(3))-1))
		if r.Intn(2) == 0 {
			x.Neg(x)
		}
		return x
	}
	x := new(big.Int).SetBytes(randBytes(r, 1+r.Intn(32)))
	if r.Intn(3) == 0 {
		x.Neg(x)
	}
	return x
}

func randField(r *rand.Rand) []byte {
	switch r.Intn(12) {
	case 0, 1, 2:
		return nil
	case 3:
		return randBytes(r, 127+r.Intn(3)) // around the one/two-byte length boundary
	case 4:
		return randBytes(r, 300+r.Intn(1500))
	case 5:
		return []byte{0}
	}
	return randBytes(r, 1+r.Intn(40))
}

func randU64(r *rand.Rand) uint64 {
	switch r.Intn(8) {
	case 0:
		return 0
	case 1:
		return uint64(1) << uint(r.Intn(64))
	case 2:
		return (uint64(1) << uint(1+r.Intn(63))) - 1
	case 3:
		return ^uint64(0)
	case 4:
		return r.Uint64()
	}
	return uint64(r.Intn(1000))
}

func randMeta(r *rand.Rand) *esdt.MetaData {
	m := &esdt.MetaData{Nonce: randU64(r), Name: randField(r), Creator: randField(r), Royalties: uint32(randU64(r)), Hash: randField(r), Attributes: randField(r)}
	for n := r.Intn(5); n > 0; n-- {
		m.URIs = append(m.URIs, randField(r))
	}
	return m
}

func randToken(r *rand.Rand) *esdt.ESDigitalToken {
	t := &esdt.ESDigitalToken{Type: uint32(randU64(r)), Value: randAmount(r), Properties: randField(r), Reserved: randField(r)}
	if r.Intn(3) != 0 {
		t.TokenMetaData = randMeta(r)
	}
	if r.Intn(8) == 0 {
		t.TokenMetaData = &esdt.MetaData{}
	}
	return t
}

func randValue(r *rand.Rand) (string, interface{}) {
	switch x := r.Intn(10); {
	case x < 3:
		return "amt", Amount(randAmount(r))
	case x < 7:
		return "tok", absToken(randToken(r))
	case x < 9:
		return "meta", absMeta(randMeta(r))
	default:
		rs := &esdt.ESDTRoles{}
		for n := r.Intn(6); n > 0; n-- {
			rs.Roles = append(rs.Roles, [][]byte{[]byte("ESDTRoleLocalMint"), []byte("ESDTRoleLocalBurn"), []byte("ESDTRoleNFTCreate"), {}, randBytes(r, 1+r.Intn(200))}[r.Intn(5)])
		}
		return "roles", absRoles(rs)
	}
}

func realEncoding(kind string, v interface{}) []byte {
	m1, _, _ := encode(kind, roundJSON(v), 0)
	if Cls(m1) != "value" {
		return []byte{}
	}
	return m1["v"].([]byte)
}

// Rand14 draws a random structured value, or a damaged valid encoding for the decoders.
func Rand14(r *rand.Rand) Row {
	kind, v := randValue(r)
	if r.Intn(3) != 0 {
		return Row{"k": kind, "src": "rand", "v": v, "ne": r.Intn(128)}
	}
	b := realEncoding(kind, v)
	note := "valid"
	if len(b) > 0 {
		switch r.Intn(9) {
		case 7, 8:
			// a length-delimited field (known or unknown tag) whose length varint sits at an integer boundary: 2^31, 2^32, and the window
			// just below 2^63 where index arithmetic wraps negative
			p := r.Intn(len(b) + 1)
			tag := []byte{0x12, 0x1a, 0x22, 0x2a, 0x0a, 0x32, 0x3a, 0x7a, 0x42, 0xfa}[r.Intn(10)]
			var l uint64
			switch r.Intn(6) {
			case 0:
				l = 1<<31 - 1 + uint64(r.Intn(3))
			case 1:
				l = 1<<32 - 1 + uint64(r.Intn(3))
			case 2, 3:
				l = 1<<63 - 1 - uint64(r.Intn(p+20))
			case 4:
				l = 1<<63 + uint64(r.Intn(4))
			default:
				l = ^uint64(0) - uint64(r.Intn(4))
			}
			nb := append([]byte{}, b[:p]...)
			nb = append(nb, tag)
			if tag == 0xfa {
				nb = append(nb, 0x01)
			}
			for l >= 0x80 {
				nb = append(nb, byte(l)|0x80)
				l >>= 7
			}
			nb = append(nb, byte(l))
			b, note = append(nb, randBytes(r, r.Intn(3))...), "boundary length varint"
		case 0:
			b, note = b[:r.Intn(len(b))], "truncated"
		case 1, 2:
			b = append([]byte{}, b...)
			b[r.Intn(len(b))] ^= 1 << uint(r.Intn(8))
			note = "bit flip"
		case 3:
			p := r.Intn(len(b) + 1)
			b, note = append(append(append([]byte{}, b[:p]...), byte(r.Intn(256))), b[p:]...), "inserted byte"
		case 4:
			b, note = append(append([]byte{}, b...), b...), "encoding twice (merge)"
		case 5:
			b, note = append(append([]byte{}, b...), randBytes(r, 1+r.Intn(4))...), "trailing junk"
		}
	}
	return Row{"k": kind, "src": "mut", "in": I(b), "note": note}
}

// decAlphabet: bytes that matter to the decoders: small numbers, the tags of both messages, a length with a
// continuation bit, the extremes.
var decAlphabet = []byte{0x00, 0x01, 0x02, 0x08, 0x0a, 0x12, 0x1a, 0x22, 0x2a, 0x7f, 0x80, 0xff}

// ExhaustiveDec enumerates every byte string up to length n over the 12-byte alphabet, for every decoder.
func ExhaustiveDec(n int, each func(Row)) {
	var rec func(prefix []byte)
	rec = func(prefix []byte) {
		for _, kind := range []string{"amt", "tok", "meta", "roles"} {
			each(Row{"k": kind, "src": "dec", "in": I(prefix)})
		}
		if len(prefix) == n {
			return
		}
		for _, c := range decAlphabet {
			rec(append(append([]byte{}, prefix...), c))
		}
	}
	rec([]byte{})
}
