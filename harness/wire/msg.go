package wire

import (
	"math/big"
	"math/rand"
	"strings"

	vmcommon "github.com/ElrondNetwork/elrond-vm-common"
	"github.com/ElrondNetwork/elrond-vm-common/data/esdt"
	"github.com/ElrondNetwork/elrond-vm-common/txDataBuilder"

	"verif/harness/world"
)

// The built-in functions' own message encoder is not exported: a "msg" row executes a REAL cross-shard
// ESDTTransfer / ESDTNFTTransfer / MultiESDTNFTTransfer (factory-built container, production marshalizer
// adapter) on a two-shard world whose sender holds the tokens, takes the Data of the emitted output transfer,
// parses it with the real call parser and hands the result to the real transfer parser as the destination
// shard would.

var hugeBalance = new(big.Int).Lsh(big.NewInt(1), 400)

func tokenKey(tok []byte, nonce uint64) []byte {
	k := append([]byte(vmcommon.ElrondProtectedKeyPrefix+vmcommon.ESDTKeyIdentifier), tok...)
	if nonce > 0 {
		k = append(k, new(big.Int).SetUint64(nonce).Bytes()...)
	}
	return k
}

type msgItem struct {
	tok, nonce, qty []byte
}

// ProcessMsg executes one transfer with an attached call and parses the message it emits.
func ProcessMsg(in Row) (Row, string) {
	which := B(in["which"])
	call := BB(in["call"])
	var items []msgItem
	var normItems []Row
	for _, x := range L(in["items"]) {
		it := x.(map[string]interface{})
		m := msgItem{B(it["tok"]), B(it["nonce"]), B(it["qty"])}
		items = append(items, m)
		normItems = append(normItems, Row{"tok": I(m.tok), "nonce": I(m.nonce), "qty": I(m.qty)})
	}
	if normItems == nil {
		normItems = []Row{}
	}
	out := Row{"k": "msg", "src": src(in), "which": I(which), "items": normItems, "call": II(call)}

	w, err := world.New(world.Config{NShards: 2, Gas: world.StdGas(0)}, world.StdAddrs(2))
	if err != nil {
		panic("wire: " + err.Error())
	}
	w.ConfirmEpoch(1)
	// sender and destination kinds (user / contract) are dimensions of their own: given by the row, or derived from its content
	sk, dk := kindOf(in, "sk", which, call, 0), kindOf(in, "dk", which, call, 1)
	out["sk"], out["dk"] = sk, dk
	snd, dst := w.Addr([]string{"u0a", "c0a"}[sk]), w.Addr([]string{"u1a", "c1a"}[dk])
	acc := world.NewAccount(snd, w.Shards[0])
	for _, it := range items {
		n := new(big.Int).SetBytes(it.nonce).Uint64()
		t := &esdt.ESDigitalToken{Value: new(big.Int).Set(hugeBalance)}
		if n > 0 {
			t.Type = uint32(vmcommon.NonFungible)
			t.TokenMetaData = &esdt.MetaData{Nonce: n, Name: []byte("name"), Creator: snd, Royalties: 7, Hash: []byte{1, 2}, URIs: [][]byte{[]byte("uri")}, Attributes: []byte{}}
		}
		b, err := t.Marshal()
		if err != nil {
			panic("wire: " + err.Error())
		}
		acc.Storage[string(tokenKey(it.tok, n))] = b
	}
	if err := w.Shards[0].SaveAccount(acc); err != nil {
		panic("wire: " + err.Error())
	}

	c := &world.Call{Fn: string(which), Caller: snd, Rcpt: snd, Gas: 1 << 40, CT: vmcommon.DirectCall, Value: big.NewInt(0)}
	switch string(which) {
	case vmcommon.BuiltInFunctionESDTTransfer:
		c.Rcpt = dst
		c.Args = [][]byte{items[0].tok, items[0].qty}
	case vmcommon.BuiltInFunctionESDTNFTTransfer:
		c.Args = [][]byte{items[0].tok, items[0].nonce, items[0].qty, dst}
	case vmcommon.BuiltInFunctionMultiESDTNFTTransfer:
		c.Args = [][]byte{dst, new(big.Int).SetInt64(int64(len(items))).Bytes()}
		for _, it := range items {
			c.Args = append(c.Args, it.tok, it.nonce, it.qty)
		}
	default:
		panic("wire: msg rows are about the three transfer functions")
	}
	c.Args = append(c.Args, call...)
	out["snd"], out["rcv"], out["in"] = I(snd), I(dst), II(c.Args)

	r := w.Run(0, c.Clone())
	out["res"] = r.Res
	if r.Err != "" {
		out["e"] = r.Err
	}
	if r.Panic != "" {
		out["e"] = r.Panic
	}
	out["data"], out["data2"] = []int{}, []int{}
	out["parse"], out["dst"] = Row{"cls": "skipped"}, Row{"cls": "skipped"}
	cl := []string{}
	if r.Res == "ok" {
		var data []byte
		found := false
		if r.Out != nil {
			if oa := r.Out.OutputAccounts[string(dst)]; oa != nil && len(oa.OutputTransfers) == 1 {
				data, found = oa.OutputTransfers[0].Data, true
			}
		}
		if !found {
			out["res"] = "nomsg"
		} else {
			out["data"] = I(data)
			p := parseCall(string(data))
			out["parse"] = p
			cl = append(cl, Cls(p))
			if Cls(p) == "value" {
				v := p["v"].(Row)
				d := parseTransfers(snd, dst, string(B(v["fn"])), BB(v["args"]))
				out["dst"] = d
				cl = append(cl, Cls(d))
				again := Guard(func() (interface{}, error) { // build - parse - build
					b := txDataBuilder.NewBuilder().Func(string(B(v["fn"])))
					for _, a := range BB(v["args"]) {
						b.Bytes(a)
					}
					return b.ToString(), nil
				})
				cl = append(cl, Cls(again))
				if Cls(again) == "value" {
					out["data2"] = I([]byte(again["v"].(string)))
				}
			}
		}
	}
	out["cl"] = cl
	nt := ""
	if out["res"] == "ok" {
		nt = sig("msg", which, normItems, call)
	}
	return out, nt
}

// kindOf: 0 = user account, 1 = contract.
func kindOf(in Row, field string, which []byte, call [][]byte, bit uint) int {
	if v, ok := in[field]; ok {
		if f, ok := v.(float64); ok {
			return int(f) & 1
		}
		if n, ok := v.(int); ok {
			return n & 1
		}
	}
	h := uint32(2166136261)
	mix := func(b []byte) {
		for _, x := range b {
			h = (h ^ uint32(x)) * 16777619
		}
		h = (h ^ 0xff) * 16777619
	}
	mix(which)
	for _, c := range call {
		mix(c)
	}
	for _, x := range L(in["items"]) {
		it := x.(map[string]interface{})
		mix(B(it["tok"]))
		mix(B(it["qty"]))
	}
	return int(h>>(3+bit)) & 1
}

// RandMsg draws a transfer with an attached call.
func RandMsg(r *rand.Rand) Row {
	which := []string{"ESDTTransfer", "ESDTNFTTransfer", "MultiESDTNFTTransfer", "MultiESDTNFTTransfer"}[r.Intn(4)]
	item := func(nft bool) Row {
		nonce := []byte{}
		if nft {
			nonce = new(big.Int).SetUint64(uint64(1 + r.Intn(300))).Bytes()
			if r.Intn(6) == 0 {
				nonce = randBytes(r, 8)
				nonce[0] |= 1
			}
			if r.Intn(6) == 0 {
				nonce = append([]byte{0}, nonce...)
			}
		}
		qty := new(big.Int).SetBytes(randBytes(r, 1+r.Intn(20)))
		qty.Add(qty, big.NewInt(1))
		q := qty.Bytes()
		if r.Intn(6) == 0 {
			q = append([]byte{0, 0}, q...) // a non-canonical quantity
		}
		if r.Intn(25) == 0 {
			q = []byte{} // zero: the function refuses
		}
		tok := append([]byte("TOK-"), randBytes(r, 1+r.Intn(6))...)
		return Row{"tok": I(tok), "nonce": I(nonce), "qty": I(q)}
	}
	var items []Row
	switch which {
	case "ESDTTransfer":
		items = []Row{item(false)}
	case "ESDTNFTTransfer":
		items = []Row{item(true)}
	default:
		for n := 1 + r.Intn(4); n > 0; n-- {
			items = append(items, item(r.Intn(2) == 0))
		}
	}
	call := [][]byte{}
	if r.Intn(4) != 0 {
		call = append(call, []byte(randName(r)))
		for n := r.Intn(4); n > 0; n-- {
			call = append(call, randBytes(r, randLen(r)))
		}
	}
	return Row{"k": "msg", "src": "rand", "which": I([]byte(which)), "items": items, "call": II(call), "sk": r.Intn(2), "dk": r.Intn(2)}
}

// ---------------------------------------------------------------------------------------------------------------------
// Other messages of the built-in functions' own encoder ("omsg" rows):
//   sub = "xcall":    a same-shard ESDTNFTTransfer / MultiESDTNFTTransfer to a CONTRACT with an attached call: the emitted
//                     output transfer carries the call itself (function name raw, every argument hex-encoded);
//   sub = "handover": ESDTNFTCreateRoleTransfer at the current holder of the create role whose counter is `ctr`, new holder
//                     on the other shard: the emitted message carries the token id and the counter.
// The row records the inputs and what was emitted / parsed; the expectation is the specification's.

func rolesBytes(roles ...string) []byte {
	r := &esdt.ESDTRoles{}
	for _, x := range roles {
		r.Roles = append(r.Roles, []byte(x))
	}
	b, err := r.Marshal()
	if err != nil {
		panic("wire: " + err.Error())
	}
	return b
}

// ProcessOMsg executes one such call and parses the data string it emits.
func ProcessOMsg(in Row) (Row, string) {
	sub := S(in["sub"])
	tok, ctr, call := B(in["tok"]), B(in["ctr"]), BB(in["call"])
	out := Row{"k": "omsg", "src": src(in), "sub": sub, "tok": I(tok), "ctr": I(ctr), "call": II(call)}
	w, err := world.New(world.Config{NShards: 2, Gas: world.StdGas(0)}, world.StdAddrs(2))
	if err != nil {
		panic("wire: " + err.Error())
	}
	w.ConfirmEpoch(1)
	snd := w.Addr("u0a")
	acc := world.NewAccount(snd, w.Shards[0])
	var c *world.Call
	var dst []byte
	switch sub {
	case "xcall":
		dst = w.Addr("c0a")
		n := new(big.Int).SetBytes(ctr).Uint64()%250 + 1
		t := &esdt.ESDigitalToken{Type: uint32(vmcommon.NonFungible), Value: new(big.Int).Set(hugeBalance),
			TokenMetaData: &esdt.MetaData{Nonce: n, Name: []byte("name"), Creator: snd, Hash: []byte{1, 2}, URIs: [][]byte{[]byte("uri")}, Attributes: []byte{}}}
		b, err := t.Marshal()
		if err != nil {
			panic("wire: " + err.Error())
		}
		acc.Storage[string(tokenKey(tok, n))] = b
		nb := new(big.Int).SetUint64(n).Bytes()
		if len(ctr)%2 == 0 {
			c = &world.Call{Fn: vmcommon.BuiltInFunctionESDTNFTTransfer, Args: [][]byte{tok, nb, {1}, dst}}
		} else {
			c = &world.Call{Fn: vmcommon.BuiltInFunctionMultiESDTNFTTransfer, Args: [][]byte{dst, {1}, tok, nb, {1}}}
		}
		c.Args = append(c.Args, call...)
		c.Caller, c.Rcpt = snd, snd
	case "handover":
		dst = w.Addr("u1a")
		acc.Storage[vmcommon.ElrondProtectedKeyPrefix+vmcommon.ESDTRoleIdentifier+vmcommon.ESDTKeyIdentifier+string(tok)] = rolesBytes(vmcommon.ESDTRoleNFTCreate, vmcommon.ESDTRoleNFTBurn)
		if len(ctr) > 0 {
			acc.Storage[vmcommon.ElrondProtectedKeyPrefix+vmcommon.ESDTNFTLatestNonceIdentifier+string(tok)] = append([]byte{}, ctr...)
		}
		c = &world.Call{Fn: vmcommon.BuiltInFunctionESDTNFTCreateRoleTransfer, Caller: w.Addr("esdtsc"), Rcpt: snd, Args: [][]byte{tok, dst}}
	default:
		panic("wire: unknown omsg row " + sub)
	}
	if err := w.Shards[0].SaveAccount(acc); err != nil {
		panic("wire: " + err.Error())
	}
	c.Gas, c.CT, c.Value = 1<<40, vmcommon.DirectCall, big.NewInt(0)
	r := w.Run(0, c.Clone())
	out["res"] = r.Res
	if r.Err != "" {
		out["e"] = r.Err
	}
	if r.Panic != "" {
		out["e"] = r.Panic
	}
	out["data"], out["parse"] = []int{}, Row{"cls": "skipped"}
	cl := []string{}
	if r.Res == "ok" {
		found := false
		if r.Out != nil {
			if oa := r.Out.OutputAccounts[string(dst)]; oa != nil && len(oa.OutputTransfers) == 1 {
				data := oa.OutputTransfers[0].Data
				found = true
				out["data"] = I(data)
				p := parseCall(string(data))
				out["parse"] = p
				cl = append(cl, Cls(p))
			}
		}
		if !found {
			out["res"] = "nomsg"
		}
	}
	out["cl"] = cl
	nt := ""
	if out["res"] == "ok" {
		nt = sig("omsg", sub, tok, ctr, call)
	}
	return out, nt
}

// RandOMsg draws one: counters around the byte and half-byte boundaries, calls with zero to three arguments (empty ones too).
func RandOMsg(r *rand.Rand) Row {
	tok := []byte([]string{"TOK-1a2b3c", "N", "SFT-9"}[r.Intn(3)])
	ctrs := []uint64{0, 1, 15, 16, 100, 255, 256, 257, 4095, 4096, 65535, 65536, 1048575, 1048576, 1 << 32, 1<<32 + 1}
	ctr := new(big.Int).SetUint64(ctrs[r.Intn(len(ctrs))]).Bytes()
	if r.Intn(4) == 0 {
		ctr = new(big.Int).SetUint64(uint64(r.Int63())).Bytes()
	}
	if r.Intn(2) == 0 {
		return Row{"k": "omsg", "src": "rand", "sub": "handover", "tok": I(tok), "ctr": I(ctr), "call": [][]int{}}
	}
	call := [][]byte{[]byte(strings.ReplaceAll(randName(r), "@", "a"))}
	for n := r.Intn(4); n > 0; n-- {
		call = append(call, randBytes(r, r.Intn(4)))
	}
	return Row{"k": "omsg", "src": "rand", "sub": "xcall", "tok": I(tok), "ctr": I(ctr), "call": II(call)}
}
