package wire

import (
	"math/big"
	"math/rand"

	vmcommon "github.com/ElrondNetwork/elrond-vm-common"
	"github.com/ElrondNetwork/elrond-vm-common/data/esdt"
	"github.com/ElrondNetwork/elrond-vm-common/txDataBuilder"

	"verif/harness/world"
)

// The built-in functions' own message encoder is not exported: a "msg" row executes a REAL cross-shard
// ESDTTransfer / ESDTNFTTransfer / MultiESDTNFTTransfer (factory-built container, production marshalizer
// adapter) on a two-shard world whose sender holds the tokens, takes the Data of the emitted output transfer,
// parses it with the real call parser and hands the result to the real transfer parser as the destination
// shard would.

var hugeBalance = new(big.Int).Lsh(big.NewInt(1), 400)

func tokenKey(tok []byte, nonce uint64) []byte {
	k := append([]byte(vmcommon.ElrondProtectedKeyPrefix+vmcommon.ESDTKeyIdentifier), tok...)
	if nonce > 0 {
		k = append(k, new(big.Int).SetUint64(nonce).Bytes()...)
	}
	return k
}

type msgItem struct {
	tok, nonce, qty []byte
}

// ProcessMsg executes one transfer with an attached call and parses the message it emits.
func ProcessMsg(in Row) (Row, string) {
	which := B(in["which"])
	call := BB(in["call"])
	var items []msgItem
	var normItems []Row
	for _, x := range L(in["items"]) {
		it := x.(map[string]interface{})
		m := msgItem{B(it["tok"]), B(it["nonce"]), B(it["qty"])}
		items = append(items, m)
		normItems = append(normItems, Row{"tok": I(m.tok), "nonce": I(m.nonce), "qty": I(m.qty)})
	}
	if normItems == nil {
		normItems = []Row{}
	}
	out := Row{"k": "msg", "src": src(in), "which": I(which), "items": normItems, "call": II(call)}

	w, err := world.New(world.Config{NShards: 2, Gas: world.StdGas(0)}, world.StdAddrs(2))
	if err != nil {
		panic("wire: " + err.Error())
	}
	w.ConfirmEpoch(1)
	// sender and destination kinds (user / contract) are dimensions of their own: given by the row, or derived from its content
	sk, dk := kindOf(in, "sk", which, call, 0), kindOf(in, "dk", which, call, 1)
	out["sk"], out["dk"] = sk, dk
	snd, dst := w.Addr([]string{"u0a", "c0a"}[sk]), w.Addr([]string{"u1a", "c1a"}[dk])
	acc := world.NewAccount(snd, w.Shards[0])
	for _, it := range items {
		n := new(big.Int).SetBytes(it.nonce).Uint64()
		t := &esdt.ESDigitalToken{Value: new(big.Int).Set(hugeBalance)}
		if n > 0 {
			t.Type = uint32(vmcommon.NonFungible)
			t.TokenMetaData = &esdt.MetaData{Nonce: n, Name: []byte("name"), Creator: snd, Royalties: 7, Hash: []byte{1, 2}, URIs: [][]byte{[]byte("uri")}, Attributes: []byte{}}
		}
		b, err := t.Marshal()
		if err != nil {
			panic("wire: " + err.Error())
		}
		acc.Storage[string(tokenKey(it.tok, n))] = b
	}
	if err := w.Shards[0].SaveAccount(acc); err != nil {
		panic("wire: " + err.Error())
	}

	c := &world.Call{Fn: string(which), Caller: snd, Rcpt: snd, Gas: 1 << 40, CT: vmcommon.DirectCall, Value: big.NewInt(0)}
	switch string(which) {
	case vmcommon.BuiltInFunctionESDTTransfer:
		c.Rcpt = dst
		c.Args = [][]byte{items[0].tok, items[0].qty}
	case vmcommon.BuiltInFunctionESDTNFTTransfer:
		c.Args = [][]byte{items[0].tok, items[0].nonce, items[0].qty, dst}
	case vmcommon.BuiltInFunctionMultiESDTNFTTransfer:
		c.Args = [][]byte{dst, new(big.Int).SetInt64(int64(len(items))).Bytes()}
		for _, it := range items {
			c.Args = append(c.Args, it.tok, it.nonce, it.qty)
		}
	default:
		panic("wire: msg rows are about the three transfer functions")
	}
	c.Args = append(c.Args, call...)
	out["snd"], out["rcv"], out["in"] = I(snd), I(dst), II(c.Args)

	r := w.Run(0, c.Clone())
	out["res"] = r.Res
	if r.Err != "" {
		out["e"] = r.Err
	}
	if r.Panic != "" {
		out["e"] = r.Panic
	}
	out["data"], out["data2"] = []int{}, []int{}
	out["parse"], out["dst"] = Row{"cls": "skipped"}, Row{"cls": "skipped"}
	cl := []string{}
	if r.Res == "ok" {
		var data []byte
		found := false
		if r.Out != nil {
			if oa := r.Out.OutputAccounts[string(dst)]; oa != nil && len(oa.OutputTransfers) == 1 {
				data, found = oa.OutputTransfers[0].Data, true
			}
		}
		if !found {
			out["res"] = "nomsg"
		} else {
			out["data"] = I(data)
			p := parseCall(string(data))
			out["parse"] = p
			cl = append(cl, Cls(p))
			if Cls(p) == "value" {
				v := p["v"].(Row)
				d := parseTransfers(snd, dst, string(B(v["fn"])), BB(v["args"]))
				out["dst"] = d
				cl = append(cl, Cls(d))
				again := Guard(func() (interface{}, error) { // build - parse - build
					b := txDataBuilder.NewBuilder().Func(string(B(v["fn"])))
					for _, a := range BB(v["args"]) {
						b.Bytes(a)
					}
					return b.ToString(), nil
				})
				cl = append(cl, Cls(again))
				if Cls(again) == "value" {
					out["data2"] = I([]byte(again["v"].(string)))
				}
			}
		}
	}
	out["cl"] = cl
	nt := ""
	if out["res"] == "ok" {
		nt = sig("msg", which, normItems, call)
	}
	return out, nt
}

// kindOf: 0 = user account, 1 = contract.
func kindOf(in Row, field string, which []byte, call [][]byte, bit uint) int {
	if v, ok := in[field]; ok {
		if f, ok := v.(float64); ok {
			return int(f) & 1
		}
		if n, ok := v.(int); ok {
			return n & 1
		}
	}
	h := uint32(2166136261)
	mix := func(b []byte) {
		for _, x := range b {
			h = (h ^ uint32(x)) * 16777619
		}
		h = (h ^ 0xff) * 16777619
	}
	mix(which)
	for _, c := range call {
		mix(c)
	}
	for _, x := range L(in["items"]) {
		it := x.(map[string]interface{})
		mix(B(it["tok"]))
		mix(B(it["qty"]))
	}
	return int(h>>(3+bit)) & 1
}

// RandMsg draws a transfer with an attached call.
func RandMsg(r *rand.Rand) Row {
	which := []string{"ESDTTransfer", "ESDTNFTTransfer", "MultiESDTNFTTransfer", "MultiESDTNFTTransfer"}[r.Intn(4)]
	item := func(nft bool) Row {
		nonce := []byte{}
		if nft {
			nonce = new(big.Int).SetUint64(uint64(1 + r.Intn(300))).Bytes()
			if r.Intn(6) == 0 {
				nonce = randBytes(r, 8)
				nonce[0] |= 1
			}
			if r.Intn(6) == 0 {
				nonce = append([]byte{0}, nonce...)
			}
		}
		qty := new(big.Int).SetBytes(randBytes(r, 1+r.Intn(20)))
		qty.Add(qty, big.NewInt(1))
		q := qty.Bytes()
		if r.Intn(6) == 0 {
			q = append([]byte{0, 0}, q...) // a non-canonical quantity
		}
		if r.Intn(25) == 0 {
			q = []byte{} // zero: the function refuses
		}
		tok := append([]byte("TOK-"), randBytes(r, 1+r.Intn(6))...)
		return Row{"tok": I(tok), "nonce": I(nonce), "qty": I(q)}
	}
	var items []Row
	switch which {
	case "ESDTTransfer":
		items = []Row{item(false)}
	case "ESDTNFTTransfer":
		items = []Row{item(true)}
	default:
		for n := 1 + r.Intn(4); n > 0; n-- {
			items = append(items, item(r.Intn(2) == 0))
		}
	}
	call := [][]byte{}
	if r.Intn(4) != 0 {
		call = append(call, []byte(randName(r)))
		for n := r.Intn(4); n > 0; n-- {
			call = append(call, randBytes(r, randLen(r)))
		}
	}
	return Row{"k": "msg", "src": "rand", "which": I([]byte(which)), "items": items, "call": II(call), "sk": r.Intn(2), "dk": r.Intn(2)}
}
