package wire

import (
	"encoding/hex"
	"fmt"
	"math/big"
	"math/rand"
	"strings"

	vmcommon "github.com/ElrondNetwork/elrond-vm-common"
	"github.com/ElrondNetwork/elrond-vm-common/data/esdt"
	"github.com/ElrondNetwork/elrond-vm-common/parsers"
	"github.com/ElrondNetwork/elrond-vm-common/txDataBuilder"

	"verif/harness/world"
)

// ------------------------------------------------------------------------------------------------ the real parsers

func callValue(fn string, args [][]byte) Row { return Row{"fn": I([]byte(fn)), "args": II(args)} }

func parseCall(s string) Row {
	return Guard(func() (interface{}, error) {
		fn, args, err := parsers.NewCallArgsParser().ParseData(s)
		if err != nil {
			return nil, err
		}
		return callValue(fn, args), nil
	})
}

func deployValue(d *parsers.DeployArgs) Row {
	return Row{"code": I(d.Code), "vm": I(d.VMType), "args": II(d.Arguments),
		"meta": Row{"up": d.CodeMetadata.Upgradeable, "rd": d.CodeMetadata.Readable, "pay": d.CodeMetadata.Payable}}
}

func parseDeploy(s string) Row {
	return Guard(func() (interface{}, error) {
		d, err := parsers.NewDeployArgsParser().ParseData(s)
		if err != nil {
			return nil, err
		}
		if d == nil {
			return nil, nil
		}
		return deployValue(d), nil
	})
}

func suValue(us []*vmcommon.StorageUpdate) []Row {
	r := make([]Row, len(us))
	for i, u := range us {
		if u == nil {
			r[i] = Row{"nil": true}
			continue
		}
		r[i] = Row{"o": I(u.Offset), "d": I(u.Data)}
	}
	return r
}

func parseSU(s string) Row {
	return Guard(func() (interface{}, error) {
		us, err := parsers.NewStorageUpdatesParser().GetStorageUpdates(s)
		if err != nil {
			return nil, err
		}
		if us == nil {
			return nil, nil
		}
		return suValue(us), nil
	})
}

func nonceBytes(n uint64) []byte { return new(big.Int).SetUint64(n).Bytes() }

func xferValue(p *vmcommon.ParsedESDTTransfers) Row {
	xs := make([]Row, len(p.ESDTTransfers))
	for i, t := range p.ESDTTransfers {
		if t == nil {
			xs[i] = Row{"nil": true}
			continue
		}
		xs[i] = Row{"tok": I(t.ESDTTokenName), "nonce": I(nonceBytes(t.ESDTTokenNonce)), "type": int(t.ESDTTokenType), "val": Amount(t.ESDTValue)}
	}
	return Row{"rcv": I(p.RcvAddr), "xs": xs, "fn": I([]byte(p.CallFunction)), "args": II(p.CallArgs)}
}

// the transfer parser is built over the production marshalizer adapter (Reset + generated Unmarshal)
func parseTransfers(snd, rcv []byte, fn string, args [][]byte) Row {
	return Guard(func() (interface{}, error) {
		p, err := parsers.NewESDTTransferParser(&world.Marshalizer{})
		if err != nil {
			panic("wire: " + err.Error())
		}
		r, err := p.ParseESDTTransfers(append([]byte{}, snd...), append([]byte{}, rcv...), fn, cloneBB(args))
		if err != nil {
			return nil, err
		}
		if r == nil {
			return nil, nil
		}
		return xferValue(r), nil
	})
}

// ------------------------------------------------------------------------------------------------ row processors

// bigString rebuilds the input of a row that is too long to log.
func bigString(pat string, n int) string {
	switch pat {
	case "hexarg": // f@<n hex digits>
		return "f@" + strings.Repeat("ab", n/2)
	case "hexargodd":
		return "f@" + strings.Repeat("ab", n/2) + "c"
	case "tokens": // n empty arguments
		return "f" + strings.Repeat("@", n)
	case "pairs": // n storage updates
		return strings.Repeat("0a@0b@", n) + "0c@0d"
	case "deploy": // long code
		return strings.Repeat("00", n/2) + "@0500@0100@" + strings.Repeat("ff@", 1000) + "01"
	case "junk":
		return strings.Repeat("\xff\x00@zz", n/5)
	case "name":
		return strings.Repeat("n", n) + "@01"
	}
	panic("wire: unknown pattern " + pat)
}

func dropV(r Row) Row {
	delete(r, "v")
	return r
}

// ProcessStr runs the three string parsers on one string.
func ProcessStr(in Row) (Row, string) {
	out := Row{"k": "str", "src": src(in)}
	var s string
	big := Bool(in["big"])
	if big {
		s = bigString(S(in["pat"]), int(N(in["n"])))
		out["big"], out["pat"], out["n"], out["len"] = true, S(in["pat"]), N(in["n"]), len(s)
	} else {
		b := B(in["s"])
		s = string(b)
		out["s"] = I(b)
	}
	c, d, u := parseCall(s), parseDeploy(s), parseSU(s)
	if big {
		dropV(c)
		dropV(d)
		dropV(u)
	}
	out["call"], out["deploy"], out["su"] = c, d, u
	out["cl"] = []string{Cls(c), Cls(d), Cls(u)}
	nt := ""
	if Cls(d) == "value" || Cls(u) == "value" || (Cls(c) == "value" && strings.Contains(s, "@")) {
		nt = sig("str", s) // non-trivial: some parser accepted a string with structure
	}
	return out, nt
}

// ProcessXfer runs the ESDT-transfer parser on one (sender, receiver, function, arguments).
func ProcessXfer(in Row) (Row, string) {
	snd, rcv, fn, args := B(in["snd"]), B(in["rcv"]), B(in["fn"]), BB(in["args"])
	out := Row{"k": "xfer", "src": src(in), "snd": I(snd), "rcv": I(rcv), "fn": I(fn), "args": II(args)}
	if n, ok := in["note"]; ok {
		out["note"] = n
	}
	r := parseTransfers(snd, rcv, string(fn), args)
	out["res"] = r
	out["cl"] = []string{Cls(r)}
	nt := ""
	if len(args) >= 2 && vmIsTransferFn(string(fn)) {
		nt = sig("xfer", snd, rcv, fn, args) // non-trivial: a transfer function with enough arguments to look at
	}
	return out, nt
}

func vmIsTransferFn(fn string) bool {
	return fn == vmcommon.BuiltInFunctionESDTTransfer || fn == vmcommon.BuiltInFunctionESDTNFTTransfer || fn == vmcommon.BuiltInFunctionMultiESDTNFTTransfer
}

// buildElems drives the real tx-data builder.
func buildElems(f []byte, es []interface{}) string {
	b := txDataBuilder.NewBuilder()
	b.Func(string(f))
	for _, x := range es {
		e := x.(map[string]interface{})
		switch S(e["t"]) {
		case "bytes":
			b.Bytes(B(e["b"]))
		case "str":
			b.Str(string(B(e["b"])))
		case "byte":
			b.Byte(byte(N(e["n"])))
		case "int":
			b.Int(int(N(e["n"])))
		case "int64":
			b.Int64(N(e["n"]))
		case "big":
			b.BigInt(new(big.Int).SetBytes(B(e["b"])))
		case "bool":
			b.Bool(N(e["n"]) == 1)
		default:
			panic("wire: unknown element type " + S(e["t"]))
		}
	}
	s := b.ToString()
	if string(b.ToBytes()) != s {
		panic("ToBytes differs from ToString")
	}
	return s
}

func normElems(es []interface{}) []Row {
	r := make([]Row, len(es))
	for i, x := range es {
		e := x.(map[string]interface{})
		o := Row{"t": S(e["t"])}
		if _, ok := e["b"]; ok {
			o["b"] = I(B(e["b"]))
		}
		if _, ok := e["n"]; ok {
			o["n"] = N(e["n"])
		}
		r[i] = o
	}
	return r
}

// ProcessBuild builds a call-data string with the real builder, parses it with the real call parser and
// builds again from what was parsed.
func ProcessBuild(in Row) (Row, string) {
	f, es := B(in["f"]), L(in["es"])
	out := Row{"k": "build", "src": src(in), "f": I(f), "es": normElems(es)}
	bres := Guard(func() (interface{}, error) { return buildElems(f, es), nil })
	out["bcls"] = Cls(bres)
	cl := []string{Cls(bres)}
	out["data"], out["data2"] = []int{}, []int{}
	out["parse"] = Row{"cls": "skipped"}
	if Cls(bres) == "value" {
		data := bres["v"].(string)
		out["data"] = I([]byte(data))
		p := parseCall(data)
		out["parse"] = p
		cl = append(cl, Cls(p))
		if Cls(p) == "value" {
			v := p["v"].(Row)
			again := Guard(func() (interface{}, error) {
				b := txDataBuilder.NewBuilder().Func(string(B(v["fn"])))
				for _, a := range BB(v["args"]) {
					b.Bytes(a)
				}
				return b.ToString(), nil
			})
			cl = append(cl, Cls(again))
			if Cls(again) == "value" {
				out["data2"] = I([]byte(again["v"].(string)))
			}
		}
	} else {
		out["be"] = bres["e"]
	}
	out["cl"] = cl
	nt := ""
	if len(es) > 0 {
		nt = sig("build", f, out["es"])
	}
	return out, nt
}

// ProcessDeploy writes deploy data (code, VM type, code metadata, constructor arguments) with the real
// builder and code-metadata encoder and parses it with the real deploy parser.
func ProcessDeploy(in Row) (Row, string) {
	code, vm, args := B(in["code"]), B(in["vm"]), BB(in["args"])
	m := in["meta"].(map[string]interface{})
	meta := vmcommon.CodeMetadata{Upgradeable: Bool(m["up"]), Readable: Bool(m["rd"]), Payable: Bool(m["pay"])}
	out := Row{"k": "deploy", "src": src(in), "code": I(code), "vm": I(vm), "args": II(args), "meta": Row{"up": meta.Upgradeable, "rd": meta.Readable, "pay": meta.Payable}}
	bres := Guard(func() (interface{}, error) {
		b := txDataBuilder.NewBuilder().Func(hex.EncodeToString(code)).Bytes(vm).Bytes(meta.ToBytes())
		for _, a := range args {
			b.Bytes(a)
		}
		return b.ToString(), nil
	})
	out["bcls"] = Cls(bres)
	cl := []string{Cls(bres)}
	out["data"] = []int{}
	out["parse"] = Row{"cls": "skipped"}
	if Cls(bres) == "value" {
		data := bres["v"].(string)
		out["data"] = I([]byte(data))
		p := parseDeploy(data)
		out["parse"] = p
		cl = append(cl, Cls(p))
	}
	out["cl"] = cl
	return out, sig("deploy", code, vm, out["meta"], args)
}

// ProcessSU encodes a storage-update list with the real encoder, parses it back and encodes again.
func ProcessSU(in Row) (Row, string) {
	var us []*vmcommon.StorageUpdate
	var norm []Row
	for _, x := range L(in["us"]) {
		u := x.(map[string]interface{})
		us = append(us, &vmcommon.StorageUpdate{Offset: B(u["o"]), Data: B(u["d"])})
		norm = append(norm, Row{"o": I(B(u["o"])), "d": I(B(u["d"]))})
	}
	if norm == nil {
		norm = []Row{}
	}
	out := Row{"k": "su", "src": src(in), "us": norm}
	p := parsers.NewStorageUpdatesParser()
	bres := Guard(func() (interface{}, error) { return p.CreateDataFromStorageUpdate(us), nil })
	out["bcls"] = Cls(bres)
	cl := []string{Cls(bres)}
	out["data"], out["data2"], out["pin"] = []int{}, []int{}, []int{}
	out["parse"] = Row{"cls": "skipped"}
	if Cls(bres) == "value" {
		data := bres["v"].(string)
		out["data"] = I([]byte(data))
		if Bool(in["lead"]) { // the grammar admits one leading separator
			data = "@" + data
			out["lead"] = true
		}
		out["pin"] = I([]byte(data)) // what the parser is given
		r := Guard(func() (interface{}, error) {
			got, err := p.GetStorageUpdates(data)
			if err != nil {
				return nil, err
			}
			if got == nil {
				return nil, nil
			}
			return got, nil
		})
		cl = append(cl, Cls(r))
		if Cls(r) == "value" {
			got := r["v"].([]*vmcommon.StorageUpdate)
			out["parse"] = Row{"cls": "value", "v": suValue(got)}
			again := Guard(func() (interface{}, error) { return p.CreateDataFromStorageUpdate(got), nil })
			cl = append(cl, Cls(again))
			if Cls(again) == "value" {
				out["data2"] = I([]byte(again["v"].(string)))
			}
		} else {
			out["parse"] = r
		}
	}
	out["cl"] = cl
	nt := ""
	if len(us) > 0 {
		nt = sig("su", norm, Bool(in["lead"]))
	}
	return out, nt
}

// Process12 dispatches on the row kind.
func Process12(in Row) (Row, string) {
	switch S(in["k"]) {
	case "str":
		return ProcessStr(in)
	case "xfer":
		return ProcessXfer(in)
	case "build":
		return ProcessBuild(in)
	case "deploy":
		return ProcessDeploy(in)
	case "su":
		return ProcessSU(in)
	case "msg":
		return ProcessMsg(in)
	case "bhist":
		return ProcessBHist(in)
	case "omsg":
		return ProcessOMsg(in)
	}
	panic(fmt.Sprintf("wire: unknown C12 row kind %q", S(in["k"])))
}

// ------------------------------------------------------------------------------------------------ random inputs

const lowerHex = "0123456789abcdef"
const upperHex = "0123456789ABCDEF"

func randBytes(r *rand.Rand, n int) []byte {
	b := make([]byte, n)
	r.Read(b)
	return b
}

func randLen(r *rand.Rand) int {
	switch r.Intn(10) {
	case 0:
		return 0
	case 1:
		return 1
	case 2:
		return 32
	case 3:
		return 60 + r.Intn(40)
	default:
		return 1 + r.Intn(12)
	}
}

func randHexToken(r *rand.Rand) string {
	n := randLen(r)
	var sb strings.Builder
	mode := r.Intn(4) // lower, upper, mixed, mixed
	for i := 0; i < 2*n; i++ {
		switch {
		case mode == 0, mode >= 2 && r.Intn(2) == 0:
			sb.WriteByte(lowerHex[r.Intn(16)])
		default:
			sb.WriteByte(upperHex[r.Intn(16)])
		}
	}
	return sb.String()
}

var nameAlphabet = "abcdefghijklmnopqrstuvwxyzABCDEFGHIJKLMNOPQRSTUVWXYZ0123456789_-. "

func randName(r *rand.Rand) string {
	switch r.Intn(12) {
	case 0:
		return []string{"ESDTTransfer", "ESDTNFTTransfer", "MultiESDTNFTTransfer", "SaveKeyValue"}[r.Intn(4)]
	case 1:
		return string(randBytes(r, 1+r.Intn(6))) // arbitrary bytes, possibly with '@'
	case 2:
		return randHexToken(r) + "a" // looks like hex
	}
	n := 1 + r.Intn(14)
	b := make([]byte, n)
	for i := range b {
		b[i] = nameAlphabet[r.Intn(len(nameAlphabet))]
	}
	return string(b)
}

// RandStr makes call-data-like strings and damages some of them: odd-length hex, upper-case hex, empty
// arguments, doubled / leading / trailing separators, non-hex characters, raw bytes.
func RandStr(r *rand.Rand) Row {
	var s string
	switch r.Intn(8) {
	case 0: // raw bytes
		s = string(randBytes(r, r.Intn(40)))
	case 1: // soup over the interesting characters
		alphabet := "@@@0123456789abcdefABCDEFgGxz \x00\xff"
		b := make([]byte, 8+r.Intn(40))
		for i := range b {
			b[i] = alphabet[r.Intn(len(alphabet))]
		}
		s = string(b)
	default:
		toks := []string{}
		if r.Intn(3) == 0 {
			toks = append(toks, randHexToken(r)) // a hex first token: deploy data / storage updates
		} else {
			toks = append(toks, randName(r))
		}
		for n := r.Intn(9); n > 0; n-- {
			toks = append(toks, randHexToken(r))
		}
		s = strings.Join(toks, "@")
		for n := r.Intn(3); n > 0 && len(s) > 0; n-- { // damage
			p := r.Intn(len(s))
			switch r.Intn(7) {
			case 0:
				s = s[:p] + s[p+1:] // odd length
			case 1:
				s = s[:p] + "@" + s[p:]
			case 2:
				s = s[:p] + string([]byte{"gGzZ !\x00\xff\x80"[r.Intn(9)]}) + s[p:]
			case 3:
				s = "@" + s
			case 4:
				s = s + "@"
			case 5:
				s = s[:p]
			case 6:
				s = s[:p] + strings.ToUpper(s[p:])
			}
		}
	}
	return Row{"k": "str", "src": "rand", "s": I([]byte(s))}
}

// wrapCounts: the counts n for which 3n + c is small modulo 2^64 (c = 1: destination side, c = 2: sender side)
func wrapCount(r *rand.Rand) []byte {
	inv3 := new(big.Int).SetUint64(0xAAAAAAAAAAAAAAAB) // 3 * inv3 = 1 (mod 2^64)
	mod := new(big.Int).Lsh(big.NewInt(1), 64)
	res := int64(r.Intn(13))
	c := int64(1 + r.Intn(2))
	n := new(big.Int).Mul(big.NewInt(res-c), inv3)
	n.Mod(n, mod)
	b := n.Bytes()
	switch r.Intn(4) {
	case 0: // the same residue with garbage above bit 64: Uint64() truncates
		b = append(randBytes(r, 1+r.Intn(3)), append(make([]byte, 8-len(b)), b...)...)
	case 1: // leading zeros
		b = append(make([]byte, r.Intn(3)), b...)
	}
	return b
}

func randNumArg(r *rand.Rand) []byte {
	switch r.Intn(10) {
	case 0:
		return []byte{}
	case 1:
		return []byte{0}
	case 2:
		return randBytes(r, 8)
	case 3:
		return randBytes(r, 9+r.Intn(30))
	case 4:
		return []byte{0xff, 0xff, 0xff, 0xff, 0xff, 0xff, 0xff, 0xff}
	case 5:
		return append([]byte{1}, make([]byte, 8)...) // 2^64: truncates to 0
	default:
		return new(big.Int).SetInt64(int64(r.Intn(300))).Bytes()
	}
}

// randPayload makes the third argument of a destination-side NFT item: a marshalled ESDigitalToken, with
// some probability WITHOUT a Value field, with a nil / negative / huge amount, truncated, or junk.
func randPayload(r *rand.Rand) ([]byte, string) {
	md := &esdt.MetaData{Nonce: uint64(1 + r.Intn(5)), Name: randBytes(r, r.Intn(5)), Creator: randBytes(r, r.Intn(33)), Royalties: uint32(r.Intn(10001)),
		Hash: randBytes(r, r.Intn(4)), Attributes: randBytes(r, r.Intn(6))}
	for n := r.Intn(3); n > 0; n-- {
		md.URIs = append(md.URIs, randBytes(r, r.Intn(8)))
	}
	t := &esdt.ESDigitalToken{Type: uint32(r.Intn(3)), Value: new(big.Int).SetBytes(randBytes(r, 1+r.Intn(12))), TokenMetaData: md}
	kind := "payload"
	switch r.Intn(12) {
	case 0:
		t.Value = nil
		kind = "nil-amount"
	case 1:
		t.Value = big.NewInt(0)
		kind = "zero-amount"
	case 2:
		t.Value.Neg(t.Value)
		kind = "negative-amount"
	case 3:
		t.Value = new(big.Int).SetBytes(randBytes(r, 40+r.Intn(80)))
		kind = "huge-amount"
	case 4:
		t.TokenMetaData = nil
		kind = "no-metadata"
	}
	full, err := t.Marshal()
	if err != nil {
		panic(err)
	}
	switch r.Intn(8) {
	case 0, 1: // the same token without its Value field: Type, then fields 3.. copied from the real encoding
		var noValue []byte
		if t.Type != 0 {
			noValue = append(noValue, 0x08, byte(t.Type))
		}
		if t.TokenMetaData != nil {
			mb, _ := t.TokenMetaData.Marshal()
			noValue = append(noValue, 0x22, byte(len(mb)))
			noValue = append(noValue, mb...)
		}
		return noValue, "no-value-field"
	case 2:
		return full[:r.Intn(len(full)+1)], "truncated"
	case 3:
		return randBytes(r, r.Intn(20)), "junk"
	}
	return full, kind
}

var addrA = append([]byte{0x11}, make([]byte, 31)...)
var addrB = append([]byte{0x22}, append(make([]byte, 30), 1)...)

// RandXfer makes inputs of the ESDT-transfer parser.
func RandXfer(r *rand.Rand) Row {
	snd, rcv := addrA, addrB
	atSender := r.Intn(2) == 0
	if atSender {
		rcv = snd
	}
	fn := []string{"ESDTTransfer", "ESDTNFTTransfer", "MultiESDTNFTTransfer", "MultiESDTNFTTransfer", "MultiESDTNFTTransfer", "ESDTBurn"}[r.Intn(6)]
	note := ""
	var args [][]byte
	tail := func() {
		if r.Intn(2) == 0 {
			args = append(args, []byte(randName(r)))
			for n := r.Intn(4); n > 0; n-- {
				args = append(args, randBytes(r, randLen(r)))
			}
		}
	}
	switch fn {
	case "MultiESDTNFTTransfer":
		if atSender {
			args = append(args, addrB)
		}
		items := r.Intn(5)
		var count []byte
		switch r.Intn(10) {
		case 0, 1, 2:
			count, note = wrapCount(r), "wrap-around count"
		case 3:
			count, note = randNumArg(r), "arbitrary count"
		case 4:
			count, note = new(big.Int).SetInt64(int64(items+1+r.Intn(3))).Bytes(), "count too large"
		case 5:
			count, note = append([]byte{byte(1 + r.Intn(255))}, append(make([]byte, 7), byte(items))...), "count with bits above 2^64"
		default:
			count = new(big.Int).SetInt64(int64(items)).Bytes()
			if r.Intn(4) == 0 {
				count = append([]byte{0, 0}, count...)
			}
		}
		args = append(args, count)
		for i := 0; i < items; i++ {
			nonce := randNumArg(r)
			if r.Intn(2) == 0 {
				nonce = []byte{}
			}
			val := randBytes(r, randLen(r))
			if !atSender && len(nonce) > 0 && r.Intn(8) != 0 {
				var k string
				val, k = randPayload(r)
				if note == "" || k == "no-value-field" {
					note = k
				}
			}
			args = append(args, randBytes(r, 1+r.Intn(10)), nonce, val)
		}
		if r.Intn(6) == 0 && len(args) > 0 {
			args = args[:r.Intn(len(args))] // cut short
		}
		tail()
	case "ESDTNFTTransfer":
		args = append(args, randBytes(r, 1+r.Intn(10)), randNumArg(r), randBytes(r, randLen(r)), addrB)
		if !atSender && r.Intn(2) == 0 {
			args[2], note = randPayload(r)
		}
		if r.Intn(5) == 0 {
			args = args[:r.Intn(len(args))]
		}
		tail()
	default:
		args = append(args, randBytes(r, 1+r.Intn(10)), randNumArg(r))
		if r.Intn(5) == 0 {
			args = args[:r.Intn(len(args))]
		}
		tail()
	}
	row := Row{"k": "xfer", "src": "rand", "snd": I(snd), "rcv": I(rcv), "fn": I([]byte(fn)), "args": II(args)}
	if note != "" {
		row["note"] = note
	}
	return row
}

func randElem(r *rand.Rand) Row {
	switch r.Intn(10) {
	case 0:
		return Row{"t": "byte", "n": r.Intn(256)}
	case 1:
		return Row{"t": "int", "n": r.Intn(1 << 20)}
	case 2:
		return Row{"t": "int64", "n": int64(r.Int31())}
	case 3:
		return Row{"t": "int", "n": -r.Intn(70000)}
	case 4:
		return Row{"t": "big", "b": I(append(make([]byte, r.Intn(2)), randBytes(r, r.Intn(40))...))}
	case 5:
		return Row{"t": "bool", "n": r.Intn(2)}
	case 6:
		return Row{"t": "str", "b": I([]byte(randName(r)))}
	default:
		return Row{"t": "bytes", "b": I(randBytes(r, randLen(r)))}
	}
}

// RandBuild makes (function, elements) for the builder; most names are representable (non-empty, no '@').
func RandBuild(r *rand.Rand) Row {
	f := randName(r)
	switch r.Intn(12) {
	case 0:
		f = ""
	case 1:
		f = f + "@" + f
	default:
		f = strings.ReplaceAll(f, "@", "a")
	}
	es := []Row{}
	for n := r.Intn(8); n > 0; n-- {
		es = append(es, randElem(r))
	}
	return Row{"k": "build", "src": "rand", "f": I([]byte(f)), "es": es}
}

// RandDeploy makes deploy data.
func RandDeploy(r *rand.Rand) Row {
	code := randBytes(r, 1+r.Intn(120))
	vm := randBytes(r, 1+r.Intn(3))
	switch r.Intn(12) {
	case 0:
		code = []byte{}
	case 1:
		vm = []byte{}
	}
	args := [][]byte{}
	for n := r.Intn(5); n > 0; n-- {
		args = append(args, randBytes(r, randLen(r)))
	}
	return Row{"k": "deploy", "src": "rand", "code": I(code), "vm": I(vm), "args": II(args),
		"meta": Row{"up": r.Intn(2) == 0, "rd": r.Intn(2) == 0, "pay": r.Intn(2) == 0}}
}

// RandSU makes storage-update lists.
func RandSU(r *rand.Rand) Row {
	us := []Row{}
	for n := r.Intn(7); n > 0; n-- {
		o := randBytes(r, 1+r.Intn(33))
		if r.Intn(12) == 0 {
			o = []byte{}
		}
		us = append(us, Row{"o": I(o), "d": I(randBytes(r, randLen(r)))})
	}
	row := Row{"k": "su", "src": "rand", "us": us}
	if r.Intn(4) == 0 {
		row["lead"] = true
	}
	return row
}

// BigRows are inputs too long to log; they are rebuilt from a pattern and a size.
func BigRows() []Row {
	var rows []Row
	for _, p := range []string{"hexarg", "hexargodd", "tokens", "pairs", "deploy", "junk", "name"} {
		rows = append(rows, Row{"k": "str", "src": "rand", "big": true, "pat": p, "n": 200000})
	}
	return rows
}

// Rand12 draws one random C12 input row.
func Rand12(r *rand.Rand) Row {
	switch x := r.Intn(100); {
	case x < 40:
		return RandStr(r)
	case x < 70:
		return RandXfer(r)
	case x < 76:
		return RandBuild(r)
	case x < 83:
		return RandBHist(r)
	case x < 89:
		return RandDeploy(r)
	case x < 96:
		return RandSU(r)
	case x < 98:
		return RandMsg(r)
	default:
		return RandOMsg(r)
	}
}
