// Package drv holds the drivers that exercise the real built-in functions and record traces.
package drv

import (
	"bytes"
	"fmt"
	"math/big"
	"math/rand"
	"sort"

	vmcommon "github.com/ElrondNetwork/elrond-vm-common"
	"github.com/ElrondNetwork/elrond-vm-common/data/esdt"
	"verif/harness/world"
)

// Roles the protocol knows.
var AllRoles = []string{"ESDTRoleLocalMint", "ESDTRoleLocalBurn", "ESDTRoleNFTCreate", "ESDTRoleNFTAddQuantity", "ESDTRoleNFTBurn", "ESDTRoleNFTAddURI", "ESDTRoleNFTUpdateAttributes"}

// Ledger is the random driver over the whole ledger family.
type Ledger struct {
	W       *world.World
	P       *world.Proj
	T       *world.Tracer
	R       *rand.Rand
	Scale   *big.Int
	Profile string
	Fung    [][]byte
	NFT     [][]byte
	Alias   [][]byte
	Dup     []byte   // a token with TWO creators (outside the single-creator discipline): equal nonces with different hashes exist
	DupCreators []string
	XR       []byte // an NFT token without a creator at first
	XRHolder string // holds only its burn role
	Users   []string // user names (all shards)
	SCs     []string
	DNS     []string
	Creator map[string]string // token -> current create-role holder (driver bookkeeping for discipline only)
	Pending map[string]bool   // token -> hand-over in flight
	Believed map[string]map[string]bool // account|token -> the roles the SYSTEM CONTRACT believes it has granted there (its own bookkeeping:
	// what it set minus what it un-set); "never a role twice" is decided on this, not on what the account really stores
	TraceNo int
	Weights map[string]int
	Triple  bool // C13: run every step on replicas too
	GasSweep  bool // C06/C16: sweep GasProvided over the boundary points of every call
	MCRes     string // replay of a model behaviour: the result the specification predicted for the current step
	Alloc     bool // C11: measure the bytes allocated by every call
	FaultMode bool // C17: enumerate dependency faults of every successful step
}

func (d *Ledger) amt(x int64) []byte {
	b := new(big.Int).Mul(big.NewInt(x), d.Scale).Bytes()
	if d.R != nil && d.R.Intn(25) == 0 {
		b = append([]byte{0, 0}, b...) // non-minimal encoding of the same number
	}
	return b
}

func nb(n uint64) []byte { return new(big.Int).SetUint64(n).Bytes() }

func (d *Ledger) pick(l []string) string { return l[d.R.Intn(len(l))] }

func (d *Ledger) pickTok(l [][]byte) []byte { return l[d.R.Intn(len(l))] }

func (d *Ledger) chance(pct int) bool { return d.R.Intn(100) < pct }

// Scales the drivers use: 1 (literal small values) and large multi-word factors.
func ScaleFor(i int) *big.Int {
	switch i % 6 {
	case 0, 1:
		return big.NewInt(1)
	case 2:
		return new(big.Int).Lsh(big.NewInt(1), 64)
	case 3:
		return new(big.Int).Lsh(big.NewInt(1), 63) // one unit sits exactly on the sign bit of a 64-bit word
	case 4:
		return big.NewInt(1 << 31)
	default:
		s := new(big.Int).Lsh(big.NewInt(1), 200)
		return s.Add(s, big.NewInt(12345))
	}
}

// NewLedger builds a fresh world and its driver.
func NewLedger(seed int64, traceNo int, profile string, t *world.Tracer) (*Ledger, error) {
	r := rand.New(rand.NewSource(seed*1000003 + int64(traceNo)))
	n := 1 + (traceNo+int(seed))%3
	if profile == "single" {
		n = 1
	}
	cfg := world.Config{NShards: n, WithMeta: true, Gas: world.StdGas(traceNo), EnableChange: traceNo%2 == 0, Activation: []uint32{0, 0, 2}[traceNo%3],
		ChangeBeforeCreate: traceNo%3 == 1}
	addrs := world.StdAddrs(n)
	w, err := world.New(cfg, addrs)
	if err != nil {
		return nil, err
	}
	w.ConfirmEpoch(0)
	d := &Ledger{W: w, R: r, T: t, Scale: ScaleFor(traceNo + int(seed)), Profile: profile, TraceNo: traceNo, Creator: map[string]string{}, Pending: map[string]bool{}}
	d.P = &world.Proj{W: w, Scale: d.Scale}
	d.Fung = [][]byte{[]byte("F1"), []byte("FT-2")}
	d.NFT = [][]byte{[]byte("N"), []byte("SFT-9")}
	d.Dup = []byte("DUP-7")
	d.XR = []byte("XR-3")
	// ids that alias other keys when concatenated with a nonce
	d.Alias = [][]byte{[]byte("N\x01"), []byte("N\x02"), {}, []byte("F"), []byte("SFT-9\x01"), []byte("N\x01\x00")}
	for _, a := range addrs {
		switch {
		case a.Kind == "user":
			d.Users = append(d.Users, a.Name)
		case a.Kind == "sc" && a.DNS:
			d.DNS = append(d.DNS, a.Name)
		case a.Kind == "sc":
			d.SCs = append(d.SCs, a.Name)
		}
	}
	// contracts get an owner and some developer reward (node state that no built-in function creates)
	for i, sc := range d.SCs {
		ai := w.Info(sc)
		acc := world.NewAccount(ai.Bytes, w.Shards[ai.Shard])
		if !(i == len(d.SCs)-1 && traceNo%2 == 1) { // in every other trace the last contract has no recorded owner
			acc.Owner = append([]byte(nil), w.Addr(d.Users[(i*2)%len(d.Users)])...)
		}
		acc.DevReward = new(big.Int).Mul(big.NewInt(int64(3+i)), d.Scale)
		w.Shards[ai.Shard].Accounts[string(ai.Bytes)] = acc
	}
	for i, u := range d.Users {
		ai := w.Info(u)
		acc := world.NewAccount(ai.Bytes, w.Shards[ai.Shard])
		acc.Balance = new(big.Int).Mul(big.NewInt(int64(10+i)), d.Scale)
		w.Shards[ai.Shard].Accounts[string(ai.Bytes)] = acc
	}
	// the second NFT token starts with a creator whose counter sits just below a byte boundary (nonces 255/256, 65535/65536 are reached by a few creates)
	{
		cr := d.Users[(traceNo+1)%len(d.Users)]
		ai := w.Info(cr)
		acc := w.Shards[ai.Shard].Accounts[string(ai.Bytes)]
		ctr := []uint64{254, 255, 510, 65534, 65535, 16777214, 0, 3}[(traceNo+int(seed))%8]
		if ctr > 0 {
			acc.Storage["ELRONDnonce"+string(d.NFT[1])] = nb(ctr)
		}
		rl := &esdt.ESDTRoles{Roles: [][]byte{[]byte("ESDTRoleNFTCreate"), []byte("ESDTRoleNFTAddQuantity"), []byte("ESDTRoleNFTBurn"), []byte("ESDTRoleNFTAddURI"), []byte("ESDTRoleNFTUpdateAttributes")}}
		rb, _ := rl.Marshal()
		acc.Storage["ELRONDroleesdt"+string(d.NFT[1])] = rb
		d.Creator[string(d.NFT[1])] = cr
	}
	// payability: contracts "b" are not payable, one user on the last shard errors
	for s := 0; s < n; s++ {
		w.SetOracle(w.Addr(fmt.Sprintf("c%db", s)), "no")
	}
	issued := append(append(append([][]byte{}, d.Fung...), d.NFT...), d.XR)
	ev := world.AEvent{A: "init", Res: "ok"}
	cfgA := d.P.CfgOf(issued, traceNo, profile)
	cfgA.Dup = []string{fmt.Sprintf("%x", d.Dup)}
	if err := t.Write(&world.ALine{Ev: ev, Cfg: cfgA, W: d.P.World()}, map[string]interface{}{"kind": "init", "seed": seed, "trace": traceNo, "profile": profile}); err != nil {
		return nil, err
	}
	return d, nil
}

// record executes a call and writes its trace line.
func (d *Ledger) record(kind string, shard int, c *world.Call) *world.StepResult {
	return d.recordMid(kind, shard, c, -1, false)
}

type wr struct {
	addr, key, val []byte
}

// believedRoles: the system contract's books for (account, token), opened with what the account stores at that moment.
func (d *Ledger) believedRoles(acct string, tok []byte) map[string]bool {
	if d.Believed == nil {
		d.Believed = map[string]map[string]bool{}
	}
	k := acct + "|" + fmt.Sprintf("%x", tok)
	if b, ok := d.Believed[k]; ok {
		return b
	}
	b := map[string]bool{}
	if ai := d.W.Info(acct); ai != nil && ai.Shard >= 0 && ai.Shard < len(d.W.Shards) {
		acc := d.P.Acct(d.W.Shards[ai.Shard].Peek(ai.Bytes))
		for _, r := range acc.Roles[fmt.Sprintf("%x", tok)] {
			var rb []byte
			fmt.Sscanf(r, "%x", &rb)
			b[string(rb)] = true
		}
	}
	d.Believed[k] = b
	return b
}

func (d *Ledger) recordMid(kind string, shard int, c *world.Call, mid int, dup bool) *world.StepResult {
	var books map[string]bool
	if kind == "exec" && (c.Fn == "ESDTSetRole" || c.Fn == "ESDTUnSetRole") && len(c.Args) >= 2 && bytes.Equal(c.Caller, d.W.Addr("esdtsc")) {
		if n := d.W.NameOf(c.Rcpt); d.W.Info(n) != nil {
			books = d.believedRoles(n, c.Args[0])
		}
	}
	r := d.recordMid0(kind, shard, c, mid, dup)
	if books != nil && r != nil && r.Res == "ok" {
		for _, x := range c.Args[1:] {
			if c.Fn == "ESDTSetRole" {
				books[string(x)] = true
			} else {
				delete(books, string(x))
			}
		}
	}
	return r
}

func (d *Ledger) recordMid0(kind string, shard int, c *world.Call, mid int, dup bool) *world.StepResult {
	sh := d.W.Shards[shard]
	conc := world.Describe(kind, shard, c, mid)
	conc["dup"] = dup
	if d.Triple || d.Alloc {
		conc["modes"] = map[bool]string{true: "triple,", false: ""}[d.Triple] + map[bool]string{true: "alloc", false: ""}[d.Alloc]
	}
	var pl []int64
	used := int64(-1)
	if kind == "exec" {
		// probe with ample gas (all effects undone): learn the payload lengths and the consumption independently of the real step
		var writes []wr
		sh.WriteLog = func(addr, key, val []byte) {
			writes = append(writes, wr{append([]byte(nil), addr...), append([]byte(nil), key...), append([]byte(nil), val...)})
		}
		var preSnd *world.Account
		if a := sh.Peek(c.Caller); a != nil {
			preSnd = a.Clone(nil)
		}
		pc := c.Clone()
		pc.Gas = 1 << 40
		pr := d.W.Probe(shard, pc, nil)
		sh.WriteLog = nil
		if pr.Res == "ok" {
			pl = payloadLens(d.W, shard, pc, pr, writes, preSnd)
			u := new(big.Int).SetUint64(pc.Gas - pr.Out.GasRemaining)
			for _, oa := range pr.Out.OutputAccounts {
				if oa != nil {
					for _, ot := range oa.OutputTransfers {
						u.Sub(u, new(big.Int).SetUint64(ot.GasLimit))
					}
				}
			}
			if u.IsInt64() && u.Sign() >= 0 {
				used = u.Int64()
			}
		}
		if d.GasSweep {
			c.Gas = d.sweepGas(c.Fn, used)
			conc["gas"] = fmt.Sprint(c.Gas)
		}
	}
	if d.FaultMode {
		d.faults(kind, shard, c, mid, conc)
	}
	var rd2, rd3 string
	rint := true
	if d.Triple {
		rd2, rd3, rint = d.replicasBefore(shard, c)
	}
	var r *world.StepResult
	orig := c
	var back, pristine []byte
	if d.Triple {
		c, back, pristine = carved(orig)
	}
	var a0, bound uint64
	if d.Alloc {
		bound = allocBound(d.W, shard, c)
		a0 = allocNow()
	}
	if kind == "deliver" {
		r, _ = d.W.Deliver(mid, dup)
		if r == nil {
			return nil // the message is gone (dropped after a failed first attempt): nothing was executed
		}
	} else {
		r = d.W.Run(shard, c)
	}
	var a1 uint64
	if d.Alloc {
		a1 = allocNow()
	}
	ev := d.P.EventOf(kind, shard, orig, r, mid, dup)
	if ev.X == nil {
		ev.X = map[string]interface{}{}
	}
	if d.MCRes != "" {
		ev.X["mcres"] = d.MCRes
	}
	if d.Alloc {
		ev.X["allocok"] = a1-a0 <= bound
		ev.X["alloc"] = a1 - a0
	}
	if d.Triple {
		if kind != "deliver" && !inputIntact(orig, c, r.Input, back, pristine) {
			rint = false
		}
		ev.X["d1"], ev.X["d2"], ev.X["d3"], ev.X["intact"] = Digest(d.W, shard, r), rd2, rd3, rint
		c = orig
	}
	ev.PL = pl
	if used >= 0 {
		ev.X["used"] = used
	}
	if err := d.T.Write(&world.ALine{Ev: ev, W: d.P.World()}, conc); err != nil {
		panic(err)
	}
	return r
}

var costKey = map[string]string{"ChangeOwnerAddress": "ChangeOwnerAddress", "ClaimDeveloperRewards": "ClaimDeveloperRewards", "SetUserName": "SaveUserName",
	"SaveKeyValue": "SaveKeyValue", "ESDTTransfer": "ESDTTransfer", "ESDTBurn": "ESDTBurn", "ESDTLocalMint": "ESDTLocalMint", "ESDTLocalBurn": "ESDTLocalBurn",
	"ESDTNFTCreate": "ESDTNFTCreate", "ESDTNFTAddQuantity": "ESDTNFTAddQuantity", "ESDTNFTBurn": "ESDTNFTBurn", "ESDTNFTTransfer": "ESDTNFTTransfer",
	"MultiESDTNFTTransfer": "ESDTNFTMultiTransfer", "ESDTNFTAddURI": "ESDTNFTAddURI", "ESDTNFTUpdateAttributes": "ESDTNFTUpdateAttributes"}

// sweepGas picks GasProvided around the interesting points: 0, the function's base cost, the measured total consumption
// (the neighbourhood just below it is where a guard that disagrees with the charge shows), 2^64-1.
func (d *Ledger) sweepGas(fn string, used int64) uint64 {
	cost := int64(d.W.Sched["BuiltInCost"][costKey[fn]])
	pick := func(vs ...int64) uint64 {
		v := vs[d.R.Intn(len(vs))]
		if v < 0 {
			v = 0
		}
		return uint64(v)
	}
	p := d.R.Intn(100)
	switch {
	case used >= 0 && p < 45:
		// at and just below/above the real charge; the per-byte prices are < 2^7 in every schedule the drivers use, so
		// used-1-rand(130) covers "one or two bytes short"
		return pick(used-1, used-1, used, used, used+1, used-1-int64(d.R.Intn(130)), used-int64(d.R.Intn(8)), used+int64(d.R.Intn(50)))
	case p < 65:
		return pick(cost-1, cost, cost+1, cost/2)
	case p < 75:
		return pick(0, 0, 1, used/2)
	case p < 85:
		return []uint64{^uint64(0), 1 << 63, ^uint64(0) - 1, 1<<63 - 1}[d.R.Intn(4)]
	}
	return 600000
}

// payloadLens measures, independently of the gas the function reports, the length of every marshalled
// NFT payload the call had to copy: from the emitted cross-shard message, or from the values written to the
// same-shard destination.
func payloadLens(w *world.World, shard int, c *world.Call, r *world.StepResult, writes []wr, pre *world.Account) []int64 {
	pl := []int64{}
	if r == nil || r.Res != "ok" || !bytes.Equal(c.Caller, c.Rcpt) {
		return pl
	}
	var dest []byte
	switch c.Fn {
	case "ESDTNFTTransfer":
		if len(c.Args) >= 4 {
			dest = c.Args[3]
		}
	case "MultiESDTNFTTransfer":
		if len(c.Args) >= 1 {
			dest = c.Args[0]
		}
	default:
		return pl
	}
	if w.HomeShard(dest) == shard {
		for _, x := range writes {
			if !bytes.Equal(x.addr, dest) {
				continue
			}
			if len(x.val) > 0 {
				if e, ok := world.DecodeEntry(x.val); ok && e.TokenMetaData != nil {
					pl = append(pl, int64(len(x.val)))
				}
				continue
			}
			// a zero-quantity credit deletes the destination key; the payload copied is the sender's entry with value 0
			if pre != nil {
				if sv, ok := pre.Storage[string(x.key)]; ok {
					if e, ok := world.DecodeEntry(sv); ok && e.TokenMetaData != nil {
						e.Value = big.NewInt(0)
						if b, err := e.Marshal(); err == nil {
							pl = append(pl, int64(len(b)))
						}
					}
				}
			}
		}
		return pl
	}
	for _, m := range r.Emitted {
		if m.Fn != c.Fn {
			continue
		}
		switch m.Fn {
		case "ESDTNFTTransfer":
			if len(m.Args) >= 4 {
				pl = append(pl, int64(len(m.Args[3])))
			}
		case "MultiESDTNFTTransfer":
			if len(m.Args) >= 1 {
				k := world.N(m.Args[0])
				for i := int64(0); i < k && int(3*i+3) < len(m.Args); i++ {
					if world.N(m.Args[3*i+2]) != 0 {
						pl = append(pl, int64(len(m.Args[3*i+3])))
					}
				}
			}
		}
	}
	return pl
}

func (d *Ledger) shardOfName(n string) int { return d.W.HomeShard(d.W.Addr(n)) }

func (d *Ledger) gas() uint64 {
	if d.chance(6) {
		return uint64(d.R.Intn(400))
	}
	return 500000 + uint64(d.R.Intn(1000))
}

func (d *Ledger) call(fn, caller, rcpt string, args ...[]byte) *world.Call {
	c := &world.Call{Fn: fn, Caller: d.W.Addr(caller), Rcpt: d.W.Addr(rcpt), Args: args, Gas: d.gas(), Value: big.NewInt(0)}
	if caller != "esdtsc" && d.R.Intn(25) == 0 {
		c.RAE = true // every call flag combination: a flagged return-after-error on an ordinary call
	}
	if caller != "esdtsc" && fn == "ESDTTransfer" && !c.RAE {
		// ... in particular on a transfer to an account that may not be paid (a refund is no licence to pay it)
		if ri := d.W.Info(rcpt); ri != nil && ri.Shard >= 0 && ri.Shard < len(d.W.Shards) && d.W.Shards[ri.Shard].Oracle.Table[string(ri.Bytes)] == "no" && d.R.Intn(4) == 0 {
			c.RAE = true
		}
	}
	if d.R.Intn(8) == 0 {
		// gas locked for the callback of an asynchronous call: below, around and above the prices in force
		c.GasLocked = []uint64{1, 50, 150, 400, 5000, 1 << 62}[d.R.Intn(6)]
	}
	return c
}

// ---- observation helpers (the driver looks at the real state only to choose interesting inputs)

type holding struct {
	acct  string
	tok   []byte
	nonce uint64
	val   *big.Int
	key   []byte
}

func (d *Ledger) holdings() []holding {
	var hs []holding
	pf := []byte("ELRONDesdt")
	for _, ai := range d.W.Addrs {
		if ai.Shard < 0 || ai.Shard >= len(d.W.Shards) || ai.Kind == "junk" {
			continue
		}
		acc := d.W.Shards[ai.Shard].Peek(ai.Bytes)
		if acc == nil {
			continue
		}
		for _, k := range acc.SortedKeys() {
			if !bytes.HasPrefix([]byte(k), pf) {
				continue
			}
			e, ok := world.DecodeEntry(acc.Storage[k])
			if !ok || e.Value == nil {
				continue
			}
			h := holding{acct: ai.Name, key: []byte(k)[len(pf):], val: e.Value}
			if e.TokenMetaData != nil {
				h.nonce = e.TokenMetaData.Nonce
				nbs := nb(h.nonce)
				if len(h.key) >= len(nbs) {
					h.tok = h.key[:len(h.key)-len(nbs)]
				}
			} else {
				h.tok = h.key
			}
			hs = append(hs, h)
		}
	}
	return hs
}

func (d *Ledger) q(v *big.Int) int64 {
	x := new(big.Int).Quo(v, d.Scale)
	if !x.IsInt64() {
		return 1 << 40
	}
	return x.Int64()
}

func (d *Ledger) anyAcct() string {
	pct := 30
	if d.Profile == "gas" || d.Profile == "payable" {
		pct = 45
	}
	if d.chance(pct) {
		return d.pick(d.SCs)
	}
	return d.pick(d.Users)
}

func (d *Ledger) otherAcct(not string) string {
	for i := 0; i < 20; i++ {
		a := d.anyAcct()
		if a != not {
			return a
		}
	}
	return d.Users[0]
}

// flaggedAccts lists accounts that hold a frozen entry (interesting destinations and senders).
func (d *Ledger) flaggedAccts() []string {
	var r []string
	pf := []byte("ELRONDesdt")
	for _, ai := range d.W.Addrs {
		if ai.Shard < 0 || ai.Shard >= len(d.W.Shards) || ai.Kind == "junk" {
			continue
		}
		acc := d.W.Shards[ai.Shard].Peek(ai.Bytes)
		if acc == nil {
			continue
		}
		for _, k := range acc.SortedKeys() {
			if !bytes.HasPrefix([]byte(k), pf) {
				continue
			}
			if e, ok := world.DecodeEntry(acc.Storage[k]); ok && len(e.Properties) == 2 && e.Properties[0]&1 == 1 {
				r = append(r, ai.Name)
				break
			}
		}
	}
	return r
}

func (d *Ledger) someAmount(have int64) int64 {
	if have > 200 && d.chance(40) {
		// leave or move an amount right at a byte boundary
		c := []int64{have - 255, have - 256, 255, 256, 1, have - 1}[d.R.Intn(6)]
		if c > 0 {
			return c
		}
	}
	switch d.R.Intn(10) {
	case 0:
		return 0
	case 1:
		return have
	case 2:
		return have + 1
	case 3:
		return 1
	}
	if have <= 1 {
		return 1
	}
	return 1 + d.R.Int63n(have)
}

func (d *Ledger) callTail(to string) [][]byte {
	// optional attached call
	pct := 25
	if d.Profile == "gas" || d.Profile == "payable" {
		pct = 45
	}
	if !d.chance(pct) {
		return nil
	}
	t := [][]byte{[]byte("fn" + fmt.Sprint(d.R.Intn(3)))}
	if d.chance(15) {
		// names the call-data grammar can represent but a careless tokenizer / decoder might not keep: white space at either end or
		// alone, hex-looking and upper-case names, punctuation (the name is written raw, not hex-encoded)
		t[0] = []byte([]string{" init", "ping\n", "\t", "ABCD", "0a", "x y", "Fn-1.2", "fn\x00"}[d.R.Intn(8)])
	}
	for i := d.R.Intn(3); i > 0; i-- {
		switch d.R.Intn(3) {
		case 0:
			t = append(t, []byte{})
		case 1:
			t = append(t, []byte{0, 7})
		default:
			t = append(t, []byte("arg"))
		}
	}
	return t
}

func (d *Ledger) callType(caller string) vmcommon.CallType {
	if d.W.Info(caller).Kind == "sc" {
		return vmcommon.CallType(d.R.Intn(4))
	}
	if d.chance(5) {
		return vmcommon.CallType(d.R.Intn(4))
	}
	return vmcommon.DirectCall
}

// ---- actions

func (d *Ledger) actIssue() {
	tok := d.pickTok(d.Fung)
	to := d.anyAcct()
	q := int64(1 + d.R.Intn(6))
	if d.chance(15) {
		q = []int64{254, 255, 256, 65535, 65536}[d.R.Intn(5)] // byte-length boundaries of the amount encoding
	}
	c := d.call("ESDTTransfer", "esdtsc", to, tok, d.amt(q))
	d.record("exec", d.shardOfName(to), c)
}

func (d *Ledger) actSetRole() {
	to := d.anyAcct()
	var tok []byte
	if d.chance(50) {
		tok = d.pickTok(d.Fung)
	} else {
		tok = d.pickTok(d.NFT)
	}
	// discipline: never a role twice, one create-role holder per token
	have := d.believedRoles(to, tok)
	var roles [][]byte
	for _, r := range AllRoles {
		if have[r] || !d.chance(40) {
			continue
		}
		if r == "ESDTRoleNFTCreate" {
			if d.Creator[string(tok)] != "" || d.Pending[string(tok)] {
				continue
			}
			d.Creator[string(tok)] = to
		}
		roles = append(roles, []byte(r))
	}
	if len(roles) == 0 {
		return
	}
	args := append([][]byte{tok}, roles...)
	c := d.call("ESDTSetRole", "esdtsc", to, args...)
	r := d.record("exec", d.shardOfName(to), c)
	if r.Res != "ok" {
		for _, x := range roles {
			if string(x) == "ESDTRoleNFTCreate" {
				delete(d.Creator, string(tok))
			}
		}
	}
}

func (d *Ledger) actUnsetRole() {
	to := d.anyAcct()
	acc := d.P.Acct(d.W.Shards[d.shardOfName(to)].Peek(d.W.Addr(to)))
	toks := make([]string, 0)
	for t := range acc.Roles {
		toks = append(toks, t)
	}
	sort.Strings(toks)
	if len(toks) == 0 {
		return
	}
	th := toks[d.R.Intn(len(toks))]
	var tok []byte
	fmt.Sscanf(th, "%x", &tok)
	rl := acc.Roles[th]
	var rb []byte
	fmt.Sscanf(rl[d.R.Intn(len(rl))], "%x", &rb)
	role := string(rb)
	if d.chance(20) {
		role = d.pick(AllRoles)
	}
	if role == "ESDTRoleNFTCreate" {
		return // discipline: the create role only moves by hand-over
	}
	args := [][]byte{tok, []byte(role)}
	if d.chance(40) {
		// several roles in one call, as stored next to each other
		for i, x := range rl {
			var xb []byte
			fmt.Sscanf(x, "%x", &xb)
			if string(xb) == role && i+1 < len(rl) {
				var nb2 []byte
				fmt.Sscanf(rl[i+1], "%x", &nb2)
				if string(nb2) != "ESDTRoleNFTCreate" {
					args = append(args, nb2)
				}
			}
		}
	}
	c := d.call("ESDTUnSetRole", "esdtsc", to, args...)
	d.record("exec", d.shardOfName(to), c)
}

func (d *Ledger) actTransfer() {
	if d.chance(6) && d.actDrainCleared() {
		return
	}
	hs := d.fungHoldings()
	var from string
	var tok []byte
	var have int64
	if len(hs) > 0 && !d.chance(10) {
		h := hs[d.R.Intn(len(hs))]
		from, tok, have = h.acct, h.tok, d.q(h.val)
	} else {
		from, tok, have = d.anyAcct(), d.anyTok(), 0
	}
	to := d.otherAcct(from)
	if fr := d.flaggedAccts(); len(fr) > 0 && d.chance(30) {
		to = fr[d.R.Intn(len(fr))]
	}
	if d.chance(3) {
		to = from
	}
	if d.chance(3) {
		to = "meta1"
	}
	args := [][]byte{tok, d.amt(d.someAmount(have))}
	args = append(args, d.callTail(to)...)
	c := d.call("ESDTTransfer", from, to, args...)
	c.CT = d.callType(from)
	d.record("exec", d.shardOfName(from), c)
}

func (d *Ledger) anyTok() []byte {
	switch d.R.Intn(4) {
	case 0:
		return d.pickTok(d.Fung)
	case 1:
		return d.pickTok(d.NFT)
	default:
		return d.pickTok(d.Alias)
	}
}

func (d *Ledger) fungHoldings() []holding {
	var r []holding
	for _, h := range d.holdings() {
		if h.nonce == 0 {
			r = append(r, h)
		}
	}
	return r
}

func (d *Ledger) nftHoldings() []holding {
	var r []holding
	for _, h := range d.holdings() {
		if h.nonce != 0 {
			r = append(r, h)
		}
	}
	return r
}

func (d *Ledger) destFor(from string) []byte {
	if d.chance(4) {
		return d.W.Addr([]string{"short31", "long33"}[d.R.Intn(2)]) // an address of another length (it still maps to a shard)
	}
	n := 40
	if d.Profile == "payable" {
		n = 16
	}
	if fr := d.flaggedAccts(); len(fr) > 0 && d.chance(35) {
		if a := fr[d.R.Intn(len(fr))]; a != from {
			return d.W.Addr(a)
		}
	}
	switch d.R.Intn(n) {
	case 0:
		return d.W.Addr(from)
	case 1:
		return d.W.Addr("meta1")
	case 2:
		return d.W.Addr("short31")
	case 3:
		return d.W.Addr("long33")
	}
	return d.W.Addr(d.otherAcct(from))
}

func byteLen(v *big.Int) int { return (v.BitLen() + 7) / 8 }

// atBoundary: one more unit makes the encoded amount one byte longer (255 -> 256, 65535 -> 65536 at scale 1; other points at other scales).
func (d *Ledger) atBoundary(v *big.Int) bool {
	return v.Sign() > 0 && byteLen(new(big.Int).Add(v, d.Scale)) > byteLen(v)
}

// boundaryMerge looks for a sender and a same-shard destination that both hold the same NFT such that one more unit at the destination
// makes its amount one byte longer: the payload that is copied (and charged) grows by a byte.
func (d *Ledger) boundaryMerge() (from, to string, tok []byte, nonce uint64, ok bool) {
	hs := d.nftHoldings()
	for _, a := range hs {
		for _, b := range hs {
			if a.acct == b.acct || !bytes.Equal(a.key, b.key) || d.shardOfName(a.acct) != d.shardOfName(b.acct) {
				continue
			}
			if d.atBoundary(b.val) && a.val.Cmp(d.Scale) >= 0 {
				return a.acct, b.acct, a.tok, a.nonce, true
			}
		}
	}
	return
}

// boundarySetup moves just enough units of a semi-fungible holding to a same-shard user so that the destination ends up one unit below
// a byte-length boundary of the amount encoding (the state boundaryMerge looks for).
func (d *Ledger) boundarySetup() bool {
	for _, h := range d.nftHoldings() {
		have := d.q(h.val)
		if have < 3 || d.W.Info(h.acct).Kind == "junk" {
			continue
		}
		for _, u := range d.Users {
			if u == h.acct || d.shardOfName(u) != d.shardOfName(h.acct) {
				continue
			}
			held := int64(0)
			for _, b := range d.nftHoldings() {
				if b.acct == u && bytes.Equal(b.key, h.key) {
					held = d.q(b.val)
				}
			}
			if held < 0 {
				continue
			}
			// the smallest total m > held (reachable with what the sender has, keeping one unit) that sits just below a boundary
			lim := held + have - 1
			if lim > held+70000 {
				lim = held + 70000
			}
			for m := held + 1; m <= lim; m++ {
				if d.atBoundary(new(big.Int).Mul(big.NewInt(m), d.Scale)) {
					c := d.call("ESDTNFTTransfer", h.acct, h.acct, h.tok, nb(h.nonce), d.amt(m-held), d.W.Addr(u))
					c.RAE = false
					d.T.Stats["boundary-setup"]++
					d.record("exec", d.shardOfName(h.acct), c)
					return true
				}
			}
		}
	}
	return false
}

// divergedPair: two holders of the same (token, nonce) whose stored metadata copies differ (one of them added URIs or updated the
// attributes of its own copy) while the hash is the same: a transfer between them merges into a holding with another copy.
func (d *Ledger) divergedPair() (from, to string, tok []byte, nonce uint64, ok bool) {
	return d.copyPair(false)
}

// copyPair(otherHash): two holders of the same key whose copies have different hashes (the two-creator token) - a credit between them
// must be refused.
func (d *Ledger) copyPair(otherHash bool) (from, to string, tok []byte, nonce uint64, ok bool) {
	hs := d.nftHoldings()
	meta := func(h holding) *esdt.MetaData {
		ai := d.W.Info(h.acct)
		acc := d.W.Shards[ai.Shard].Peek(ai.Bytes)
		if acc == nil {
			return nil
		}
		e, ok := world.DecodeEntry(acc.Storage["ELRONDesdt"+string(h.key)])
		if !ok {
			return nil
		}
		return e.TokenMetaData
	}
	type pr struct{ a, b holding }
	var l []pr
	for _, a := range hs {
		for _, b := range hs {
			if a.acct == b.acct || !bytes.Equal(a.key, b.key) || a.val.Cmp(d.Scale) < 0 {
				continue
			}
			ma, mb := meta(a), meta(b)
			if ma != nil && mb != nil && ((!otherHash && bytes.Equal(ma.Hash, mb.Hash) && !ma.Equal(mb)) || (otherHash && !bytes.Equal(ma.Hash, mb.Hash))) {
				l = append(l, pr{a, b})
			}
		}
	}
	if len(l) == 0 {
		return
	}
	x := l[d.R.Intn(len(l))]
	return x.a.acct, x.b.acct, x.a.tok, x.a.nonce, true
}

func (d *Ledger) actNFTTransfer() {
	if from, to, tok, nonce, ok := d.copyPair(true); ok && d.chance(20) {
		c := d.call("ESDTNFTTransfer", from, from, tok, nb(nonce), d.amt(1), d.W.Addr(to))
		if d.chance(50) {
			c = d.call("MultiESDTNFTTransfer", from, from, d.W.Addr(to), nb(1), tok, nb(nonce), d.amt(1))
		}
		c.RAE = false
		d.T.Stats["other-hash-merge"]++
		d.record("exec", d.shardOfName(from), c)
		return
	}
	if from, to, tok, nonce, ok := d.divergedPair(); ok && d.chance(45) {
		c := d.call("ESDTNFTTransfer", from, from, tok, nb(nonce), d.amt(1), d.W.Addr(to))
		if d.chance(40) {
			c = d.call("MultiESDTNFTTransfer", from, from, d.W.Addr(to), nb(1), tok, nb(nonce), d.amt(1))
		}
		c.RAE = false
		d.T.Stats["diverged-merge"]++
		d.record("exec", d.shardOfName(from), c)
		return
	}
	if from, to, tok, nonce, ok := d.boundaryMerge(); ok && d.chance(50) {
		c := d.call("ESDTNFTTransfer", from, from, tok, nb(nonce), d.amt(1), d.W.Addr(to))
		c.RAE = false
		d.T.Stats["boundary-merge"]++
		d.record("exec", d.shardOfName(from), c)
		return
	}
	if d.chance(12) && d.boundarySetup() {
		return
	}
	hs := d.nftHoldings()
	var from string
	var tok []byte
	var nonce uint64
	var have int64
	if len(hs) > 0 && !d.chance(10) {
		h := hs[d.R.Intn(len(hs))]
		from, tok, nonce, have = h.acct, h.tok, h.nonce, d.q(h.val)
	} else {
		from, tok, nonce, have = d.anyAcct(), d.anyTok(), uint64(d.R.Intn(3)), 0
	}
	if d.chance(8) || (nonce >= 256 && d.chance(25)) {
		// name the same storage key through an aliasing (token, nonce) split
		tok, nonce = d.aliasSplit(tok, nonce)
	}
	dest := d.destFor(from)
	args := [][]byte{tok, nb(nonce), d.amt(d.someAmount(have)), dest}
	if d.chance(7) {
		// the same nonce written with leading zero bytes - one, or so many that the number is longer than eight bytes
		args[1] = append(make([]byte, []int{1, 8, 9, 12}[d.R.Intn(4)]), args[1]...)
	}
	args = append(args, d.callTail("")...)
	c := d.call("ESDTNFTTransfer", from, from, args...)
	c.CT = d.callType(from)
	d.record("exec", d.shardOfName(from), c)
}

// aliasSplit re-splits tok||nonce at another point so that the same storage key is named.
func (d *Ledger) aliasSplit(tok []byte, nonce uint64) ([]byte, uint64) {
	key := append(append([]byte{}, tok...), nb(nonce)...)
	if len(key) == 0 {
		return tok, nonce
	}
	cut := d.R.Intn(len(key) + 1)
	if nbs := nb(nonce); len(nbs) >= 2 && d.chance(60) {
		// a nonce of two or more bytes: split INSIDE the nonce (token id || leading nonce bytes, remaining bytes as the nonce);
		// the stored entry then carries another nonce than the one the call names
		cut = len(tok) + 1 + d.R.Intn(len(nbs)-1)
	}
	rest := key[cut:]
	if len(rest) > 7 || (len(rest) > 0 && rest[0] == 0) {
		return tok, nonce
	}
	return append([]byte{}, key[:cut]...), new(big.Int).SetBytes(rest).Uint64()
}

// actBigMulti: a multi-transfer whose token count crosses a byte boundary (255 / 256 / 257 items of one unit each).
func (d *Ledger) actBigMulti() bool {
	for _, h := range d.fungHoldings() {
		if d.q(h.val) < 300 {
			continue
		}
		k := []int{255, 256, 257}[d.R.Intn(3)]
		dest := d.destFor(h.acct)
		args := [][]byte{dest, nb(uint64(k))}
		one := d.amt(1)
		for i := 0; i < k; i++ {
			args = append(args, h.tok, []byte{}, one)
		}
		c := d.call("MultiESDTNFTTransfer", h.acct, h.acct, args...)
		c.Gas = 5000000
		c.RAE = false
		d.record("exec", d.shardOfName(h.acct), c)
		return true
	}
	return false
}

// clearedEntry: a fungible holding whose entry still carries a (cleared) 2-byte properties field - it was frozen once and un-frozen
// while holding a balance.
func (d *Ledger) clearedEntry() (holding, bool) {
	var l []holding
	for _, h := range d.fungHoldings() {
		ai := d.W.Info(h.acct)
		acc := d.W.Shards[ai.Shard].Peek(ai.Bytes)
		if acc == nil || h.val.Sign() <= 0 {
			continue
		}
		if e, ok := world.DecodeEntry(acc.Storage["ELRONDesdt"+string(h.key)]); ok && len(e.Properties) == 2 && e.Properties[0]&1 == 0 {
			l = append(l, h)
		}
	}
	if len(l) == 0 {
		return holding{}, false
	}
	return l[d.R.Intn(len(l))], true
}

// actDrainCleared: an account that went through a freeze / un-freeze cycle spends its ENTIRE balance, by each of the ways out.
func (d *Ledger) actDrainCleared() bool {
	h, ok := d.clearedEntry()
	if !ok {
		return false
	}
	all := h.val.Bytes()
	var c *world.Call
	switch d.R.Intn(4) {
	case 0:
		c = d.call("ESDTTransfer", h.acct, d.otherAcct(h.acct), h.tok, all)
	case 1:
		c = d.call("ESDTBurn", h.acct, "esdtsc", h.tok, all)
	default:
		c = d.call("MultiESDTNFTTransfer", h.acct, h.acct, d.W.Addr(d.otherAcct(h.acct)), nb(1), h.tok, []byte{}, all)
	}
	c.RAE = false
	d.record("exec", d.shardOfName(h.acct), c)
	return true
}

func (d *Ledger) actMulti() {
	if d.chance(3) && d.actBigMulti() {
		return
	}
	if d.chance(10) && d.actDrainCleared() {
		return
	}
	hs := d.holdings()
	from := d.anyAcct()
	if len(hs) > 0 {
		from = hs[d.R.Intn(len(hs))].acct
	}
	var mine []holding
	for _, h := range hs {
		if h.acct == from {
			mine = append(mine, h)
		}
	}
	k := 1 + d.R.Intn(3)
	dest := d.destFor(from)
	// several DIFFERENT NFT / SFT items in one message (each payload must stay with its own item)
	var nfts []holding
	for _, h := range mine {
		if h.nonce != 0 && d.q(h.val) >= 1 {
			nfts = append(nfts, h)
		}
	}
	if len(nfts) >= 2 && d.chance(35) {
		d.R.Shuffle(len(nfts), func(i, j int) { nfts[i], nfts[j] = nfts[j], nfts[i] })
		if len(nfts) > 3 {
			nfts = nfts[:3]
		}
		args := [][]byte{dest, nb(uint64(len(nfts)))}
		for _, h := range nfts {
			args = append(args, h.tok, nb(h.nonce), d.amt(1))
		}
		c := d.call("MultiESDTNFTTransfer", from, from, args...)
		d.T.Stats["multi-nfts"]++
		d.record("exec", d.shardOfName(from), c)
		return
	}
	args := [][]byte{dest, nb(uint64(k))}
	for i := 0; i < k; i++ {
		if len(mine) > 0 && !d.chance(12) {
			h := mine[d.R.Intn(len(mine))]
			tok, nonce := h.tok, h.nonce
			if d.chance(14) || (nonce >= 256 && d.chance(25)) {
				tok, nonce = d.aliasSplit(tok, nonce)
			}
			nbs := nb(nonce)
			if d.chance(6) {
				nbs = append(make([]byte, []int{1, 8, 9}[d.R.Intn(3)]), nbs...) // leading zero bytes, also beyond eight bytes in all
			}
			args = append(args, tok, nbs, d.amt(d.someAmount(d.q(h.val))))
		} else {
			args = append(args, d.anyTok(), nb(uint64(d.R.Intn(3))), d.amt(int64(d.R.Intn(3))))
		}
	}
	if d.chance(4) {
		args[1] = nb(uint64(k + 1)) // count larger than the items present
	}
	if d.chance(3) {
		args[1] = []byte{}
	}
	args = append(args, d.callTail("")...)
	c := d.call("MultiESDTNFTTransfer", from, from, args...)
	c.CT = d.callType(from)
	d.record("exec", d.shardOfName(from), c)
}

func (d *Ledger) actDeliver() {
	var live []*world.Msg
	for _, m := range d.W.Msgs {
		if !m.Dead {
			live = append(live, m)
		}
	}
	if len(live) == 0 {
		return
	}
	m := live[d.R.Intn(len(live))]
	dup := m.Fn == "ESDTNFTCreateRoleTransfer" && d.chance(25)
	sh, c := d.W.DeliverCall(m)
	fn, args := m.Fn, m.Args
	r := d.recordMid("deliver", sh, c, m.ID, dup)
	if dup {
		// at-least-once delivery = immediate retry
		if r2 := d.recordMid("deliver", sh, c, m.ID, false); r2 != nil {
			r = r2
		}
		dup = false
	}
	if fn == "ESDTNFTCreateRoleTransfer" && !dup && len(args) > 0 {
		delete(d.Pending, string(args[0]))
		if r != nil && r.Res != "ok" {
			delete(d.Creator, string(args[0]))
		} else if holder := d.Creator[string(args[0])]; holder != "" && d.chance(60) {
			// the new holder uses the role at once: it must continue after the highest nonce ever issued
			cc := d.call("ESDTNFTCreate", holder, holder, args[0], d.amt(1), metaNames[0], nb(0), metaHashes[0], metaAttrs[0], metaURIs[0])
			cc.RAE = false
			d.record("exec", d.shardOfName(holder), cc)
		}
	}
}

func (d *Ledger) roleHolder(role string) (string, []byte, bool) {
	type rh struct {
		a string
		t []byte
	}
	var l []rh
	for _, ai := range d.W.Addrs {
		if ai.Shard < 0 || ai.Kind == "junk" {
			continue
		}
		acc := d.P.Acct(d.W.Shards[ai.Shard].Peek(ai.Bytes))
		ks := make([]string, 0)
		for t := range acc.Roles {
			ks = append(ks, t)
		}
		sort.Strings(ks)
		for _, t := range ks {
			for _, r := range acc.Roles[t] {
				if r == fmt.Sprintf("%x", role) {
					var tb []byte
					fmt.Sscanf(t, "%x", &tb)
					l = append(l, rh{ai.Name, tb})
				}
			}
		}
	}
	if len(l) == 0 {
		return "", nil, false
	}
	x := l[d.R.Intn(len(l))]
	return x.a, x.t, true
}

func (d *Ledger) balanceOf(acct string, key []byte) int64 {
	for _, h := range d.holdings() {
		if h.acct == acct && bytes.Equal(h.key, key) {
			return d.q(h.val)
		}
	}
	return 0
}

// wrongRoleHolder finds an account that holds some role for a token but NOT the given one (the caller a role check must refuse
// even though the account is "known" to the token).
func (d *Ledger) wrongRoleHolder(role string) (string, []byte, bool) {
	type rh struct {
		a string
		t []byte
	}
	var l []rh
	want := fmt.Sprintf("%x", role)
	for _, ai := range d.W.Addrs {
		if ai.Shard < 0 || ai.Kind == "junk" {
			continue
		}
		acc := d.P.Acct(d.W.Shards[ai.Shard].Peek(ai.Bytes))
		ks := make([]string, 0)
		for t := range acc.Roles {
			ks = append(ks, t)
		}
		sort.Strings(ks)
		for _, t := range ks {
			has := false
			for _, r := range acc.Roles[t] {
				if r == want {
					has = true
				}
			}
			if !has && len(acc.Roles[t]) > 0 {
				var tb []byte
				fmt.Sscanf(t, "%x", &tb)
				l = append(l, rh{ai.Name, tb})
			}
		}
	}
	if len(l) == 0 {
		return "", nil, false
	}
	x := l[d.R.Intn(len(l))]
	return x.a, x.t, true
}

func (d *Ledger) actMintBurn() {
	mint := d.chance(50)
	role, fn := "ESDTRoleLocalBurn", "ESDTLocalBurn"
	if mint {
		role, fn = "ESDTRoleLocalMint", "ESDTLocalMint"
	}
	a, tok, ok := d.roleHolder(role)
	if !ok || d.chance(10) {
		a, tok = d.anyAcct(), d.pickTok(d.Fung)
	}
	if wa, wt, wok := d.wrongRoleHolder(role); wok && d.chance(15) {
		a, tok = wa, wt // holds another role for this token, not the one this operation needs
	}
	if d.chance(8) {
		tok = d.pickTok(d.Fung) // maybe a token the caller has no role for
	}
	have := d.balanceOf(a, tok)
	c := d.call(fn, a, a, tok, d.amt(d.someAmount(have)))
	d.record("exec", d.shardOfName(a), c)
}

func (d *Ledger) actESDTBurn() {
	hs := d.fungHoldings()
	if len(hs) == 0 {
		return
	}
	h := hs[d.R.Intn(len(hs))]
	if d.chance(35) {
		// a burn sent by a CONTRACT takes its own path through the function (the burn is forwarded to the system contract)
		for _, x := range hs {
			if d.W.Info(x.acct).Kind == "sc" {
				h = x
				break
			}
		}
	}
	c := d.call("ESDTBurn", h.acct, "esdtsc", h.tok, d.amt(d.someAmount(d.q(h.val))))
	if d.W.Info(h.acct).Kind == "sc" && d.chance(40) {
		c.Args[1] = append([]byte{0, 0}, c.Args[1]...) // non-minimal encoding of the amount
	}
	if d.chance(5) {
		c.Rcpt = d.W.Addr(d.otherAcct(h.acct))
	}
	d.record("exec", d.shardOfName(h.acct), c)
}

var metaNames = [][]byte{[]byte("name"), {}, bytes.Repeat([]byte("n"), 300)}
var metaHashes = [][]byte{[]byte("h1"), []byte("h2"), {}, bytes.Repeat([]byte{0xab}, 32)}
var metaAttrs = [][]byte{[]byte("attr"), {}, bytes.Repeat([]byte("A"), 300), []byte("x")}
var metaURIs = [][]byte{[]byte("uri1"), []byte("u"), bytes.Repeat([]byte("U"), 300), {}}

func (d *Ledger) actCreate() {
	a, tok, ok := d.roleHolder("ESDTRoleNFTCreate")
	if !ok || d.chance(8) {
		a, tok = d.anyAcct(), d.pickTok(d.NFT)
	}
	if wa, wt, wok := d.wrongRoleHolder("ESDTRoleNFTCreate"); wok && d.chance(6) {
		a, tok = wa, wt
	}
	qty := int64(1)
	if d.chance(50) {
		qty = int64(d.R.Intn(5))
	}
	if d.chance(10) || (d.Profile == "gas" && d.chance(25)) {
		qty = []int64{255, 256, 257, 300, 65535}[d.R.Intn(5)]
	}
	// royalties: the boundaries, values that only fit after narrowing to 32 bits, and numbers wider than 64 bits whose low bits are
	// below / above the bound (whatever the narrowing rule is, what gets STORED must not exceed 10000), zero-padded encodings
	roy := [][]byte{nb(0), nb(10000), nb(10001), nb(2500), nb(1<<32 + 1), nb(7), nb(1<<32 + 10001), {0, 0, 0x27, 0x10},
		{1, 0, 0, 0, 0, 0, 0, 0, 5}, {1, 0, 0, 0, 0, 0, 0, 0x27, 0x11}, {1, 0, 0, 0, 0, 0, 0, 0, 0xff, 0xff}, {0x27, 0x11, 0, 0, 0, 0, 0, 0, 0, 1}}[d.R.Intn(12)]
	args := [][]byte{tok, d.amt(qty), metaNames[d.R.Intn(3)], roy, metaHashes[d.R.Intn(4)], metaAttrs[d.R.Intn(4)]}
	for i := d.R.Intn(3) + 1; i > 0; i-- {
		args = append(args, metaURIs[d.R.Intn(4)])
	}
	if d.chance(4) {
		args = args[:6]
	}
	c := d.call("ESDTNFTCreate", a, a, args...)
	d.record("exec", d.shardOfName(a), c)
}

// actDiverge makes two holders' copies of one semi-fungible token differ: a holder with at least two units gives one away and then
// adds a URI to (or updates the attributes of) the copy it keeps; the role is granted first if nobody may.
func (d *Ledger) actDiverge() bool {
	for _, h := range d.nftHoldings() {
		if d.q(h.val) < 2 || bytes.Equal(h.tok, d.Dup) || d.W.Info(h.acct).Kind == "junk" {
			continue
		}
		if !d.chance(50) {
			continue
		}
		b := d.otherAcct(h.acct)
		if d.W.Info(b).Kind != "user" {
			continue
		}
		acc := d.P.Acct(d.W.Shards[d.shardOfName(h.acct)].Peek(d.W.Addr(h.acct)))
		role, fn := "ESDTRoleNFTAddURI", "ESDTNFTAddURI"
		if d.chance(50) {
			role, fn = "ESDTRoleNFTUpdateAttributes", "ESDTNFTUpdateAttributes"
		}
		has := false
		for _, r := range acc.Roles[fmt.Sprintf("%x", h.tok)] {
			if r == fmt.Sprintf("%x", role) {
				has = true
			}
		}
		if !has {
			c := d.call("ESDTSetRole", "esdtsc", h.acct, h.tok, []byte(role))
			c.Gas = 600000
			if r := d.record("exec", d.shardOfName(h.acct), c); r.Res != "ok" {
				return true
			}
		}
		t := d.call("ESDTNFTTransfer", h.acct, h.acct, h.tok, nb(h.nonce), d.amt(1), d.W.Addr(b))
		t.RAE, t.Gas = false, 600000
		d.record("exec", d.shardOfName(h.acct), t)
		var c *world.Call
		if fn == "ESDTNFTAddURI" {
			c = d.call(fn, h.acct, h.acct, h.tok, nb(h.nonce), []byte("uri-late"))
		} else {
			c = d.call(fn, h.acct, h.acct, h.tok, nb(h.nonce), []byte("attr-late"))
		}
		c.RAE, c.Gas = false, 600000
		d.record("exec", d.shardOfName(h.acct), c)
		d.T.Stats["diverge"]++
		return true
	}
	return false
}

func (d *Ledger) actNFTRoleOp() {
	if d.chance(25) && d.actDiverge() {
		return
	}
	fns := []string{"ESDTNFTAddQuantity", "ESDTNFTBurn", "ESDTNFTAddURI", "ESDTNFTUpdateAttributes"}
	roles := []string{"ESDTRoleNFTAddQuantity", "ESDTRoleNFTBurn", "ESDTRoleNFTAddURI", "ESDTRoleNFTUpdateAttributes"}
	i := d.R.Intn(4)
	a, tok, ok := d.roleHolder(roles[i])
	if !ok || d.chance(10) {
		hs := d.nftHoldings()
		if len(hs) == 0 {
			return
		}
		h := hs[d.R.Intn(len(hs))]
		a, tok = h.acct, h.tok
	}
	if wa, wt, wok := d.wrongRoleHolder(roles[i]); wok && d.chance(15) {
		a, tok = wa, wt
	}
	nonce := uint64(1 + d.R.Intn(3))
	have := int64(0)
	all := d.nftHoldings()
	for _, h := range all {
		if h.acct == a && bytes.Equal(h.tok, tok) {
			nonce, have = h.nonce, d.q(h.val)
			shared := false
			for _, o := range all {
				if o.acct != a && bytes.Equal(o.key, h.key) {
					shared = true // somebody else holds a copy of this one: changing ours makes the copies diverge
				}
			}
			if d.chance(60) || (shared && d.chance(80)) {
				break
			}
		}
	}
	if d.chance(5) {
		nonce = 0
	}
	var args [][]byte
	switch i {
	case 0, 1:
		args = [][]byte{tok, nb(nonce), d.amt(d.someAmount(have))}
	case 2:
		args = [][]byte{tok, nb(nonce), metaURIs[d.R.Intn(4)]}
		if d.chance(40) {
			args = append(args, metaURIs[d.R.Intn(4)])
		}
	default:
		args = [][]byte{tok, nb(nonce), metaAttrs[d.R.Intn(4)]}
		if d.chance(5) {
			args = append(args, []byte("extra"))
		}
	}
	c := d.call(fns[i], a, a, args...)
	d.record("exec", d.shardOfName(a), c)
}

func (d *Ledger) actFreeze() {
	fn := []string{"ESDTFreeze", "ESDTUnFreeze", "ESDTWipe", "ESDTFreeze", "ESDTUnFreeze"}[d.R.Intn(5)]
	a := d.anyAcct()
	tok := d.pickTok(d.Fung)
	if hs := d.fungHoldings(); len(hs) > 0 && d.chance(70) {
		h := hs[d.R.Intn(len(hs))]
		a, tok = h.acct, h.tok
	}
	if d.chance(10) {
		tok = d.pickTok(d.NFT)
	}
	if hs := d.nftHoldings(); len(hs) > 0 && d.chance(12) {
		// the system contract freezes ONE NFT / SFT holding: the key argument is token id || nonce bytes; the entry keeps its metadata
		h := hs[d.R.Intn(len(hs))]
		a, tok = h.acct, append(append([]byte{}, h.tok...), nb(h.nonce)...)
		if fn == "ESDTWipe" {
			fn = "ESDTFreeze"
		}
	}
	if fa, ft, ok := d.frozenEntry(); ok && fn == "ESDTUnFreeze" && d.chance(60) {
		a, tok = fa, ft // un-freeze somebody who is frozen (the cleared flag bytes stay in the entry)
	}
	caller := "esdtsc"
	if d.chance(6) {
		caller = d.anyAcct()
	}
	c := d.call(fn, caller, a, tok)
	sh := d.shardOfName(a)
	d.record("exec", sh, c)
}

func (d *Ledger) actPause() {
	fn := []string{"ESDTPause", "ESDTUnPause"}[d.R.Intn(2)]
	var tok []byte
	if d.chance(50) {
		tok = d.pickTok(d.Fung)
	} else {
		tok = d.pickTok(d.NFT)
	}
	sh := d.R.Intn(d.W.Cfg.NShards)
	caller := d.W.Addr("esdtsc")
	if d.chance(6) {
		caller = d.W.Addr(d.anyAcct())
	}
	rc := world.SysAddr
	if d.chance(25) {
		rc = d.W.Addr("sysv") // another address with the system-account prefix: the flag still belongs to THE system account of the shard
	}
	c := &world.Call{Fn: fn, Caller: caller, Rcpt: rc, Args: [][]byte{tok}, Gas: d.gas(), Value: big.NewInt(0)}
	d.record("exec", sh, c)
}

func (d *Ledger) actHandover() {
	if d.XRHolder != "" && d.Creator[string(d.XR)] == "" && !d.Pending[string(d.XR)] && d.chance(30) {
		// hand-over from an account that has roles for the token but not the create role
		next := d.otherAcct(d.XRHolder)
		c := d.call("ESDTNFTCreateRoleTransfer", "esdtsc", d.XRHolder, d.XR, d.W.Addr(next))
		if r := d.record("exec", d.shardOfName(d.XRHolder), c); r.Res == "ok" {
			d.Creator[string(d.XR)] = next
			if d.shardOfName(next) != d.shardOfName(d.XRHolder) {
				d.Pending[string(d.XR)] = true
			}
		}
		return
	}
	var toks []string
	for t := range d.Creator {
		if !d.Pending[t] {
			toks = append(toks, t)
		}
	}
	sort.Strings(toks)
	if len(toks) == 0 {
		return
	}
	t := toks[d.R.Intn(len(toks))]
	holder := d.Creator[t]
	next := d.otherAcct(holder)
	caller := "esdtsc"
	c := d.call("ESDTNFTCreateRoleTransfer", caller, holder, []byte(t), d.W.Addr(next))
	r := d.record("exec", d.shardOfName(holder), c)
	if r.Res == "ok" {
		d.Creator[t] = next
		if d.shardOfName(next) != d.shardOfName(holder) {
			d.Pending[t] = true
		}
	}
}

// frozenEntry returns an account with a frozen fungible entry and that token.
func (d *Ledger) frozenEntry() (string, []byte, bool) {
	pf := []byte("ELRONDesdt")
	type fe struct {
		a string
		t []byte
	}
	var l []fe
	for _, ai := range d.W.Addrs {
		if ai.Shard < 0 || ai.Shard >= len(d.W.Shards) || ai.Kind != "user" {
			continue
		}
		acc := d.W.Shards[ai.Shard].Peek(ai.Bytes)
		if acc == nil {
			continue
		}
		for _, k := range acc.SortedKeys() {
			if !bytes.HasPrefix([]byte(k), pf) {
				continue
			}
			if e, ok := world.DecodeEntry(acc.Storage[k]); ok && len(e.Properties) == 2 && e.Properties[0]&1 == 1 {
				l = append(l, fe{ai.Name, []byte(k)[len(pf):]})
			}
		}
	}
	if len(l) == 0 {
		return "", nil, false
	}
	x := l[d.R.Intn(len(l))]
	return x.a, x.t, true
}

func (d *Ledger) actKV() {
	a := d.anyAcct()
	// a holder of a frozen entry tries to rewrite that very entry (balance without the flag), as the first or a later pair
	if fa, ft, ok := d.frozenEntry(); ok && d.chance(30) {
		ent, _ := (&esdt.ESDigitalToken{Value: new(big.Int).Mul(big.NewInt(777), d.Scale)}).Marshal()
		args := [][]byte{[]byte("k1"), []byte("v"), []byte("key2"), []byte("w")}
		fk := append([]byte("ELRONDesdt"), ft...)
		switch d.R.Intn(3) {
		case 0:
			args = append([][]byte{fk, ent}, args...)
		case 1:
			args = append(args[:2:2], append([][]byte{fk, ent}, args[2:]...)...)
		default:
			args = append(args, fk, ent)
		}
		c := d.call("SaveKeyValue", fa, fa, args...)
		c.RAE = false
		d.record("exec", d.shardOfName(fa), c)
		return
	}
	// a pure no-op: the account saves again exactly what it already stores (nothing changes, gas is still charged per byte)
	if d.chance(25) {
		ai := d.W.Info(a)
		if acc := d.W.Shards[ai.Shard].Peek(ai.Bytes); acc != nil && ai.Kind == "user" {
			var args [][]byte
			for _, k := range acc.SortedKeys() {
				if !bytes.HasPrefix([]byte(k), []byte("ELROND")) && len(args) < 6 {
					args = append(args, []byte(k), append([]byte(nil), acc.Storage[k]...))
				}
			}
			if len(args) > 0 {
				c := d.call("SaveKeyValue", a, a, args...)
				c.RAE = false
				d.T.Stats["kv-noop"]++
				d.record("exec", d.shardOfName(a), c)
				return
			}
		}
	}
	keys := [][]byte{[]byte("k1"), []byte("key2"), []byte("ELROND"), []byte("ELRONDesdtF1"), []byte("ELRON"), []byte("elrondx"), []byte("ELRONDroleesdtN"), []byte("ELRONDnonceN"), {}, []byte("EL"), []byte("ELROND!")}
	forged, _ := (&esdt.ESDigitalToken{Value: new(big.Int).Mul(big.NewInt(1000), d.Scale)}).Marshal()
	forgedRoles, _ := (&esdt.ESDTRoles{Roles: [][]byte{[]byte("ESDTRoleLocalMint"), []byte("ESDTRoleNFTCreate")}}).Marshal()
	vals := [][]byte{[]byte("v"), {}, []byte("value-2"), bytes.Repeat([]byte("z"), 40), forged, forgedRoles}
	n := 1 + d.R.Intn(3)
	var args [][]byte
	for i := 0; i < n; i++ {
		k := keys[d.R.Intn(2)]
		if d.chance(25) || (i > 0 && d.chance(30)) {
			k = keys[d.R.Intn(len(keys))] // protected keys also in the later pairs
		}
		args = append(args, k, vals[d.R.Intn(len(vals))])
	}
	if d.chance(25) {
		// a forged protocol entry (a role list, a balance) under a protected key, first or - more often - in a later pair
		var fk, fv []byte
		if d.chance(50) {
			fk, fv = append([]byte("ELRONDroleesdt"), d.pickTok(append(append([][]byte{}, d.Fung...), d.NFT...))...), forgedRoles
		} else {
			fk, fv = append([]byte("ELRONDesdt"), d.pickTok(d.Fung)...), forged
		}
		if d.chance(25) {
			args = append([][]byte{fk, fv}, args...)
		} else {
			args = append(args, fk, fv)
		}
	}
	if d.chance(5) {
		args = args[:len(args)-1]
	}
	rc := a
	if d.chance(8) {
		rc = d.otherAcct(a)
	}
	c := d.call("SaveKeyValue", a, rc, args...)
	if d.chance(15) {
		c.Gas = uint64(d.R.Intn(3000))
	}
	d.record("exec", d.shardOfName(a), c)
}

func (d *Ledger) actAccountLevel() {
	k := d.R.Intn(3)
	if d.Profile == "acctlevel" && d.chance(50) {
		k = 2
	}
	switch k {
	case 0:
		sc := d.pick(d.SCs)
		if d.chance(12) {
			sc = d.pick(d.Users) // an account without an owner: nobody is entitled
		}
		caller := d.ownerOf(sc)
		if caller == "" || d.chance(20) {
			caller = d.anyAcct()
		}
		newOwner := d.W.Addr(d.pick(d.Users))
		if d.chance(8) {
			newOwner = d.W.Addr("short31")
		}
		c := d.call("ChangeOwnerAddress", caller, sc, newOwner)
		d.record("exec", d.shardOfName(caller), c)
	case 1:
		sc := d.pick(d.SCs)
		if d.chance(8) {
			sc = d.pick(d.Users)
		}
		caller := d.ownerOf(sc)
		if caller == "" || d.chance(20) {
			caller = d.anyAcct()
		}
		c := d.call("ClaimDeveloperRewards", caller, sc)
		if (d.W.Info(caller).Kind == "sc" && d.chance(50)) || d.chance(35) {
			c.CT = vmcommon.AsynchronousCall
			if d.chance(60) {
				c.GasLocked = []uint64{50, 150, 400, 5000}[d.R.Intn(4)] // the callback's locked gas: below and above the claim's price
			}
		}
		d.record("exec", d.shardOfName(caller), c)
	default:
		dns := d.pick(d.DNS)
		if d.chance(10) {
			dns = d.anyAcct()
		}
		u := d.pick(d.Users)
		args := [][]byte{[]byte("name" + fmt.Sprint(d.R.Intn(3)))}
		if d.chance(5) {
			args = append(args, []byte("x"))
		}
		c := d.call("SetUserName", dns, u, args...)
		d.record("exec", d.shardOfName(dns), c)
	}
}

func (d *Ledger) ownerOf(sc string) string {
	ai := d.W.Info(sc)
	acc := d.W.Shards[ai.Shard].Peek(ai.Bytes)
	if acc == nil || len(acc.Owner) == 0 {
		return ""
	}
	n := d.W.NameOf(acc.Owner)
	if d.W.Info(n) == nil || d.W.Info(n).Shard < 0 {
		return ""
	}
	return n
}

// actRogue: a well-formed privileged operation attempted by an unprivileged caller (user or contract on its own shard).
func (d *Ledger) actRogue() {
	caller := d.anyAcct()
	target := caller
	if d.chance(50) {
		// another account on the same shard
		for i := 0; i < 10; i++ {
			o := d.otherAcct(caller)
			if d.shardOfName(o) == d.shardOfName(caller) {
				target = o
				break
			}
		}
	}
	var tok []byte
	if d.chance(50) {
		tok = d.pickTok(d.Fung)
	} else {
		tok = d.pickTok(d.NFT)
	}
	var c *world.Call
	switch d.R.Intn(11) {
	case 0:
		c = d.call("ESDTNFTCreateRoleTransfer", caller, target, tok, nb(uint64(d.R.Intn(3))))
	case 1:
		c = d.call("ESDTNFTCreateRoleTransfer", caller, target, tok, d.W.Addr(d.otherAcct(target)))
	case 2:
		c = d.call("ESDTSetRole", caller, target, tok, []byte(d.pick(AllRoles)))
	case 3:
		c = d.call("ESDTUnSetRole", caller, target, tok, []byte(d.pick(AllRoles)))
	case 4:
		c = d.call([]string{"ESDTFreeze", "ESDTUnFreeze", "ESDTWipe"}[d.R.Intn(3)], caller, target, tok)
	case 5:
		c = &world.Call{Fn: []string{"ESDTPause", "ESDTUnPause"}[d.R.Intn(2)], Caller: d.W.Addr(caller), Rcpt: world.SysAddr, Args: [][]byte{tok}, Gas: d.gas(), Value: big.NewInt(0)}
	case 6:
		c = d.call("ESDTTransfer", caller, target, tok, d.amt(1)) // nothing privileged: a transfer of a token the caller may not hold
		c.CT = vmcommon.CallType(d.R.Intn(4))
	case 7:
		c = d.call("SetUserName", caller, d.pick(d.Users), []byte("rogue"))
	default:
		// a self-made payload handed to the destination-side form of the NFT transfer functions (nobody is debited)
		ntok := d.pickTok(d.NFT)
		e := &esdt.ESDigitalToken{Type: 1, Value: new(big.Int).Mul(big.NewInt(5), d.Scale), TokenMetaData: &esdt.MetaData{Nonce: 1, Name: []byte("fake"), Hash: metaHashes[d.R.Intn(4)], URIs: [][]byte{[]byte("u")}}}
		for _, h := range d.nftHoldings() {
			if d.chance(50) {
				if acc := d.W.Shards[d.shardOfName(h.acct)].Peek(d.W.Addr(h.acct)); acc != nil {
					if ee, ok := world.DecodeEntry(acc.Storage["ELRONDesdt"+string(h.key)]); ok && ee.TokenMetaData != nil {
						ee.Value = new(big.Int).Mul(big.NewInt(5), d.Scale)
						e, ntok = ee, h.tok
						break
					}
				}
			}
		}
		pb, _ := e.Marshal()
		if d.chance(50) {
			c = d.call("ESDTNFTTransfer", caller, target, ntok, nb(e.TokenMetaData.Nonce), d.amt(5), pb)
		} else {
			c = d.call("MultiESDTNFTTransfer", caller, target, nb(1), ntok, nb(e.TokenMetaData.Nonce), pb)
		}
		c.CT = vmcommon.CallType(d.R.Intn(4))
		if d.chance(50) {
			c.CT = vmcommon.AsynchronousCallBack
		}
		if target == caller {
			c.Rcpt = d.W.Addr(d.otherAcct(caller))
		}
	}
	d.record("exec", d.shardOfName(caller), c)
}

// actForged: an ESDTTransfer arriving on the destination side without being one of the world's own messages (the node hands no sender
// account): to ordinary accounts, and to the metachain contract on the metachain shard, where it must be refused.
// nonPayable lists the accounts the oracle of their own shard currently reports as not payable.
func (d *Ledger) nonPayable() []string {
	var l []string
	for _, ai := range d.W.Addrs {
		if ai.Shard < 0 || ai.Shard >= len(d.W.Shards) || ai.Kind == "junk" {
			continue
		}
		if d.W.Shards[ai.Shard].Oracle.Table[string(ai.Bytes)] == "no" {
			l = append(l, ai.Name)
		}
	}
	return l
}

func (d *Ledger) actForged() {
	if d.chance(35) {
		d.actForgedLocal()
		return
	}
	rcpt := d.anyAcct()
	plain := false
	if np := d.nonPayable(); len(np) > 0 && d.chance(35) {
		rcpt, plain = np[d.R.Intn(len(np))], true // a plain incoming transfer to an account that may not be paid
	} else if d.chance(40) {
		rcpt = "meta1"
	}
	home := d.shardOfName(rcpt)
	var caller string
	for i := 0; i < 20; i++ {
		caller = d.anyAcct()
		if d.shardOfName(caller) != home {
			break
		}
		caller = ""
	}
	if rcpt != "meta1" && d.chance(20) {
		caller = "meta1" // a metachain contract other than the ESDT system contract: no exemption from the payability query
	}
	if caller == "" {
		return // single-shard world and an ordinary recipient: there is no "other shard"
	}
	args := [][]byte{d.pickTok(d.Fung), d.amt(int64(1 + d.R.Intn(3)))}
	ct := vmcommon.CallType(d.R.Intn(4))
	if d.W.Info(rcpt).Kind == "sc" && d.chance(60) {
		args = append(args, []byte("fn1"), []byte{1})
		if d.chance(50) {
			ct = vmcommon.AsynchronousCallBack
		}
	} else if d.chance(20) {
		args = append(args, []byte("fn1"), []byte{1})
	}
	if plain && d.chance(70) {
		args, ct = args[:2], vmcommon.DirectCall
	}
	c := &world.Call{Fn: "ESDTTransfer", Caller: d.W.Addr(caller), Rcpt: d.W.Addr(rcpt), Args: args, Gas: d.gas(), Value: big.NewInt(0), CT: ct}
	if plain && d.chance(25) {
		c.RAE = true
	}
	d.record("exec", home, c)
}

func (d *Ledger) actOracle() {
	a := d.anyAcct()
	v := []string{"yes", "no", "err", "yes"}[d.R.Intn(4)]
	d.setOracle(a, v)
}

func (d *Ledger) actMalformed() {
	fns := []string{"ESDTTransfer", "ESDTNFTTransfer", "MultiESDTNFTTransfer", "ESDTLocalMint", "ESDTLocalBurn", "ESDTBurn", "ESDTNFTCreate", "ESDTNFTAddQuantity",
		"ESDTNFTBurn", "ESDTNFTAddURI", "ESDTNFTUpdateAttributes", "ESDTFreeze", "ESDTPause", "ESDTSetRole", "ESDTNFTCreateRoleTransfer", "SaveKeyValue",
		"ChangeOwnerAddress", "ClaimDeveloperRewards", "SetUserName", "ESDTWipe", "ESDTUnSetRole"}
	fn := d.pick(fns)
	a := d.anyAcct()
	n := d.R.Intn(5)
	var args [][]byte
	for i := 0; i < n; i++ {
		switch d.R.Intn(5) {
		case 0:
			args = append(args, d.anyTok())
		case 1:
			args = append(args, d.amt(int64(d.R.Intn(3))))
		case 2:
			args = append(args, nb(uint64(d.R.Intn(3))))
		case 3:
			args = append(args, d.W.Addr(d.anyAcct()))
		default:
			args = append(args, []byte{})
		}
	}
	rc := a
	if d.chance(40) {
		rc = d.otherAcct(a)
	}
	c := d.call(fn, a, rc, args...)
	if d.chance(15) {
		c.Value = new(big.Int).Mul(big.NewInt(1), d.Scale)
	}
	d.record("exec", d.shardOfName(a), c)
}

// Setup issues tokens, grants roles and creates a few NFTs through the real functions.
func (d *Ledger) Setup() {
	sweep := d.GasSweep
	d.GasSweep = false
	defer func() { d.GasSweep = sweep }()
	for i := 0; i < 4; i++ {
		d.actIssue()
	}
	for i := 0; i < 5; i++ {
		d.actSetRole()
	}
	// make sure each NFT token has a creator with add-quantity rights
	for i, t := range d.NFT {
		if d.Creator[string(t)] == "" {
			to := d.Users[(i*3+d.TraceNo)%len(d.Users)]
			c := d.call("ESDTSetRole", "esdtsc", to, t, []byte("ESDTRoleNFTCreate"), []byte("ESDTRoleNFTAddQuantity"))
			acc := d.P.Acct(d.W.Shards[d.shardOfName(to)].Peek(d.W.Addr(to)))
			if len(acc.Roles[fmt.Sprintf("%x", t)]) == 0 {
				if r := d.record("exec", d.shardOfName(to), c); r.Res == "ok" {
					d.Creator[string(t)] = to
				}
			}
		}
	}
	for i := 0; i < 4; i++ {
		d.actCreate()
	}
	// the two-creator token: both creators mint nonce 1 (and maybe 2) with different hashes
	d.DupCreators = []string{d.Users[0], d.Users[len(d.Users)-1]}
	for i, u := range d.DupCreators {
		c := d.call("ESDTSetRole", "esdtsc", u, d.Dup, []byte("ESDTRoleNFTCreate"), []byte("ESDTRoleNFTAddQuantity"))
		c.Gas = 600000
		d.record("exec", d.shardOfName(u), c)
		for k := 0; k < 1+i; k++ {
			hash := []byte(fmt.Sprintf("hash-%d", i))
			if i == 0 && d.TraceNo%2 == 0 {
				hash = []byte{} // "created with an empty hash" is not "does not hold the token"
			}
			cc := d.call("ESDTNFTCreate", u, u, d.Dup, d.amt(3), []byte("dup"), nb(5), hash, []byte("a"), []byte("u"))
			cc.Gas = 600000
			d.record("exec", d.shardOfName(u), cc)
		}
	}
	// a role the account already holds is set again (outside the "never a role twice" discipline, on the exempt token only)
	{
		u := d.DupCreators[0]
		c := d.call("ESDTSetRole", "esdtsc", u, d.Dup, []byte("ESDTRoleNFTAddQuantity"), []byte("ESDTRoleNFTBurn"))
		c.Gas = 600000
		d.record("exec", d.shardOfName(u), c)
	}
	// a third NFT token nobody may create yet: one account holds only its burn role; a hand-over "from" that account (it never held the
	// create role) is how the create role gets assigned later
	{
		u := d.Users[(d.TraceNo+2)%len(d.Users)]
		c := d.call("ESDTSetRole", "esdtsc", u, d.XR, []byte("ESDTRoleNFTBurn"))
		c.Gas = 600000
		if r := d.record("exec", d.shardOfName(u), c); r.Res == "ok" {
			d.XRHolder = u
		}
	}
	// no further creates of the two-creator token (a creator holding the other's same-nonce copy would overwrite it)
	for _, u := range d.DupCreators {
		c := d.call("ESDTUnSetRole", "esdtsc", u, d.Dup, []byte("ESDTRoleNFTCreate"))
		c.Gas = 600000
		d.record("exec", d.shardOfName(u), c)
	}
}

// DefaultWeights returns the action mix of a profile.
func DefaultWeights(profile string) map[string]int {
	w := map[string]int{"issue": 4, "setrole": 5, "unsetrole": 2, "transfer": 14, "nft": 12, "multi": 12, "deliver": 18, "mintburn": 8, "esdtburn": 3,
		"create": 7, "nftrole": 8, "freeze": 6, "pause": 4, "handover": 3, "kv": 4, "acct": 4, "oracle": 2, "malformed": 5, "sched": 0, "epoch": 1, "rogue": 4, "forged": 2}
	switch profile {
	case "transfer":
		w["transfer"], w["nft"], w["multi"], w["deliver"] = 20, 20, 20, 25
	case "supply":
		w["rogue"] = 8
		w["mintburn"], w["create"], w["nftrole"], w["esdtburn"], w["freeze"] = 20, 12, 16, 8, 10
	case "roles":
		w["rogue"], w["kv"] = 12, 8
		w["setrole"], w["unsetrole"], w["mintburn"], w["create"], w["nftrole"], w["handover"], w["acct"] = 10, 8, 14, 10, 16, 6, 10
	case "freeze":
		w["freeze"], w["pause"] = 16, 12
	case "acctlevel":
		w["acct"], w["deliver"], w["rogue"] = 60, 30, 6
	case "kv":
		w["kv"], w["acct"] = 30, 10
	case "nonce":
		w["create"], w["handover"], w["deliver"], w["nftrole"] = 20, 10, 20, 6
	case "meta":
		w["create"], w["nft"], w["multi"], w["nftrole"], w["deliver"] = 10, 22, 18, 14, 22
	case "gas":
		w["forged"], w["epoch"] = 8, 3
		w["sched"], w["kv"], w["create"], w["nftrole"], w["nft"], w["multi"], w["acct"], w["transfer"] = 6, 10, 12, 12, 18, 20, 8, 16
	case "payable":
		w["forged"] = 8
		w["oracle"], w["transfer"], w["nft"], w["multi"], w["deliver"] = 8, 18, 18, 18, 22
	}
	return w
}

// Step performs one random action.
func (d *Ledger) Step() {
	if d.Weights == nil {
		d.Weights = DefaultWeights(d.Profile)
	}
	names := make([]string, 0, len(d.Weights))
	tot := 0
	for k, v := range d.Weights {
		names = append(names, k)
		tot += v
	}
	sort.Strings(names)
	x := d.R.Intn(tot)
	var act string
	for _, k := range names {
		if x < d.Weights[k] {
			act = k
			break
		}
		x -= d.Weights[k]
	}
	switch act {
	case "issue":
		d.actIssue()
	case "setrole":
		d.actSetRole()
	case "unsetrole":
		d.actUnsetRole()
	case "transfer":
		d.actTransfer()
	case "nft":
		d.actNFTTransfer()
	case "multi":
		d.actMulti()
	case "deliver":
		d.actDeliver()
	case "mintburn":
		d.actMintBurn()
	case "esdtburn":
		d.actESDTBurn()
	case "create":
		d.actCreate()
	case "nftrole":
		d.actNFTRoleOp()
	case "freeze":
		d.actFreeze()
	case "pause":
		d.actPause()
	case "handover":
		d.actHandover()
	case "kv":
		d.actKV()
	case "acct":
		d.actAccountLevel()
	case "oracle":
		d.actOracle()
	case "malformed":
		d.actMalformed()
	case "rogue":
		d.actRogue()
	case "forged":
		d.actForged()
	case "sched":
		d.actSched()
	case "epoch":
		d.setEpoch(uint32(d.R.Intn(3)))
	}
}

// Drain delivers everything still in flight (bounded).
func (d *Ledger) Drain() {
	for i := 0; i < 50; i++ {
		live := 0
		for _, m := range d.W.Msgs {
			if !m.Dead {
				live++
			}
		}
		if live == 0 {
			return
		}
		d.actDeliver()
	}
}

// schedOK is the harness's own acceptance rule: every one of the 22 entries present and non-zero.
func schedOK(g map[string]map[string]uint64) bool {
	std := world.StdGas(0)
	for sec, m := range std {
		for k := range m {
			if g[sec] == nil || g[sec][k] == 0 {
				return false
			}
		}
	}
	return true
}

func (d *Ledger) setSched(g map[string]map[string]uint64) {
	ok := schedOK(g)
	d.W.Reprice(g)
	if ok {
		d.W.Sched = world.CloneGas(g)
	}
	ev := world.AEvent{A: "sched", SchOK: ok, Res: "ok"}
	d.T.Write(&world.ALine{Ev: ev, W: d.P.World()}, map[string]interface{}{"kind": "sched", "sched": g})
}

func (d *Ledger) setEpoch(e uint32) {
	d.W.ConfirmEpoch(e)
	ev := world.AEvent{A: "epoch", Res: "ok"}
	d.T.Write(&world.ALine{Ev: ev, W: d.P.World()}, map[string]interface{}{"kind": "epoch", "epoch": e})
}


// actSched offers a schedule: valid ones (pairwise distinct primes) and invalid ones (a zero or missing entry).
func (d *Ledger) actSched() {
	g := world.StdGas(d.R.Intn(2))
	if d.chance(35) {
		// a change confined to ONE section of the schedule in force (the other section keeps every value)
		g = world.CloneGas(d.W.Sched)
		sec := []string{"BuiltInCost", "BaseOperationCost"}[d.R.Intn(2)]
		bump := uint64(1 + d.R.Intn(5))
		for k := range g[sec] {
			g[sec][k] += bump * uint64(1+len(k)%3)
		}
		d.setSched(g)
		return
	}
	if d.chance(40) {
		// permute the valid schedule so that every field gets a different value than before
		vals := []uint64{}
		for _, sec := range []string{"BuiltInCost", "BaseOperationCost"} {
			ks := make([]string, 0)
			for k := range g[sec] {
				ks = append(ks, k)
			}
			sort.Strings(ks)
			for _, k := range ks {
				vals = append(vals, g[sec][k])
			}
			rot := 1 + d.R.Intn(len(ks)-1)
			for i, k := range ks {
				g[sec][k] = vals[len(vals)-len(ks)+(i+rot)%len(ks)]
			}
		}
	}
	if d.chance(40) {
		sec := []string{"BuiltInCost", "BaseOperationCost"}[d.R.Intn(2)]
		ks := make([]string, 0)
		for k := range g[sec] {
			ks = append(ks, k)
		}
		sort.Strings(ks)
		k := ks[d.R.Intn(len(ks))]
		if gk := world.GasKeys(sec); d.chance(45) {
			// the first and the last entry of a section are where an off-by-one in the completeness check shows
			k = []string{gk[0], gk[len(gk)-1]}[d.R.Intn(2)]
		}
		switch d.R.Intn(3) {
		case 0:
			g[sec][k] = 0
		case 1:
			delete(g[sec], k)
		default:
			delete(g, sec)
		}
	}
	d.setSched(g)
}
