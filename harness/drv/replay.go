package drv

import (
	"encoding/hex"
	"encoding/json"
	"fmt"
	"math/big"
	"os"
	"strconv"
	"strings"

	vmcommon "github.com/ElrondNetwork/elrond-vm-common"
	"verif/harness/world"
)

// CStep is the concrete form of one recorded step (see world.Describe).
type CStep struct {
	Kind      string   `json:"kind"`
	Seed      int64    `json:"seed"`
	Trace     int      `json:"trace"`
	Profile   string   `json:"profile"`
	Shard     int      `json:"shard"`
	Fn        string   `json:"fn"`
	Caller    string   `json:"caller"`
	Rcpt      string   `json:"rcpt"`
	Args      []string `json:"args"`
	Gas       string   `json:"gas"`
	GasLocked string   `json:"gasLocked"`
	CT        int      `json:"ct"`
	RAE       bool     `json:"rae"`
	Value     string   `json:"value"`
	Mid       int      `json:"mid"`
	Dup       bool     `json:"dup"`
	Addr      string   `json:"addr"`
	Val       string   `json:"val"`
	Sched     map[string]map[string]uint64 `json:"sched"`
	Epoch     uint32   `json:"epoch"`
	Modes     string   `json:"modes"`
	Of        string   `json:"of"`
	FKind     string   `json:"fkind"`
	FK        int      `json:"fk"`
}

func unhex(s string) []byte {
	b, err := hex.DecodeString(s)
	if err != nil {
		panic(err)
	}
	if b == nil {
		b = []byte{}
	}
	return b
}

// ToCall rebuilds the call of a concrete step.
func (s *CStep) ToCall() *world.Call {
	c := &world.Call{Fn: s.Fn, Caller: unhex(s.Caller), Rcpt: unhex(s.Rcpt), CT: vmcommon.CallType(s.CT), RAE: s.RAE, Value: big.NewInt(0)}
	for _, a := range s.Args {
		c.Args = append(c.Args, unhex(a))
	}
	c.Gas, _ = strconv.ParseUint(s.Gas, 10, 64)
	c.GasLocked, _ = strconv.ParseUint(s.GasLocked, 10, 64)
	if s.Value != "" {
		c.Value, _ = new(big.Int).SetString(s.Value, 10)
	}
	return c
}

// Replay re-executes recorded concrete steps on a fresh world and records a new trace.
func Replay(in string, t *world.Tracer) error {
	raw, err := os.ReadFile(in)
	if err != nil {
		return err
	}
	var steps []CStep
	if err := json.Unmarshal(raw, &steps); err != nil {
		return err
	}
	var d *Ledger
	for i, s := range steps {
		if s.Kind == "init" {
			d, err = NewLedger(s.Seed, s.Trace, s.Profile, t)
			if err != nil {
				return err
			}
			continue
		}
		if d == nil {
			return fmt.Errorf("step %d before init", i)
		}
		d.ApplyStep(&s)
	}
	return nil
}

// ApplyStep performs one recorded step.
func (d *Ledger) ApplyStep(s *CStep) {
	// the observation modes the step was recorded under (replicas, allocation monitor); fault probes are replayed one by one
	d.Triple, d.Alloc = strings.Contains(s.Modes, "triple"), strings.Contains(s.Modes, "alloc")
	switch s.Kind {
	case "fault":
		d.oneFault(s)
	case "exec":
		d.record("exec", s.Shard, s.ToCall())
	case "deliver":
		m := d.W.FindMsg(s.Mid)
		if m == nil {
			return
		}
		sh, c := d.W.DeliverCall(m)
		d.recordMid("deliver", sh, c, s.Mid, s.Dup)
	case "oracle":
		d.setOracle(s.Addr, s.Val)
	case "sched":
		d.setSched(s.Sched)
	case "epoch":
		d.setEpoch(s.Epoch)
	}
}

func (d *Ledger) setOracle(a, v string) {
	d.W.SetOracle(d.W.Addr(a), v)
	ev := world.AEvent{A: "oracle", Key: a, Val: v, Res: "ok"}
	d.T.Write(&world.ALine{Ev: ev, W: d.P.World()}, map[string]interface{}{"kind": "oracle", "addr": a, "val": v})
}
