package drv

import (
	"bytes"
	"encoding/binary"
	"math/big"

	vmcommon "github.com/ElrondNetwork/elrond-vm-common"
	"github.com/ElrondNetwork/elrond-vm-common/data/esdt"
	"verif/harness/world"
)

var allFns = []string{"ClaimDeveloperRewards", "ChangeOwnerAddress", "SetUserName", "SaveKeyValue", "ESDTTransfer", "ESDTBurn", "ESDTFreeze", "ESDTUnFreeze",
	"ESDTWipe", "ESDTPause", "ESDTUnPause", "ESDTSetRole", "ESDTUnSetRole", "ESDTLocalBurn", "ESDTLocalMint", "ESDTNFTAddQuantity", "ESDTNFTBurn", "ESDTNFTCreate",
	"ESDTNFTTransfer", "ESDTNFTCreateRoleTransfer", "ESDTNFTUpdateAttributes", "ESDTNFTAddURI", "MultiESDTNFTTransfer"}

const inv3 = 0xAAAAAAAAAAAAAAAB // 3 * inv3 = 1 (mod 2^64)

func u64b(v uint64) []byte {
	var b [8]byte
	binary.BigEndian.PutUint64(b[:], v)
	return b[:]
}

// advItem draws one adversarial argument.
func (d *Ledger) advItem() []byte {
	switch d.R.Intn(16) {
	case 0:
		return []byte{}
	case 1:
		return []byte{0}
	case 2:
		return []byte{0, 0, 1}
	case 3:
		return nb(uint64(d.R.Intn(5)))
	case 4:
		return u64b([]uint64{1 << 63, ^uint64(0), ^uint64(0) - 1, 1<<62 + 1}[d.R.Intn(4)])
	case 5:
		return append([]byte{byte(1 + d.R.Intn(2))}, u64b(uint64(d.R.Intn(3)))...) // 9 bytes: 2^64 + small
	case 6:
		// residues n with 3n + c = t (mod 2^64), t small
		t, c := uint64(d.R.Intn(13)), uint64(1+d.R.Intn(2))
		n := (t - c) * inv3
		b := u64b(n)
		if d.chance(30) {
			b = append([]byte{byte(d.R.Intn(3))}, b...)
		}
		return b
	case 7:
		return d.anyTok()
	case 8:
		return d.W.Addr(d.anyAcct())
	case 9:
		return d.W.Addr([]string{"short31", "long33", "meta1", "esdtsc"}[d.R.Intn(4)])
	case 10:
		return []byte(AllRoles[d.R.Intn(len(AllRoles))])
	case 11:
		return d.amt(int64(d.R.Intn(4)))
	case 12:
		return d.advPayload()
	case 13:
		b := make([]byte, 1+d.R.Intn(40))
		d.R.Read(b)
		return b
	case 14:
		return bytes.Repeat([]byte{0xff}, 1+d.R.Intn(12))
	default:
		return nb(uint64(1 + d.R.Intn(3)))
	}
}

// advPayload: marshalled token data in various states of health.
func (d *Ledger) advPayload() []byte {
	e := &esdt.ESDigitalToken{Type: uint32(d.R.Intn(3)), Value: new(big.Int).Mul(big.NewInt(int64(d.R.Intn(3))), d.Scale)}
	if d.chance(70) {
		e.TokenMetaData = &esdt.MetaData{Nonce: uint64(d.R.Intn(3)), Name: []byte("n"), Hash: []byte("h1"), URIs: [][]byte{[]byte("u")}}
	}
	b, _ := e.Marshal()
	switch d.R.Intn(5) {
	case 0:
		// drop the Value field (field 2): re-encode by hand without it
		m := &esdt.MetaData{Nonce: 1, Name: []byte("n")}
		mb, _ := m.Marshal()
		out := []byte{0x08, 0x01, 0x22, byte(len(mb))}
		return append(out, mb...)
	case 1:
		if len(b) > 2 {
			return b[:len(b)-1-d.R.Intn(len(b)/2)]
		}
	case 2:
		if len(b) > 0 {
			b[d.R.Intn(len(b))] ^= byte(1 << uint(d.R.Intn(8)))
		}
	}
	return b
}

// ActAdversarial executes one transaction-reachable call with adversarial arguments: the caller is a user or contract
// account on its own shard; arguments, gas, call type and recipient are arbitrary.
func (d *Ledger) ActAdversarial() {
	fn := allFns[d.R.Intn(len(allFns))]
	if d.chance(45) {
		fn = []string{"MultiESDTNFTTransfer", "ESDTNFTTransfer", "ESDTTransfer", "ESDTNFTCreate", "ESDTNFTAddURI", "ESDTNFTUpdateAttributes", "SaveKeyValue"}[d.R.Intn(7)]
	}
	caller := d.anyAcct()
	var rcpt []byte
	switch d.R.Intn(10) {
	case 0, 1, 2, 3, 4:
		rcpt = d.W.Addr(caller)
	case 5, 6:
		rcpt = d.W.Addr(d.otherAcct(caller))
	case 7:
		rcpt = d.W.Addr("esdtsc")
	case 8:
		rcpt = d.W.Addr([]string{"meta1", "sys", "short31", "long33"}[d.R.Intn(4)])
	default:
		rcpt = d.W.Addr(d.pick(d.SCs))
	}
	if bytes.Equal(rcpt, world.SysAddr) && fn != "ESDTPause" && fn != "ESDTUnPause" {
		// the system account only ever receives pause/unpause calls (its token keys hold pause flags, not balances)
		rcpt = d.W.Addr(caller)
	}
	n := d.R.Intn(13)
	args := make([][]byte, 0, n)
	for i := 0; i < n; i++ {
		args = append(args, d.advItem())
	}
	// frequently start from a well-formed prefix so that deep paths are reached
	if d.chance(50) {
		hs := d.holdings()
		if (fn == "MultiESDTNFTTransfer" || fn == "ESDTNFTTransfer" || fn == "ESDTTransfer") && d.chance(20) {
			// the payability oracle FAILS for some account (a dependency error, not "no"): the answer is still a result or an error
			if o := d.otherAcct(caller); d.W.Info(o).Kind != "junk" {
				d.setOracle(o, []string{"err", "err", "yes"}[d.R.Intn(3)])
			}
		}
		switch fn {
		case "MultiESDTNFTTransfer":
			cnt := d.advCount()
			pre := [][]byte{d.destFor(caller), cnt}
			for _, h := range hs {
				if h.acct == caller && d.chance(60) {
					pre = append(pre, h.tok, nb(h.nonce), d.amt(1))
				}
			}
			args = append(pre, args...)
		case "ESDTNFTTransfer":
			for _, h := range hs {
				if h.acct == caller && h.nonce != 0 {
					args = append([][]byte{h.tok, nb(h.nonce), d.amt(1), d.destFor(caller)}, args...)
					break
				}
			}
		case "ESDTTransfer":
			for _, h := range hs {
				if h.acct == caller && h.nonce == 0 {
					args = append([][]byte{h.tok, d.amt(1)}, args...)
					break
				}
			}
		}
	}
	if len(args) > 14 {
		args = args[:14]
	}
	plain := false
	if (fn == "MultiESDTNFTTransfer" || fn == "ESDTNFTTransfer") && d.chance(12) {
		// a holder sends to the shard's system account (an ordinary address for a transaction): its token keys hold 2-byte pause
		// flags that do not decode as token data.  Preferred: a holding whose storage key IS such a flag key, sent from the shard
		// the system-account address belongs to (the credit is then attempted on the spot).
		home := d.W.HomeShard(world.SysAddr)
		flagKeys := map[string]bool{}
		if home >= 0 && home < len(d.W.Shards) {
			if sa := d.W.Shards[home].Peek(world.SysAddr); sa != nil {
				for k := range sa.Storage {
					flagKeys[k] = true
				}
			}
		}
		var pick *holding
		hs := d.holdings()
		for i := range hs {
			h := &hs[i]
			if fn == "ESDTNFTTransfer" && h.nonce == 0 {
				continue
			}
			if d.shardOfName(h.acct) == home && flagKeys["ELRONDesdt"+string(h.key)] {
				pick = h
				if d.chance(50) {
					break
				}
			}
		}
		if pick == nil && fn == "MultiESDTNFTTransfer" && d.chance(50) {
			// set the situation up: pause and un-pause a fungible token somebody on that shard holds (the flag entry stays, cleared)
			for i := range hs {
				h := &hs[i]
				if h.nonce == 0 && d.shardOfName(h.acct) == home && d.W.Info(h.acct).Kind != "junk" {
					for _, pf := range []string{"ESDTPause", "ESDTUnPause"} {
						pc := &world.Call{Fn: pf, Caller: d.W.Addr("esdtsc"), Rcpt: world.SysAddr, Args: [][]byte{h.tok}, Gas: 600000, Value: big.NewInt(0)}
						d.record("exec", home, pc)
					}
					pick, plain = h, true
					break
				}
			}
		}
		if pick == nil {
			for i := range hs {
				h := &hs[i]
				if h.acct == caller && !(fn == "ESDTNFTTransfer" && h.nonce == 0) {
					pick = h
					if d.chance(50) {
						break
					}
				}
			}
		} else {
			plain = d.chance(80)
		}
		if pick != nil {
			caller = pick.acct
			if fn == "MultiESDTNFTTransfer" {
				args = [][]byte{world.SysAddr, nb(1), pick.tok, nb(pick.nonce), d.amt(1)}
			} else {
				args = [][]byte{pick.tok, nb(pick.nonce), d.amt(1), world.SysAddr}
			}
			rcpt = d.W.Addr(caller)
		}
	}
	if role, gated := map[string]string{"ESDTNFTAddURI": "ESDTRoleNFTAddURI", "ESDTNFTUpdateAttributes": "ESDTRoleNFTUpdateAttributes",
		"ESDTNFTAddQuantity": "ESDTRoleNFTAddQuantity", "ESDTNFTBurn": "ESDTRoleNFTBurn"}[fn]; gated && d.chance(60) {
		// a role holder names its own token with a nonce written on MORE than eight bytes (the low 64 bits are zero, a small number,
		// or the nonce of a holding): whatever the function makes of such a number, it answers with a result or an error.  Sometimes
		// the system contract has first put a bare flag entry (no metadata) under the collection id itself for this account.
		if a, tok, ok := d.roleHolder(role); ok && d.W.Info(a).Kind != "junk" {
			caller, rcpt = a, d.W.Addr(a)
			low := u64b(uint64(d.R.Intn(3)))
			for _, h := range d.nftHoldings() {
				if h.acct == a && bytes.Equal(h.tok, tok) && d.chance(50) {
					low = u64b(h.nonce)
					break
				}
			}
			nonce := append([]byte{byte(1 + d.R.Intn(2))}, low...)
			if d.chance(20) {
				nonce = low
			}
			if d.chance(40) {
				pc := &world.Call{Fn: "ESDTFreeze", Caller: d.W.Addr("esdtsc"), Rcpt: d.W.Addr(a), Args: [][]byte{tok}, Gas: 600000, Value: big.NewInt(0)}
				d.record("exec", d.shardOfName(a), pc)
			}
			tail := args
			if len(tail) > 3 {
				tail = tail[:3]
			}
			args = append([][]byte{tok, nonce, d.amt(1)}, tail...)
			plain = d.chance(70)
		}
	}
	wrapped := false
	if fn == "MultiESDTNFTTransfer" && !plain && len(args) >= 4 && d.chance(15) {
		// a transfer count n >= 2^63 chosen so that 3n + 2 wraps around 2^64 to (just below) the number of arguments present:
		// both length guards must hold against it, from a well-formed destination on the sender's own shard
		t := uint64(len(args) - d.R.Intn(4))
		args[0], args[1] = d.destFor(caller), u64b((t-2)*inv3)
		rcpt = d.W.Addr(caller)
		wrapped = true
	}
	c := &world.Call{Fn: fn, Caller: d.W.Addr(caller), Rcpt: rcpt, Args: args, Value: big.NewInt(0), CT: vmcommon.CallType(d.R.Intn(4)), RAE: d.chance(5)}
	switch d.R.Intn(5) {
	case 0:
		c.Gas = uint64(d.R.Intn(300))
	case 1:
		c.Gas = ^uint64(0)
	default:
		c.Gas = 700000
	}
	if d.chance(4) {
		c.Value = new(big.Int).Set(d.Scale)
	}
	if plain {
		c.Gas, c.CT, c.RAE, c.Value = 700000, vmcommon.DirectCall, false, big.NewInt(0)
	}
	if wrapped {
		c.Gas, c.Value = ^uint64(0), big.NewInt(0)
	}
	if fn == "MultiESDTNFTTransfer" && len(c.Args) > 1 && len(c.Args[1]) >= 8 && d.chance(70) {
		c.Gas = ^uint64(0) // a wrapped count also wraps count*cost: give the path past the gas guard a chance
	}
	if (fn == "MultiESDTNFTTransfer" || fn == "ESDTNFTTransfer" || fn == "ESDTTransfer") && !plain && !wrapped && d.chance(15) {
		// the DESTINATION side of a transfer function on arbitrary message arguments: the sender lives on another shard (no sender
		// account on the executing shard), the recipient is local; counts of zero, counts the arguments cannot hold, too few arguments
		rn := d.anyAcct()
		for i := 0; i < 20 && (d.shardOfName(rn) == d.shardOfName(caller) || d.W.Info(rn).Kind == "junk"); i++ {
			rn = d.anyAcct()
		}
		if d.shardOfName(rn) != d.shardOfName(caller) && d.W.Info(rn).Kind != "junk" {
			c.Rcpt = d.W.Addr(rn)
			if fn == "MultiESDTNFTTransfer" && len(c.Args) > 0 && d.chance(70) {
				c.Args = c.Args[1:] // destination-side layout: count first
				if d.chance(40) {
					c.Args = append([][]byte{d.advCount()}, c.Args...)
				}
			}
			d.record("exec", d.shardOfName(rn), c)
			return
		}
	}
	d.record("exec", d.shardOfName(caller), c)
}

func (d *Ledger) advCount() []byte {
	switch d.R.Intn(6) {
	case 0:
		t, c := uint64(d.R.Intn(13)), uint64(2)
		return u64b((t - c) * inv3)
	case 1:
		return u64b(^uint64(0))
	case 2:
		return []byte{}
	case 3:
		return append([]byte{1}, u64b(1)...)
	default:
		return nb(uint64(1 + d.R.Intn(3)))
	}
}

// actForgedLocal: a LOCAL account sends a call in the destination-side message format (payload instead of a destination address,
// caller != recipient, both on the executing shard), with and without the return-after-error flag: the destination-side paths must
// refuse to run when the sender account is local - nothing is debited there, so whatever they credit would come from nowhere.
func (d *Ledger) actForgedLocal() {
	caller := d.anyAcct()
	rcpt := ""
	for i := 0; i < 20; i++ {
		o := d.otherAcct(caller)
		if o != caller && d.shardOfName(o) == d.shardOfName(caller) && d.W.Info(o).Kind != "junk" {
			rcpt = o
			break
		}
	}
	if rcpt == "" || d.W.Info(caller).Kind == "junk" {
		return
	}
	tok, nonce := d.pickTok(d.NFT), uint64(1+d.R.Intn(3))
	for _, h := range d.nftHoldings() {
		if d.chance(40) {
			tok, nonce = h.tok, h.nonce // an item that exists somewhere (same hash: the copy would merge)
			break
		}
	}
	q := new(big.Int).Mul(big.NewInt(int64(1+d.R.Intn(3))), d.Scale)
	e := &esdt.ESDigitalToken{Type: 1, Value: q, TokenMetaData: &esdt.MetaData{Nonce: nonce, Name: metaNames[0], Creator: d.W.Addr(caller), Hash: metaHashes[0], URIs: [][]byte{metaURIs[0]}}}
	pb, _ := e.Marshal()
	var c *world.Call
	switch d.R.Intn(3) {
	case 0:
		c = &world.Call{Fn: "ESDTNFTTransfer", Args: [][]byte{tok, nb(nonce), q.Bytes(), pb}}
	case 1:
		c = &world.Call{Fn: "MultiESDTNFTTransfer", Args: [][]byte{nb(1), tok, nb(nonce), pb}}
	default:
		c = &world.Call{Fn: "MultiESDTNFTTransfer", Args: [][]byte{nb(2), d.pickTok(d.Fung), {}, q.Bytes(), tok, nb(nonce), pb}}
	}
	c.Caller, c.Rcpt, c.Gas, c.Value = d.W.Addr(caller), d.W.Addr(rcpt), d.gas(), big.NewInt(0)
	c.CT = vmcommon.CallType(d.R.Intn(4))
	c.RAE = d.chance(50)
	d.record("exec", d.shardOfName(caller), c)
}
