package drv

import (
	"bufio"
	"encoding/json"
	"fmt"
	"math/big"
	"math/rand"
	"os"
	"strings"

	vmcommon "github.com/ElrondNetwork/elrond-vm-common"
	"github.com/ElrondNetwork/elrond-vm-common/data/esdt"
	"verif/harness/world"
)

// Trans is one transition of the model's state graph: a reachable abstract world, a call, the model's verdict.
type Trans struct {
	W   world.AWorld `json:"w"`
	C   MCStep       `json:"c"`
	Res string       `json:"res"`
}

func (d *Ledger) addrOfName(n string) []byte {
	if strings.HasPrefix(n, "0x") {
		return unhex(n[2:])
	}
	return d.W.Addr(n)
}

func (d *Ledger) entryOf(e world.AEntry) *esdt.ESDigitalToken {
	t := &esdt.ESDigitalToken{Type: uint32(e.Type), Value: new(big.Int).Mul(big.NewInt(e.Val), d.Scale), Properties: unhex(e.Props), Reserved: unhex(e.Res)}
	if len(t.Properties) == 0 {
		t.Properties = nil
	}
	if len(t.Reserved) == 0 {
		t.Reserved = nil
	}
	if e.HM {
		m := &esdt.MetaData{Nonce: uint64(e.Meta.Nonce), Name: unhex(e.Meta.Name), Royalties: uint32(e.Meta.Roy), Hash: unhex(e.Meta.Hash), Attributes: unhex(e.Meta.Attrs)}
		if e.Meta.Creator != "" {
			m.Creator = d.addrOfName(e.Meta.Creator)
		}
		for _, u := range e.Meta.URIs {
			m.URIs = append(m.URIs, unhex(u))
		}
		t.TokenMetaData = m
	}
	return t
}

// Inject overwrites the world's state with the abstract world (the inverse of the projection).
func (d *Ledger) Inject(aw *world.AWorld) error {
	w := d.W
	for _, s := range w.Shards {
		s.Accounts = map[string]*world.Account{}
		s.Oracle.Table = map[string]string{}
	}
	for name, a := range aw.Acct {
		ai := w.Info(name)
		if ai == nil || ai.Shard < 0 {
			if len(a.Esdt)+len(a.Roles)+len(a.Ctr)+len(a.KV) > 0 {
				return fmt.Errorf("state on an account without a home shard: %s", name)
			}
			continue
		}
		acc := world.NewAccount(ai.Bytes, w.Shards[ai.Shard])
		for k, e := range a.Esdt {
			b, err := d.entryOf(e).Marshal()
			if err != nil {
				return err
			}
			acc.Storage["ELRONDesdt"+string(unhex(k))] = b
		}
		for k, rl := range a.Roles {
			r := &esdt.ESDTRoles{}
			for _, x := range rl {
				r.Roles = append(r.Roles, unhex(x))
			}
			b, _ := r.Marshal()
			acc.Storage["ELRONDroleesdt"+string(unhex(k))] = b
		}
		for k, n := range a.Ctr {
			acc.Storage["ELRONDnonce"+string(unhex(k))] = nb(uint64(n))
		}
		for k, v := range a.KV {
			acc.Storage[string(unhex(k))] = unhex(v)
		}
		if a.Owner != "" {
			acc.Owner = append([]byte(nil), d.addrOfName(a.Owner)...)
		}
		acc.Username = unhex(a.Uname)
		acc.DevReward = new(big.Int).Mul(big.NewInt(a.Dev), d.Scale)
		acc.Balance = new(big.Int).Mul(big.NewInt(a.Egld), d.Scale)
		w.Shards[ai.Shard].Accounts[string(ai.Bytes)] = acc
	}
	for sk, m := range aw.Paused {
		var si int
		fmt.Sscan(sk, &si)
		if len(m) == 0 {
			continue
		}
		sys := world.NewAccount(world.SysAddr, w.Shards[si])
		for k, v := range m {
			sys.Storage["ELRONDesdt"+string(unhex(k))] = unhex(v)
		}
		w.Shards[si].Accounts[string(world.SysAddr)] = sys
	}
	for n, v := range aw.Oracle {
		if v != "yes" {
			w.SetOracle(w.Addr(n), v)
		}
	}
	g := map[string]map[string]uint64{"BuiltInCost": {}, "BaseOperationCost": {}}
	for k, v := range aw.Sched {
		if strings.HasPrefix(k, "B.") {
			g["BuiltInCost"][k[2:]] = uint64(v)
		} else {
			g["BaseOperationCost"][k[2:]] = uint64(v)
		}
	}
	if canon(g) != canon(w.Sched) {
		w.Reprice(g)
		w.Sched = world.CloneGas(g)
	}
	w.Msgs = nil
	for _, m := range aw.Msgs {
		x := &world.Msg{ID: m.ID, From: d.addrOfName(m.From), To: d.addrOfName(m.To), Fn: m.Fn, Value: new(big.Int).Mul(big.NewInt(m.Val), d.Scale), Gas: uint64(m.Gas),
			GasLocked: uint64(m.GL), CT: vmcommon.CallType(m.CT), RAE: m.RAE, Dead: m.Dead, Tx: m.Tx}
		if strings.HasPrefix(m.Fn, "0x") {
			x.Fn = string(unhex(m.Fn[2:]))
		}
		for _, a := range m.Args {
			if a.HE && a.E != nil {
				b, err := d.entryOf(*a.E).Marshal()
				if err != nil {
					return err
				}
				x.Args = append(x.Args, b)
			} else {
				x.Args = append(x.Args, unhex(a.H))
			}
		}
		w.Msgs = append(w.Msgs, x)
	}
	w.NextID = aw.NextID
	return nil
}

func canon(v interface{}) string {
	b, _ := json.Marshal(v)
	var x interface{}
	json.Unmarshal(b, &x)
	b, _ = json.Marshal(x)
	return string(b)
}

// InjectReplay executes every transition of the model's state graph on the real code: inject the pre-state, check that the
// projection gives the pre-state back, run the call, record.
func InjectReplay(in string, t *world.Tracer, every int) (n, badInject, disagree int, err error) {
	f, err := os.Open(in)
	if err != nil {
		return
	}
	defer f.Close()
	sc := bufio.NewScanner(f)
	sc.Buffer(make([]byte, 1<<20), 1<<26)
	cfg := world.Config{NShards: 2, Gas: MCGas(10, 1), EnableChange: false, Activation: 0}
	addrs := world.StdAddrs(2)
	w, e := world.New(cfg, addrs)
	if e != nil {
		return n, badInject, disagree, e
	}
	w.ConfirmEpoch(0)
	for sc.Scan() {
		var tr Trans
		if e := json.Unmarshal(sc.Bytes(), &tr); e != nil {
			return n, badInject, disagree, fmt.Errorf("transition %d: %v", n, e)
		}
		// one world is reused: Inject overwrites every account, the oracle, the schedule and the in-flight bag
		d := &Ledger{W: w, R: rand.New(rand.NewSource(int64(n))), T: t, Scale: big.NewInt(1), Profile: "inject", TraceNo: n, Creator: map[string]string{}, Pending: map[string]bool{}}
		d.P = &world.Proj{W: w, Scale: d.Scale}
		if e := d.Inject(&tr.W); e != nil {
			return n, badInject, disagree, e
		}
		// every transition is executed; only a sample (plus every disagreement) is written for TLC
		keep := every <= 1 || n%every == 0
		if !keep {
			if d.quietResult(&tr.C) == tr.Res {
				n++
				continue
			}
			if disagree >= 200 {
				// enough disagreements are on record for TLC to judge; the rest are only counted
				disagree++
				n++
				continue
			}
			// disagreement: inject again and record it
			if e := d.Inject(&tr.W); e != nil {
				return n, badInject, disagree, e
			}
		}
		n++
		pw := d.P.World()
		// Project(Inject(s)) = s on everything the model's world contains
		for name, a := range tr.W.Acct {
			if canon(pw.Acct[name]) != canon(a) {
				badInject++
				break
			}
		}
		if canon(pw.Paused) != canon(tr.W.Paused) || len(pw.Msgs) != len(tr.W.Msgs) {
			badInject++
		}
		ev := world.AEvent{A: "init", Res: "ok"}
		if e := t.Write(&world.ALine{Ev: ev, Cfg: d.P.CfgOf([][]byte{[]byte("F"), []byte("N")}, n, "inject"), W: pw}, map[string]interface{}{"kind": "inject", "trans": n - 1}); e != nil {
			return n, badInject, disagree, e
		}
		s := tr.C
		d.MCRes = tr.Res
		switch s.A {
		case "exec":
			c := &world.Call{Fn: s.Fn, Caller: d.W.Addr(s.Caller), Rcpt: d.W.Addr(s.Rcpt), Gas: s.Gas, CT: vmcommon.CallType(s.CT), RAE: s.RAE, Value: big.NewInt(0)}
			for _, a := range s.Args {
				c.Args = append(c.Args, unhex(a))
			}
			if r := d.record("exec", s.Sh, c); r.Res != tr.Res {
				disagree++
			}
		case "deliver":
			m := d.W.FindMsg(s.Mid)
			if m == nil {
				disagree++
				break
			}
			sh, c := d.W.DeliverCall(m)
			if r := d.recordMid("deliver", sh, c, s.Mid, false); r == nil || r.Res != tr.Res {
				disagree++
			}
		}
		t.Traces++
	}
	return n, badInject, disagree, sc.Err()
}

// quietResult executes a model step without recording it and returns the result class.
func (d *Ledger) quietResult(s *MCStep) string {
	switch s.A {
	case "exec":
		c := &world.Call{Fn: s.Fn, Caller: d.W.Addr(s.Caller), Rcpt: d.W.Addr(s.Rcpt), Gas: s.Gas, CT: vmcommon.CallType(s.CT), RAE: s.RAE, Value: big.NewInt(0)}
		for _, a := range s.Args {
			c.Args = append(c.Args, unhex(a))
		}
		return d.W.Run(s.Sh, c).Res
	case "deliver":
		if d.W.FindMsg(s.Mid) == nil {
			return "nomsg"
		}
		r, _ := d.W.Deliver(s.Mid, false)
		if r == nil {
			return "nomsg"
		}
		return r.Res
	}
	return ""
}
