package drv

import (
	"bytes"
	"crypto/sha256"
	"encoding/binary"
	"encoding/hex"
	"fmt"
	"math/big"
	"runtime"
	"sort"

	vmcommon "github.com/ElrondNetwork/elrond-vm-common"
	"verif/harness/world"
)

// ---------------------------------------------------------------- C17: dependency faults

var faultKinds = []string{"write", "load", "sysload", "save", "marshal", "unmarshal", "payable", "acctop", "read", "sysread"}

// faults enumerates, on the pre-state, every (kind, k) dependency failure of a call whose fault-free execution succeeds,
// and writes one "fault" line each (the world is unchanged: every probe is undone).
func (d *Ledger) faults(kind string, shard int, c *world.Call, mid int, conc map[string]interface{}) {
	count := world.NewFaults()
	base := d.W.Probe(shard, c, count)
	if base.Res != "ok" {
		return
	}
	aw := d.P.World()
	destSide := !bytes.Equal(c.Caller, c.Rcpt)
	args := d.P.Args(c.Fn, c.Args, destSide)
	for _, k := range faultKinds {
		n := count.Counts[k]
		for i := 1; i <= n; i++ {
			if n > 6 && i > 3 && i < n-1 && d.R.Intn(3) != 0 {
				continue // long loops: first three, last two, a sample of the middle
			}
			d.faultLine(shard, c, mid, conc, k, i, n, aw, args)
		}
	}
}

// faultLine probes one (kind, k) dependency failure and writes its line.
func (d *Ledger) faultLine(shard int, c *world.Call, mid int, conc map[string]interface{}, k string, i, n int, aw *world.AWorld, args []world.AArg) {
	f := world.NewFaults()
	f.FailKind, f.FailAt = k, i
	r := d.W.Probe(shard, c, f)
	// the complete description of the result (return data, emitted messages, logs) as for an ordinary step; the world stays the pre-state
	ev := d.P.EventOf("fault", shard, c, r, mid, false)
	ev.Args = args
	ev.X = map[string]interface{}{"kind": k, "k": i, "fired": f.Fired, "of": n}
	cc := map[string]interface{}{}
	for kk, v := range conc {
		cc[kk] = v
	}
	if conc["kind"] != "fault" {
		cc["of"] = conc["kind"]
	}
	cc["kind"] = "fault"
	cc["fkind"], cc["fk"] = k, i
	if err := d.T.Write(&world.ALine{Ev: ev, W: aw}, cc); err != nil {
		panic(err)
	}
}

// oneFault re-executes one recorded fault probe (replay of a "fault" line).
func (d *Ledger) oneFault(s *CStep) {
	c := s.ToCall()
	count := world.NewFaults()
	if base := d.W.Probe(s.Shard, c, count); base.Res != "ok" {
		return
	}
	destSide := !bytes.Equal(c.Caller, c.Rcpt)
	conc := world.Describe(s.Of, s.Shard, c, s.Mid)
	conc["dup"] = s.Dup
	d.faultLine(s.Shard, c, s.Mid, conc, s.FKind, s.FK, count.Counts[s.FKind], d.P.World(), d.P.Args(c.Fn, c.Args, destSide))
}

// ---------------------------------------------------------------- C13: replicas and input integrity

func putBytes(h *bytes.Buffer, b []byte) {
	var l [8]byte
	binary.BigEndian.PutUint64(l[:], uint64(len(b)))
	h.Write(l[:])
	h.Write(b)
}

func putBig(h *bytes.Buffer, v *big.Int) {
	if v == nil {
		putBytes(h, []byte("nil"))
		return
	}
	putBytes(h, []byte(v.String()))
}

// Digest is a canonical serialisation of everything the property calls "the result": class, return code, gas, return data,
// logs in order, output accounts/transfers, and the resulting storage of the executing shard.
func Digest(w *world.World, shard int, r *world.StepResult) string {
	var h bytes.Buffer
	putBytes(&h, []byte(r.Res))
	if o := r.Out; o != nil {
		putBytes(&h, []byte(fmt.Sprint(int(o.ReturnCode), o.GasRemaining, o.ReturnMessage)))
		putBig(&h, o.GasRefund)
		for _, d := range o.ReturnData {
			putBytes(&h, d)
		}
		putBytes(&h, []byte("logs"))
		for _, l := range o.Logs {
			if l == nil {
				putBytes(&h, []byte("nil"))
				continue
			}
			putBytes(&h, l.Identifier)
			putBytes(&h, l.Address)
			putBytes(&h, l.Data)
			for _, t := range l.Topics {
				putBytes(&h, t)
			}
			putBytes(&h, []byte("|"))
		}
		keys := make([]string, 0, len(o.OutputAccounts))
		for k := range o.OutputAccounts {
			keys = append(keys, k)
		}
		sort.Strings(keys)
		for _, k := range keys {
			oa := o.OutputAccounts[k]
			putBytes(&h, []byte(k))
			if oa == nil {
				continue
			}
			putBytes(&h, oa.Address)
			putBig(&h, oa.Balance)
			putBig(&h, oa.BalanceDelta)
			putBytes(&h, []byte(fmt.Sprint(oa.Nonce, oa.GasUsed, len(oa.StorageUpdates))))
			for _, ot := range oa.OutputTransfers {
				putBig(&h, ot.Value)
				putBytes(&h, ot.Data)
				putBytes(&h, ot.SenderAddress)
				putBytes(&h, []byte(fmt.Sprint(ot.GasLimit, ot.GasLocked, int(ot.CallType))))
			}
		}
		for _, a := range o.DeletedAccounts {
			putBytes(&h, a)
		}
		for _, a := range o.TouchedAccounts {
			putBytes(&h, a)
		}
	}
	putBytes(&h, []byte("storage"))
	s := w.Shards[shard]
	addrs := make([]string, 0, len(s.Accounts))
	for k := range s.Accounts {
		addrs = append(addrs, k)
	}
	sort.Strings(addrs)
	for _, k := range addrs {
		a := s.Accounts[k]
		empty := len(a.Storage) == 0 && a.Balance.Sign() == 0 && a.DevReward.Sign() == 0 && len(a.Owner) == 0 && len(a.Username) == 0
		if empty {
			continue // an account that was only loaded is indistinguishable from an absent one
		}
		putBytes(&h, []byte(k))
		putBig(&h, a.Balance)
		putBig(&h, a.DevReward)
		putBytes(&h, a.Owner)
		putBytes(&h, a.Username)
		for _, sk := range a.SortedKeys() {
			putBytes(&h, []byte(sk))
			putBytes(&h, a.Storage[sk])
		}
	}
	sum := sha256.Sum256(h.Bytes())
	return hex.EncodeToString(sum[:8])
}

// carved builds a copy of the call whose byte slices all live in ONE backing array, separated by guard bytes, each with
// spare capacity reaching into the guard area; it returns the call, the backing array and a pristine copy of it.
func carved(c *world.Call) (*world.Call, []byte, []byte) {
	const gap = 16
	total := gap
	parts := [][]byte{c.Caller, c.Rcpt}
	parts = append(parts, c.Args...)
	for _, p := range parts {
		total += len(p) + gap
	}
	back := make([]byte, total)
	for i := range back {
		back[i] = 0xA5
	}
	off := gap
	out := make([][]byte, len(parts))
	for i, p := range parts {
		copy(back[off:], p)
		out[i] = back[off : off+len(p) : off+len(p)+gap/2]
		off += len(p) + gap
	}
	d := *c
	d.Caller, d.Rcpt = out[0], out[1]
	d.Args = append([][]byte{}, out[2:]...)
	d.Args = d.Args[:len(d.Args):len(d.Args)+0]
	if c.Value != nil {
		d.Value = new(big.Int).Set(c.Value)
	}
	return &d, back, append([]byte(nil), back...)
}

func inputIntact(orig *world.Call, used *world.Call, in *vmcommon.ContractCallInput, back, pristine []byte) bool {
	if !bytes.Equal(back, pristine) {
		return false
	}
	if len(used.Args) != len(orig.Args) || !bytes.Equal(used.Caller, orig.Caller) || !bytes.Equal(used.Rcpt, orig.Rcpt) {
		return false
	}
	for i := range orig.Args {
		if !bytes.Equal(used.Args[i], orig.Args[i]) {
			return false
		}
	}
	if in != nil {
		if in.Function != orig.Fn || in.GasProvided != orig.Gas || in.GasLocked != orig.GasLocked || in.CallType != orig.CT || in.ReturnCallAfterError != orig.RAE ||
			len(in.Arguments) != len(orig.Args) || !bytes.Equal(in.CallerAddr, orig.Caller) || !bytes.Equal(in.RecipientAddr, orig.Rcpt) {
			return false
		}
		ov := orig.Value
		if ov == nil {
			ov = big.NewInt(0)
		}
		if in.CallValue == nil || in.CallValue.Cmp(ov) != 0 {
			return false
		}
		for i := range orig.Args {
			if !bytes.Equal(in.Arguments[i], orig.Args[i]) {
				return false
			}
			// the slice the function was given is still the slice in the structure (not a normalised replacement)
			if len(used.Args[i]) > 0 && (len(in.Arguments[i]) == 0 || &in.Arguments[i][0] != &used.Args[i][0]) {
				return false
			}
		}
	}
	return true
}

// replicasBefore runs the call twice more before the real step: on a deep clone with fresh function objects in another goroutine,
// and on the live world (undone) so that the real step is a repetition on the same function objects.
func (d *Ledger) replicasBefore(shard int, c *world.Call) (d2, d3 string, intact bool) {
	intact = true
	cl, err := d.W.Clone()
	if err != nil {
		panic(err)
	}
	done := make(chan string)
	go func() {
		cc, back, pristine := carved(c)
		r := cl.Run(shard, cc)
		if !inputIntact(c, cc, r.Input, back, pristine) {
			intact = false
		}
		done <- Digest(cl, shard, r)
	}()
	d2 = <-done
	cc, back, pristine := carved(c)
	d.W.ProbeWith(shard, cc, nil, func(r *world.StepResult) {
		d3 = Digest(d.W, shard, r)
		if !inputIntact(c, cc, r.Input, back, pristine) {
			intact = false
		}
	})
	return
}

// ---------------------------------------------------------------- C11: allocation monitor

// allocBound is what a call may allocate: proportional to its input and to the state of the executing shard, never to a number in the arguments.
func allocBound(w *world.World, shard int, c *world.Call) uint64 {
	sz := uint64(len(c.Caller) + len(c.Rcpt))
	for _, a := range c.Args {
		sz += uint64(len(a)) + 32
	}
	for _, a := range w.Shards[shard].Accounts {
		sz += 256
		for k, v := range a.Storage {
			sz += uint64(len(k)+len(v)) + 64
		}
	}
	return 1<<20 + 256*sz
}

func allocNow() uint64 {
	var m runtime.MemStats
	runtime.ReadMemStats(&m)
	return m.TotalAlloc
}
