package main

// subcommands registered by the other files of this package (func init() { register("name", fn) }).
var subcommands = map[string]func(args []string){}

func register(name string, fn func(args []string)) { subcommands[name] = fn }

func dispatch(cmd string, args []string) bool {
	fn, ok := subcommands[cmd]
	if !ok {
		return false
	}
	fn(args)
	return true
}
