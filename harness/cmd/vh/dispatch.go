package main

// dispatch routes the other subcommands (added as the families grow).
func dispatch(cmd string, args []string) bool {
	return false
}
