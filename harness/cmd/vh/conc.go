package main

import (
	"encoding/json"
	"flag"
	"fmt"
	"math/rand"
	"strings"

	"verif/harness/conc"
)

// vh conc: concurrent drivers of property C19 (package verif/harness/conc). Writes the histories in the
// format of spec/LinTrace.tla and prints one JSON line of statistics.
func init() { register("conc", cmdConc) }

func cmdConc(args []string) {
	fs := flag.NewFlagSet("conc", flag.ExitOnError)
	seed := fs.Int64("seed", 1, "seed of the operation mixes")
	rounds := fs.Int("rounds", 100, "number of logged rounds (a gas round yields one history per function it executed)")
	kinds := fs.String("kinds", "map,cont,flag,counter,i64,u32,u64,str,gas", "object kinds, visited round-robin")
	out := fs.String("out", "conc.ndjson", "output file")
	raceLog := fs.String("racelog", "", "log_path given to GORACE (race builds): reports are attributed to the round they appeared in")
	gmax := fs.Int("gmax", 16, "largest number of goroutines of a logged round (4..16)")
	bulk := fs.Int("bulk", 0, "operations per goroutine of the unlogged bulk runs (0 = none)")
	bulkG := fs.Int("bulkg", 8, "goroutines of the bulk runs")
	bulkReps := fs.Int("bulkreps", 1, "repetitions of the bulk runs")
	fs.Parse(args)
	if *gmax < 4 || *gmax > 16 {
		die(fmt.Errorf("gmax out of range"))
	}
	conc.MaxG = *gmax

	w, err := conc.NewWriter(*out, *raceLog)
	if err != nil {
		die(err)
	}
	ks := strings.Split(*kinds, ",")
	var env *conc.GasEnv
	needGas := false
	for _, k := range ks {
		if k == "gas" {
			needGas = true
		}
	}
	if needGas {
		if env, err = conc.NewGasEnv(); err != nil {
			die(err)
		}
	}
	r := rand.New(rand.NewSource(*seed))
	no := 0
	for i := 0; i < *rounds; i++ {
		k := ks[i%len(ks)]
		if k == "gas" {
			subs, err := env.GasRound(r, &no)
			if err != nil {
				die(err)
			}
			for _, s := range subs {
				w.Write(s)
			}
			continue
		}
		no++
		w.Write(conc.ObjectRound(k, r, no))
	}
	emit := func(lines []map[string]interface{}) {
		// written right after the bulk run, so that a race report is attributed to the run it appeared in
		for _, l := range lines {
			no++
			w.Write(&conc.Round{No: no, Kind: "bulk", Init: 0, Extra: []map[string]interface{}{l}, Tag: fmt.Sprintf("bulk %v g=%d n=%d", l["obj"], *bulkG, *bulk)})
		}
	}
	for rep := 0; rep < *bulkReps && *bulk > 0; rep++ {
		s := *seed*100 + int64(rep)
		for _, k := range ks {
			switch k {
			case "counter":
				emit(conc.BulkAtomics(s, *bulkG, *bulk))
			case "map":
				emit(conc.BulkMaps(s, *bulkG, *bulk/4+1))
				emit(conc.BulkSnapshots(s, *bulkG, *bulk/4+1))
			case "gas":
				l, err := env.BulkGas(s, *bulkG, *bulk/8+1)
				if err != nil {
					die(err)
				}
				emit([]map[string]interface{}{l})
			}
		}
	}
	if err := w.Close(); err != nil {
		die(err)
	}
	st, _ := json.Marshal(w.Stats())
	fmt.Println(string(st))
}
