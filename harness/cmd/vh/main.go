// vh is the verification harness: it drives the real built-in functions, parsers and helpers
// of /repo and records ndjson traces that the TLA+ trace specifications validate.
package main

import (
	"encoding/json"
	"flag"
	"fmt"
	"os"

	"verif/harness/drv"
	"verif/harness/world"
)

func die(err error) {
	fmt.Fprintln(os.Stderr, "vh:", err)
	os.Exit(2)
}

func main() {
	if len(os.Args) < 2 {
		die(fmt.Errorf("usage: vh <ledger|...> [flags]"))
	}
	switch os.Args[1] {
	case "ledger":
		cmdLedger(os.Args[2:])
	case "replay":
		cmdReplay(os.Args[2:])
	default:
		if !dispatch(os.Args[1], os.Args[2:]) {
			die(fmt.Errorf("unknown subcommand %q", os.Args[1]))
		}
	}
}

func cmdLedger(args []string) {
	fs := flag.NewFlagSet("ledger", flag.ExitOnError)
	seed := fs.Int64("seed", 1, "seed")
	traces := fs.Int("traces", 10, "number of traces")
	steps := fs.Int("steps", 100, "steps per trace")
	profile := fs.String("profile", "mixed", "action mix")
	out := fs.String("out", "trace.ndjson", "output file")
	triple := fs.Bool("triple", false, "run replicas (C13)")
	sweep := fs.Bool("gassweep", false, "sweep GasProvided around the boundary points (C06/C16)")
	alloc := fs.Bool("alloc", false, "measure allocation of every call (C11)")
	adv := fs.Int("adversarial", 0, "percentage of steps that are adversarial calls (C11)")
	faults := fs.Bool("faults", false, "enumerate dependency faults of every successful step (C17)")
	fs.Parse(args)
	t, err := world.NewTracer(*out)
	if err != nil {
		die(err)
	}
	for i := 0; i < *traces; i++ {
		d, err := drv.NewLedger(*seed, i, *profile, t)
		if err != nil {
			die(err)
		}
		d.Triple = *triple
		d.GasSweep = *sweep
		d.FaultMode = *faults
		d.Alloc = *alloc
		d.Setup()
		for s := 0; s < *steps; s++ {
			if *adv > 0 && d.R.Intn(100) < *adv {
				d.ActAdversarial()
			} else {
				d.Step()
			}
		}
		d.Drain()
		t.Traces++
	}
	if err := t.Close(); err != nil {
		die(err)
	}
	st, _ := json.Marshal(map[string]interface{}{"lines": t.Lines, "traces": t.Traces, "stats": t.Stats})
	fmt.Println(string(st))
}

func cmdReplay(args []string) {
	fs := flag.NewFlagSet("replay", flag.ExitOnError)
	in := fs.String("in", "steps.json", "concrete steps")
	out := fs.String("out", "replay.ndjson", "output trace")
	fs.Parse(args)
	t, err := world.NewTracer(*out)
	if err != nil {
		die(err)
	}
	if err := drv.Replay(*in, t); err != nil {
		die(err)
	}
	t.Close()
	st, _ := json.Marshal(map[string]interface{}{"lines": t.Lines, "traces": 1, "stats": t.Stats})
	fmt.Println(string(st))
}
