package main

// Subcommands of the wire family (properties C12 and C14):
//   vh wire12 -in t_strs.ndjson,t_xfer.ndjson,t_build.ndjson -seed S -rand N -big -out obs -chunk K
//   vh wire14 -in t_codec.ndjson -seed S -rand N -exh 3 -out obs -chunk K
//   vh wirereplay -in rows.json -out obs.ndjson
// Each executes the real code of /repo on every input row and writes the observed table; the last line of
// the standard output is a JSON object with the statistics of the run.

import (
	"encoding/json"
	"flag"
	"fmt"
	"io/ioutil"
	"math/rand"
	"strings"

	"verif/harness/wire"
)

func init() {
	register("wire12", cmdWire12)
	register("wire14", cmdWire14)
	register("wirereplay", cmdWireReplay)
}

func finishWire(w *wire.Writer, extra wire.Row) {
	st, err := w.Close()
	if err != nil {
		die(err)
	}
	for k, v := range extra {
		st[k] = v
	}
	b, _ := json.Marshal(st)
	fmt.Println(string(b))
}

func cmdWire12(args []string) {
	fs := flag.NewFlagSet("wire12", flag.ExitOnError)
	in := fs.String("in", "", "comma-separated input tables (ndjson)")
	seed := fs.Int64("seed", 1, "seed of the random inputs")
	nrand := fs.Int("rand", 0, "number of random input rows")
	big := fs.Bool("big", false, "add the inputs that are too long to log")
	out := fs.String("out", "obs12", "prefix of the observed chunk files")
	chunk := fs.Int("chunk", 40000, "rows per chunk file")
	rchunk := fs.Int("rchunk", 0, "rows per chunk file for the random rows (they are longer)")
	fs.Parse(args)
	w := wire.NewWriter(*out, *chunk)
	put := func(r wire.Row) error {
		o, nt := wire.Process12(r)
		return w.Put(o, nt)
	}
	for _, f := range strings.Split(*in, ",") {
		if f == "" {
			continue
		}
		if err := wire.ReadRows(f, put); err != nil {
			die(err)
		}
	}
	if err := w.NextFile(*rchunk); err != nil {
		die(err)
	}
	r := rand.New(rand.NewSource(*seed))
	for i := 0; i < *nrand; i++ {
		if err := put(wire.Rand12(r)); err != nil {
			die(err)
		}
	}
	if *big {
		for _, row := range wire.BigRows() {
			if err := put(row); err != nil {
				die(err)
			}
		}
	}
	finishWire(w, nil)
}

func cmdWire14(args []string) {
	fs := flag.NewFlagSet("wire14", flag.ExitOnError)
	in := fs.String("in", "", "comma-separated input tables (ndjson)")
	seed := fs.Int64("seed", 1, "seed of the random inputs")
	nrand := fs.Int("rand", 0, "number of random input rows")
	exh := fs.Int("exh", -1, "decode every byte string up to this length over the 12-byte alphabet")
	out := fs.String("out", "obs14", "prefix of the observed chunk files")
	chunk := fs.Int("chunk", 20000, "rows per chunk file")
	rchunk := fs.Int("rchunk", 0, "rows per chunk file for the random rows (they are longer)")
	fs.Parse(args)
	w := wire.NewWriter(*out, *chunk)
	put := func(r wire.Row) error {
		o, nt := wire.Process14(r)
		return w.Put(o, nt)
	}
	for _, f := range strings.Split(*in, ",") {
		if f == "" {
			continue
		}
		if err := wire.ReadRows(f, put); err != nil {
			die(err)
		}
	}
	if *exh >= 0 {
		wire.ExhaustiveDec(*exh, func(r wire.Row) {
			if err := put(r); err != nil {
				die(err)
			}
		})
	}
	if err := w.NextFile(*rchunk); err != nil {
		die(err)
	}
	r := rand.New(rand.NewSource(*seed))
	for i := 0; i < *nrand; i++ {
		if err := put(wire.Rand14(r)); err != nil {
			die(err)
		}
	}
	finishWire(w, nil)
}

func cmdWireReplay(args []string) {
	fs := flag.NewFlagSet("wirereplay", flag.ExitOnError)
	in := fs.String("in", "replay.json", "replay file: {check, rows}")
	out := fs.String("out", "replayed", "prefix of the observed file")
	fs.Parse(args)
	b, err := ioutil.ReadFile(*in)
	if err != nil {
		die(err)
	}
	var obj struct {
		Check string     `json:"check"`
		Rows  []wire.Row `json:"rows"`
	}
	if err := json.Unmarshal(b, &obj); err != nil {
		die(err)
	}
	w := wire.NewWriter(*out, 0)
	for _, r := range obj.Rows {
		var o wire.Row
		var nt string
		switch obj.Check {
		case "C12":
			o, nt = wire.Process12(r)
		case "C14":
			// an observed row carries the decoded value next to the input bytes: the input decides
			if _, ok := r["in"]; ok {
				delete(r, "v")
			}
			o, nt = wire.Process14(r)
		default:
			die(fmt.Errorf("wirereplay: unknown check %q", obj.Check))
		}
		if err := w.Put(o, nt); err != nil {
			die(err)
		}
	}
	finishWire(w, nil)
}
