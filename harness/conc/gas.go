package conc

import (
	"errors"
	"fmt"
	"math/big"
	"math/rand"
	"reflect"
	"sort"
	"sync"

	vmcommon "github.com/ElrondNetwork/elrond-vm-common"
	"github.com/ElrondNetwork/elrond-vm-common/builtInFunctions"

	"verif/harness/world"
)

// Gas rounds: the six built-in functions whose price has a base part and a per-byte part are executed by
// several goroutines on ONE factory-built container (shared function objects, private accounts) while one
// goroutine changes the gas schedule through the factory (GasScheduleChange -> SetNewGasConfig) and one
// confirms epochs (EpochConfirmed -> activation flags).
//
// Schedule number k (1..9):  every BuiltInCost entry = 10^5 * k, every BaseOperationCost entry = k.
// For each planned call the driver first measures (m, n) - base multiplier and priced byte count - by running
// the identical call on an identical copy of the account against a second container fixed at k = 1
// (charge_1 = 10^5 * m + n, n < 10^4).  A concurrent execution priced wholly by schedule k therefore consumes
// exactly 10^5 * m * k + n * k; anything else is a mixture (or no schedule at all).

// PricedFns are the functions with a base cost and a per-byte price.
var PricedFns = []string{"SaveKeyValue", "ESDTNFTCreate", "ESDTNFTAddURI", "ESDTNFTUpdateAttributes", "ESDTNFTTransfer", "MultiESDTNFTTransfer"}

// BaseFns are further functions executed alongside (price = base cost only, n = 0): the property lets ALL built-in
// functions run concurrently with each other and with repricing.
var BaseFns = []string{"ESDTTransfer", "ESDTLocalMint", "ESDTLocalBurn", "ESDTNFTAddQuantity", "ESDTNFTBurn",
	"ESDTBurn", "ChangeOwnerAddress", "ClaimDeveloperRewards", "SetUserName"}

// FlaggedFns are the functions with an activation flag moved by EpochConfirmed.
var FlaggedFns = []string{"ESDTNFTAddURI", "ESDTNFTUpdateAttributes", "MultiESDTNFTTransfer"}

const (
	BaseUnit   = 100000
	MaxK       = 9
	gasAmple   = uint64(1000000000)
	activation = uint32(5)
)

// Schedule returns schedule number k.
func Schedule(k int) map[string]map[string]uint64 {
	g := world.StdGas(0)
	for name := range g["BuiltInCost"] {
		g["BuiltInCost"][name] = uint64(BaseUnit * k)
	}
	for name := range g["BaseOperationCost"] {
		g["BaseOperationCost"][name] = uint64(k)
	}
	return g
}

// safeAccounts is a mutex-protected accounts adapter (the node's AccountsDB is mutex-protected too): the
// functions of the shared container reach it for the system account (pause flags) from every goroutine.
type safeAccounts struct {
	mu sync.Mutex
	m  map[string]*world.Account
}

func (s *safeAccounts) LoadAccount(addr []byte) (vmcommon.AccountHandler, error) {
	s.mu.Lock()
	defer s.mu.Unlock()
	if a, ok := s.m[string(addr)]; ok {
		return a.Clone(nil), nil
	}
	return world.NewAccount(addr, nil), nil
}
func (s *safeAccounts) GetExistingAccount(addr []byte) (vmcommon.AccountHandler, error) {
	s.mu.Lock()
	defer s.mu.Unlock()
	if a, ok := s.m[string(addr)]; ok {
		return a.Clone(nil), nil
	}
	return nil, errors.New("account not found")
}
func (s *safeAccounts) SaveAccount(acc vmcommon.AccountHandler) error {
	a, ok := acc.(*world.Account)
	if !ok || a == nil {
		return errors.New("verif: foreign account type")
	}
	s.mu.Lock()
	defer s.mu.Unlock()
	s.m[string(a.Addr)] = a.Clone(nil)
	return nil
}
func (s *safeAccounts) RemoveAccount([]byte) error { return nil }
func (s *safeAccounts) Commit() ([]byte, error)    { return nil, nil }
func (s *safeAccounts) JournalLen() int            { return 0 }
func (s *safeAccounts) RevertToSnapshot(int) error { return nil }
func (s *safeAccounts) GetNumCheckpoints() uint32  { return 0 }
func (s *safeAccounts) GetCode([]byte) []byte      { return nil }
func (s *safeAccounts) RootHash() ([]byte, error)  { return nil, nil }
func (s *safeAccounts) RecreateTrie([]byte) error  { return nil }
func (s *safeAccounts) IsInterfaceNil() bool       { return s == nil }

// coord: two shards, this container serves shard 0; the last address byte decides (harness rule of world.ShardOf).
type coord struct{}

func (coord) NumberOfShards() uint32                  { return 2 }
func (coord) ComputeId(a []byte) uint32               { return world.ShardOf(a, 2) }
func (coord) SelfId() uint32                          { return 0 }
func (coord) SameShard(a, b []byte) bool              { return world.ShardOf(a, 2) == world.ShardOf(b, 2) }
func (coord) CommunicationIdentifier(d uint32) string { return fmt.Sprintf("0_%d", d) }
func (coord) IsInterfaceNil() bool                    { return false }

type payable struct{}

func (payable) IsPayable([]byte) (bool, error) { return true, nil }
func (payable) IsInterfaceNil() bool           { return false }

type gasFactory interface {
	GasScheduleChange(map[string]map[string]uint64)
}

// GasEnv is the shared world of the gas rounds.
type GasEnv struct {
	Factory  gasFactory
	Cont     vmcommon.BuiltInFunctionContainer
	Notifier *world.Notifier
	Calib    vmcommon.BuiltInFunctionContainer // never repriced: schedule 1
	Tmpl     []*world.Account                  // template account of every executor slot (shard 0)
	Tok      [][]byte                          // each slot's NFT collection
	Fung     [][]byte                          // each slot's fungible token
	SC       []*world.Account                  // template of a smart-contract account owned by the slot's user
	Dest     []byte                            // a user on shard 1
	CurK     int                               // schedule in force between rounds
	CurFlag  bool                              // activation flags between rounds
	Epoch    uint32
	shared   *vmcommon.GasCost // the ONE object a caller of the public API rewrites in place and pushes with SetNewGasConfig (Reprice, direct)
}

func build(k int) (gasFactory, vmcommon.BuiltInFunctionContainer, *world.Notifier, error) {
	n := &world.Notifier{}
	f, err := builtInFunctions.NewBuiltInFunctionsFactory(builtInFunctions.ArgsCreateBuiltInFunctionContainer{
		GasMap:                              Schedule(k),
		MapDNSAddresses:                     map[string]struct{}{string(dnsAddr): {}},
		EnableUserNameChange:                true,
		Marshalizer:                         &world.Marshalizer{},
		Accounts:                            &safeAccounts{m: map[string]*world.Account{}},
		ShardCoordinator:                    coord{},
		EpochNotifier:                       n,
		ESDTNFTImprovementV1ActivationEpoch: activation,
	})
	if err != nil {
		return nil, nil, nil, err
	}
	c, err := f.CreateBuiltInFunctionContainer()
	if err != nil {
		return nil, nil, nil, err
	}
	if err := builtInFunctions.SetPayableHandler(c, payable{}); err != nil {
		return nil, nil, nil, err
	}
	return f, c, n, nil
}

var dnsAddr = scAddr(0x77, 0)

// scAddr is shaped like a smart-contract address (eight leading zero bytes).
func scAddr(b, last byte) []byte {
	a := addr(b, last)
	for i := 0; i < 8; i++ {
		a[i] = 0
	}
	a[8], a[9] = 5, 0
	return a
}

func addr(first, last byte) []byte {
	a := make([]byte, 32)
	for i := range a {
		a[i] = 0x40 + first
	}
	a[0] = first + 1
	a[31] = last
	return a
}

func nb(n uint64) []byte { return new(big.Int).SetUint64(n).Bytes() }

func input(caller, rcpt []byte, fn string, a ...[]byte) *vmcommon.ContractCallInput {
	return &vmcommon.ContractCallInput{
		VMInput:       vmcommon.VMInput{CallerAddr: caller, Arguments: a, CallValue: big.NewInt(0), GasProvided: gasAmple},
		RecipientAddr: rcpt,
		Function:      fn,
	}
}

// NewGasEnv builds the shared container, the calibration container and 15 executor accounts, each holding the
// roles of its own NFT collection and two NFTs of a large quantity.
func NewGasEnv() (*GasEnv, error) {
	f, c, n, err := build(1)
	if err != nil {
		return nil, err
	}
	_, calib, cn, err := build(1)
	if err != nil {
		return nil, err
	}
	e := &GasEnv{Factory: f, Cont: c, Notifier: n, Calib: calib, CurK: 1, Dest: addr(0x30, 1)}
	n.Confirm(0)
	cn.Confirm(activation)
	e.CurFlag, e.Epoch = false, 0
	for s := 0; s < 15; s++ {
		a := world.NewAccount(addr(byte(s), 0), nil)
		tok := []byte(fmt.Sprintf("NFT%02d-a1b2c3", s))
		setRole, err := calib.Get("ESDTSetRole")
		if err != nil {
			return nil, err
		}
		in := input(world.ESDTSC, a.Addr, "ESDTSetRole", tok, []byte("ESDTRoleNFTCreate"), []byte("ESDTRoleNFTAddQuantity"), []byte("ESDTRoleNFTAddURI"), []byte("ESDTRoleNFTUpdateAttributes"), []byte("ESDTRoleNFTBurn"))
		if _, err := setRole.ProcessBuiltinFunction(nil, a, in); err != nil {
			return nil, fmt.Errorf("setup ESDTSetRole: %v", err)
		}
		fung := []byte(fmt.Sprintf("FNG%02d-d4e5f6", s))
		in = input(world.ESDTSC, a.Addr, "ESDTSetRole", fung, []byte("ESDTRoleLocalMint"), []byte("ESDTRoleLocalBurn"))
		if _, err := setRole.ProcessBuiltinFunction(nil, a, in); err != nil {
			return nil, fmt.Errorf("setup ESDTSetRole: %v", err)
		}
		mint, err := calib.Get("ESDTLocalMint")
		if err != nil {
			return nil, err
		}
		if _, err := mint.ProcessBuiltinFunction(a, a, input(a.Addr, a.Addr, "ESDTLocalMint", fung, nb(1000000000))); err != nil {
			return nil, fmt.Errorf("setup ESDTLocalMint: %v", err)
		}
		e.Fung = append(e.Fung, fung)
		sc := world.NewAccount(scAddr(byte(s), 0), nil)
		sc.SetOwnerAddress(a.Addr)
		sc.DevReward = big.NewInt(1000)
		e.SC = append(e.SC, sc)
		create, err := calib.Get("ESDTNFTCreate")
		if err != nil {
			return nil, err
		}
		for i := 0; i < 2; i++ {
			in := input(a.Addr, a.Addr, "ESDTNFTCreate", tok, nb(1000000), []byte("name"), nb(2500), []byte("hash"), []byte("attributes"), []byte("uri"))
			if _, err := create.ProcessBuiltinFunction(a, a, in); err != nil {
				return nil, fmt.Errorf("setup ESDTNFTCreate: %v", err)
			}
		}
		e.Tmpl = append(e.Tmpl, a)
		e.Tok = append(e.Tok, tok)
	}
	return e, nil
}

// Reprice installs schedule k: the way the node does it (factory.GasScheduleChange: a fresh GasCost object per change) or the way any
// other caller of the public API may - ONE GasCost object, rewritten in place and then handed to every function with SetNewGasConfig.
// The object belongs to the caller: a function has to copy what it needs while it holds its lock.
func (e *GasEnv) Reprice(k int, direct bool) {
	if !direct {
		e.Factory.GasScheduleChange(Schedule(k))
		return
	}
	if e.shared == nil {
		e.shared = &vmcommon.GasCost{}
	}
	sched := Schedule(k)
	fill := func(v reflect.Value, m map[string]uint64) {
		for name, x := range m {
			if f := v.FieldByName(name); f.IsValid() && f.CanSet() {
				f.SetUint(x)
			}
		}
	}
	fill(reflect.ValueOf(&e.shared.BuiltInCost).Elem(), sched["BuiltInCost"])
	fill(reflect.ValueOf(&e.shared.BaseOperationCost).Elem(), sched["BaseOperationCost"])
	names := make([]string, 0, 32)
	for n := range e.Cont.Keys() {
		names = append(names, n)
	}
	sort.Strings(names)
	for _, n := range names {
		if fn, err := e.Cont.Get(n); err == nil {
			fn.SetNewGasConfig(e.shared)
		}
	}
}

// gasCall is one planned execution.
type gasCall struct {
	Fn   string
	Dst  int                                // which account objects the call receives: dstSelf, dstNil (destination on another shard / none), dstSC, dstSelfNoSnd
	In   func() *vmcommon.ContractCallInput // fresh input object for every execution
	M, N int                                // measured at schedule 1
}

const (
	dstSelf = iota
	dstNil
	dstSC
	dstSelfNoSnd // SetUserName: the DNS contract calls, the user account is the destination
)

func blob(r *rand.Rand, max int) []byte {
	b := make([]byte, 1+r.Intn(max))
	for i := range b {
		b[i] = byte('a' + r.Intn(26))
	}
	return b
}

func (e *GasEnv) planCall(r *rand.Rand, slot int) *gasCall {
	a := e.Tmpl[slot].Addr
	tok := e.Tok[slot]
	fn := PricedFns[r.Intn(len(PricedFns))]
	if r.Intn(100) < 28 {
		fn = BaseFns[r.Intn(len(BaseFns))]
	}
	fung := e.Fung[slot]
	dst := dstSelf
	sc := e.SC[slot].Addr
	var mk func() *vmcommon.ContractCallInput
	switch fn {
	case "ESDTTransfer":
		args := [][]byte{fung, nb(uint64(1 + r.Intn(5)))}
		dst = dstNil
		mk = func() *vmcommon.ContractCallInput { return input(a, e.Dest, fn, args...) }
	case "ESDTBurn":
		args := [][]byte{fung, nb(uint64(1 + r.Intn(5)))}
		dst = dstNil
		mk = func() *vmcommon.ContractCallInput { return input(a, world.ESDTSC, fn, args...) }
	case "ChangeOwnerAddress":
		dst = dstSC
		if r.Intn(2) == 0 {
			dst = dstNil // the contract lives on another shard: only the gas is taken
		}
		mk = func() *vmcommon.ContractCallInput { return input(a, sc, fn, a) }
	case "ClaimDeveloperRewards":
		dst = dstSC
		mk = func() *vmcommon.ContractCallInput { return input(a, sc, fn) }
	case "SetUserName":
		dst = dstSelfNoSnd
		name := blob(r, 12)
		mk = func() *vmcommon.ContractCallInput { return input(dnsAddr, a, fn, name) }
	case "ESDTLocalMint", "ESDTLocalBurn":
		args := [][]byte{fung, nb(uint64(1 + r.Intn(5)))}
		mk = func() *vmcommon.ContractCallInput { return input(a, a, fn, args...) }
	case "ESDTNFTAddQuantity", "ESDTNFTBurn":
		args := [][]byte{tok, nb(uint64(1 + r.Intn(2))), nb(uint64(1 + r.Intn(3)))}
		mk = func() *vmcommon.ContractCallInput { return input(a, a, fn, args...) }
	case "SaveKeyValue":
		var kv [][]byte
		for i := 1 + r.Intn(3); i > 0; i-- {
			kv = append(kv, []byte(fmt.Sprintf("key%d", r.Intn(4))), blob(r, 60))
		}
		mk = func() *vmcommon.ContractCallInput { return input(a, a, fn, kv...) }
	case "ESDTNFTCreate":
		args := [][]byte{tok, nb(uint64(1 + r.Intn(5))), blob(r, 20), nb(uint64(r.Intn(10000))), blob(r, 32), blob(r, 80)}
		for i := 1 + r.Intn(3); i > 0; i-- {
			args = append(args, blob(r, 40))
		}
		mk = func() *vmcommon.ContractCallInput { return input(a, a, fn, args...) }
	case "ESDTNFTAddURI":
		args := [][]byte{tok, nb(uint64(1 + r.Intn(2)))}
		for i := 1 + r.Intn(2); i > 0; i-- {
			args = append(args, blob(r, 50))
		}
		mk = func() *vmcommon.ContractCallInput { return input(a, a, fn, args...) }
	case "ESDTNFTUpdateAttributes":
		args := [][]byte{tok, nb(uint64(1 + r.Intn(2))), blob(r, 120)}
		mk = func() *vmcommon.ContractCallInput { return input(a, a, fn, args...) }
	case "ESDTNFTTransfer":
		args := [][]byte{tok, nb(uint64(1 + r.Intn(2))), nb(uint64(1 + r.Intn(3))), e.Dest}
		mk = func() *vmcommon.ContractCallInput { return input(a, a, fn, args...) }
	case "MultiESDTNFTTransfer":
		cnt := 1 + r.Intn(3)
		args := [][]byte{e.Dest, nb(uint64(cnt))}
		for i := 0; i < cnt; i++ {
			args = append(args, tok, nb(uint64(1+r.Intn(2))), nb(uint64(1+r.Intn(3))))
		}
		mk = func() *vmcommon.ContractCallInput { return input(a, a, fn, args...) }
	}
	return &gasCall{Fn: fn, In: mk, Dst: dst}
}

type execRes struct {
	charge int64 // -1: the execution failed
	err    string
}

func execute(c vmcommon.BuiltInFunctionContainer, call *gasCall, acc, sc *world.Account) execRes {
	fn, err := c.Get(call.Fn)
	if err != nil {
		return execRes{-1, err.Error()}
	}
	in := call.In()
	var snd, dst vmcommon.UserAccountHandler = acc, acc
	switch call.Dst {
	case dstNil:
		dst = nil
	case dstSC:
		dst = sc
	case dstSelfNoSnd:
		snd = nil
	}
	out, err := fn.ProcessBuiltinFunction(snd, dst, in)
	if err != nil || out == nil || out.ReturnCode != vmcommon.Ok {
		msg := "no output"
		if err != nil {
			msg = err.Error()
		}
		return execRes{-1, msg}
	}
	moved := uint64(0)
	for _, oa := range out.OutputAccounts {
		for _, t := range oa.OutputTransfers {
			moved += t.GasLimit
		}
	}
	return execRes{int64(in.GasProvided - out.GasRemaining - moved), ""}
}

// calibrate measures (m, n) of every planned call sequentially at schedule 1 on copies of the accounts.
func (e *GasEnv) calibrate(plans [][]*gasCall, slots []int) error {
	for g := range plans {
		acc, sc := e.Tmpl[slots[g]].Clone(nil), e.SC[slots[g]].Clone(nil)
		for _, c := range plans[g] {
			res := execute(e.Calib, c, acc, sc)
			if res.charge < 0 {
				return fmt.Errorf("calibration of %s failed: %s", c.Fn, res.err)
			}
			c.M, c.N = int(res.charge/BaseUnit), int(res.charge%BaseUnit)
			if c.M < 1 || c.N >= 10000 || (c.N < 1) != isBase(c.Fn) {
				return fmt.Errorf("calibration of %s: charge %d does not split into base and bytes", c.Fn, res.charge)
			}
		}
	}
	return nil
}

// GasRound runs one concurrent round and returns its per-function sub-histories: one "sched" register history
// per priced function that was executed (all repricings + that function's executions) and one "flag" history
// per flagged function (EpochConfirmed as Toggle, IsActive as IsSet).  Linearizability is local, and
// GasScheduleChange / EpochConfirmed visit the functions one after the other inside their call interval, so the
// recorded history is correct iff every per-function history is.
func (e *GasEnv) GasRound(r *rand.Rand, no *int) ([]*Round, error) {
	nexec := 1 + r.Intn(MaxG-2)
	if r.Intn(3) == 0 {
		nexec = 1 + r.Intn(3)
	}
	total := nexec + r.Intn(18-min(nexec, 17))
	if total > 18 {
		total = 18
	}
	slots := r.Perm(15)[:nexec]
	plans := make([][]*gasCall, nexec)
	for i := 0; i < total; i++ {
		g := i % nexec
		plans[g] = append(plans[g], e.planCall(r, slots[g]))
	}
	if err := e.calibrate(plans, slots); err != nil {
		return nil, err
	}
	nrep := 1 + r.Intn(4)
	nep := r.Intn(4)

	steps := make([][]Step, nexec+2)
	for g := range plans {
		acc, sc := e.Tmpl[slots[g]].Clone(nil), e.SC[slots[g]].Clone(nil)
		for _, c := range plans[g] {
			c := c
			if isFlagged(c.Fn) && r.Intn(2) == 0 {
				steps[g] = append(steps[g], Step{Name: "IsSet", Args: map[string]interface{}{"b": false, "fn": c.Fn}, Do: func() interface{} {
					fn, err := e.Cont.Get(c.Fn)
					if err != nil {
						return false
					}
					return fn.IsActive()
				}})
			}
			steps[g] = append(steps[g], Step{Name: "exec", Args: map[string]interface{}{"k": 0, "m": c.M, "n": c.N, "fn": c.Fn},
				Do:    func() interface{} { return execute(e.Cont, c, acc, sc) },
				Enc:   func(raw interface{}) interface{} { return int(raw.(execRes).charge) },
				Yield: r.Intn(4) == 0, Spin: r.Intn(2) * r.Intn(3000)})
		}
	}
	k := e.CurK
	for i := 0; i < nrep; i++ {
		nk := 1 + r.Intn(MaxK)
		for nk == k {
			nk = 1 + r.Intn(MaxK)
		}
		k = nk
		direct := r.Intn(3) == 0
		steps[nexec] = append(steps[nexec], Step{Name: "reprice", Args: map[string]interface{}{"k": nk, "m": 0, "n": 0},
			Do: func() interface{} { e.Reprice(nk, direct); return 0 }, Yield: r.Intn(2) == 0, Spin: r.Intn(6000)})
	}
	lastK := k
	flag := e.CurFlag
	epoch := e.Epoch
	for i := 0; i < nep; i++ {
		ep := uint32(r.Intn(10))
		epoch = ep
		flag = ep >= activation
		steps[nexec+1] = append(steps[nexec+1], Step{Name: "Toggle", Args: map[string]interface{}{"b": ep >= activation, "epoch": int(ep)},
			Do: func() interface{} { e.Notifier.Confirm(ep); return 0 }, Yield: r.Intn(2) == 0, Spin: r.Intn(6000)})
	}
	initK, initFlag := e.CurK, e.CurFlag
	ops := RunSteps(steps, r.Intn(3) == 0)
	e.CurK, e.CurFlag, e.Epoch = lastK, flag, epoch
	for i := range ops {
		if x, ok := ops[i].Raw.(execRes); ok && x.charge < 0 {
			// the same call succeeded sequentially on an identical account: logged with charge -1, which no schedule explains
			a := map[string]interface{}{"err": x.err}
			for k, v := range ops[i].Args {
				a[k] = v
			}
			ops[i].Args = a
		}
	}

	var out []*Round
	tag := fmt.Sprintf("gas execs=%d goroutines=%d reprices=%d epochs=%d", total, nexec, nrep, nep)
	for _, fn := range append(append([]string{}, PricedFns...), BaseFns...) {
		var sub []Op
		has := false
		for _, o := range ops {
			if o.Name == "reprice" {
				sub = append(sub, o)
			} else if o.Name == "exec" && o.Args["fn"] == fn {
				sub = append(sub, o)
				has = true
			}
		}
		if has {
			*no++
			out = append(out, &Round{No: *no, Kind: "sched", Init: initK, Ops: sub, Tag: tag + " fn=" + fn})
		}
	}
	for _, fn := range FlaggedFns {
		var sub []Op
		has := false
		for _, o := range ops {
			if o.Name == "Toggle" {
				sub = append(sub, o)
			} else if o.Name == "IsSet" && o.Args["fn"] == fn {
				sub = append(sub, o)
				has = true
			}
		}
		if has {
			*no++
			out = append(out, &Round{No: *no, Kind: "flag", Init: initFlag, Ops: sub, Tag: tag + " activation flag of " + fn})
		}
	}
	return out, nil
}

func isBase(fn string) bool {
	for _, f := range BaseFns {
		if f == fn {
			return true
		}
	}
	return false
}

func isFlagged(fn string) bool {
	for _, f := range FlaggedFns {
		if f == fn {
			return true
		}
	}
	return false
}

func min(a, b int) int {
	if a < b {
		return a
	}
	return b
}
