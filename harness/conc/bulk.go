package conc

import (
	"fmt"
	"math/rand"
	"sort"
	"sync"
	satomic "sync/atomic"

	vmcommon "github.com/ElrondNetwork/elrond-vm-common"
	"github.com/ElrondNetwork/elrond-vm-common/atomic"
	"github.com/ElrondNetwork/elrond-vm-common/builtInFunctions"
	"github.com/ElrondNetwork/elrond-vm-common/container"
)

// Bulk runs: many operations per goroutine WITHOUT per-operation logging and without the shared sequence
// counter (whose atomic operations would order the goroutines for the race detector and hide unsynchronised
// accesses that do not overlap in time).  Only the outcome is recorded, as {"e":"bulk"} lines the
// specification accepts iff no update was lost (BulkOK in spec/Concurrency.tla).  Their main purpose is to
// give Go's race detector thousands of unsynchronised-looking access pairs to judge (P19_NoRace).

func par(g int, body func(g int, r *rand.Rand), seed int64) {
	var wg sync.WaitGroup
	start := newGate(g)
	for i := 0; i < g; i++ {
		wg.Add(1)
		go func(i int) {
			defer wg.Done()
			r := rand.New(rand.NewSource(seed*1000 + int64(i)))
			start.arrive()
			body(i, r)
		}(i)
	}
	start.release()
	wg.Wait()
}

func bulkLine(obj string, kv ...interface{}) map[string]interface{} {
	m := args(kv...)
	m["e"] = "bulk"
	m["obj"] = obj
	return m
}

// BulkAtomics: counter (mixed adds), ticket (Increment only), flag and the four registers.
func BulkAtomics(seed int64, g, n int) []map[string]interface{} {
	var out []map[string]interface{}

	c := &atomic.Counter{}
	c.Set(3)
	sums := make([]int64, g)
	par(g, func(i int, r *rand.Rand) {
		for j := 0; j < n; j++ {
			v := int64(1 + r.Intn(9))
			switch r.Intn(6) {
			case 0:
				c.Increment()
				sums[i]++
			case 1:
				c.Decrement()
				sums[i]--
			case 2, 3:
				c.Add(v)
				sums[i] += v
			case 4:
				c.Subtract(v)
				sums[i] -= v
			default:
				_ = c.Get() + int64(c.GetUint64())
			}
		}
	}, seed)
	sum := int64(0)
	for _, s := range sums {
		sum += s
	}
	out = append(out, bulkLine("counter", "init", 3, "sum", int(sum), "final", int(c.Get()), "ops", g*n))

	t := &atomic.Counter{}
	got := make([][]int64, g)
	par(g, func(i int, r *rand.Rand) {
		for j := 0; j < n; j++ {
			got[i] = append(got[i], t.Increment())
		}
	}, seed+1)
	seen := map[int64]bool{}
	for _, l := range got {
		for _, v := range l {
			seen[v] = true
		}
	}
	out = append(out, bulkLine("ticket", "init", 0, "ops", g*n, "distinct", len(seen), "final", int(t.Get())))

	// Add and Reset mixed: nothing may fall between a Reset's read and its write
	dr := &atomic.Counter{}
	added := make([]int64, g)
	drained := make([]int64, g)
	par(g, func(i int, r *rand.Rand) {
		for j := 0; j < n; j++ {
			if r.Intn(4) == 0 {
				drained[i] += dr.Reset()
			} else {
				v := int64(1 + r.Intn(9))
				dr.Add(v)
				added[i] += v
			}
		}
	}, seed+7)
	var sa, sd int64
	for i := range added {
		sa += added[i]
		sd += drained[i]
	}
	out = append(out, bulkLine("drain", "sum", int(sa), "drained", int(sd), "final", int(dr.Get()), "ops", g*n))

	// the flag as a test-and-set bit: all goroutines Set() an unset flag at the same instant, exactly one may see "was unset"
	tf := &atomic.Flag{}
	iters := n / 4
	if iters < 50 {
		iters = 50
	}
	wins := make([]int, g)
	ph := &phaser{n: int32(g)}
	par(g, func(i int, r *rand.Rand) {
		for j := 0; j < iters; j++ {
			ph.wait()
			if !tf.Set() {
				wins[i]++
			}
			ph.wait()
			if i == 0 {
				tf.Unset()
			}
		}
	}, seed+8)
	w := 0
	for _, x := range wins {
		w += x
	}
	out = append(out, bulkLine("tas", "iters", iters, "winners", w, "ops", g*iters))

	f := &atomic.Flag{}
	lastF := make([]interface{}, g)
	par(g, func(i int, r *rand.Rand) {
		last := false
		for j := 0; j < n; j++ {
			switch r.Intn(5) {
			case 0:
				f.Set()
				last = true
			case 1:
				f.Unset()
				last = false
			case 2:
				b := r.Intn(2) == 0
				f.Toggle(b)
				last = b
			default:
				f.IsSet()
			}
		}
		f.Toggle(i%2 == 0) // every goroutine ends with a write
		last = i%2 == 0
		lastF[i] = last
	}, seed+2)
	out = append(out, bulkLine("flag", "final", f.IsSet(), "lasts", lastF))

	for ki, kind := range []string{"i64", "u32", "u64", "str"} {
		reg := newReg(kind)
		lasts := make([]interface{}, g)
		par(g, func(i int, r *rand.Rand) {
			last := 0
			for j := 0; j < n; j++ {
				if r.Intn(2) == 0 {
					last = r.Intn(10)
					reg.set(last)
				} else {
					reg.get()
				}
			}
			last = (i + 1) % 10
			reg.set(last)
			lasts[i] = written(kind, last)
		}, seed+3+int64(ki))
		out = append(out, bulkLine(kind, "final", fmt.Sprint(reg.get()), "lasts", lasts))
	}
	return out
}

// BulkMaps: every goroutine owns a key range (insert all, overwrite some, remove the odd ones) while reading
// the whole map; the final size is known.
func BulkMaps(seed int64, g, n int) []map[string]interface{} {
	var out []map[string]interface{}
	m := container.NewMutexMap()
	par(g, func(i int, r *rand.Rand) {
		for j := 0; j < n; j++ {
			k := i*1000000 + j
			m.Insert(k, j)
			m.Set(k, j+1)
			if j%2 == 1 {
				m.Remove(k)
			}
			switch r.Intn(8) {
			case 0:
				m.Len()
			case 1:
				m.Get(r.Intn(g)*1000000 + r.Intn(n))
			case 2:
				if j%16 == 0 {
					m.Keys()
				}
			case 3:
				if j%16 == 0 {
					m.Values()
				}
			}
		}
	}, seed)
	want := g * ((n + 1) / 2)
	out = append(out, bulkLine("map", "final", m.Len(), "lasts", []interface{}{want}))

	var c vmcommon.BuiltInFunctionContainer = builtInFunctions.NewBuiltInFunctionContainer()
	par(g, func(i int, r *rand.Rand) {
		for j := 0; j < n; j++ {
			k := fmt.Sprintf("f%d-%d", i, j)
			_ = c.Add(k, &StubFn{ID: j + 1})
			_ = c.Replace(k, &StubFn{ID: j + 2})
			if j%2 == 1 {
				c.Remove(k)
			}
			switch r.Intn(8) {
			case 0:
				c.Len()
			case 1:
				_, _ = c.Get(fmt.Sprintf("f%d-%d", r.Intn(g), r.Intn(n)))
			case 2:
				if j%16 == 0 {
					c.Keys()
				}
			}
		}
	}, seed+1)
	out = append(out, bulkLine("cont", "final", c.Len(), "lasts", []interface{}{want}))
	return out
}

// BulkSnapshots: aggregate reads (Len, Keys, Values) against a writer that keeps ONE token moving between two keys - it always
// inserts the other key before it removes the current one - next to `static` keys that never change.  In every state of the
// sequential map the token is under at least one of the two keys and the size is at least static+1, so a linearizable Len / Keys /
// Values can never report less (an aggregate read assembled from several moments can).  Only the outcome is recorded.
func BulkSnapshots(seed int64, g, n int) []map[string]interface{} {
	const static = 48
	if g < 2 {
		g = 2
	}
	var out []map[string]interface{}
	type tally struct{ reads, missing, short, minlen int }
	run := func(obj string, insert func(k int), remove func(k int), length func() int, keys func() []int) {
		for i := 0; i < static; i++ {
			insert(1000 + i)
		}
		insert(1)
		var stop int32
		tl := make([]tally, g)
		par(g, func(i int, r *rand.Rand) {
			if i == 0 {
				cur, other := 1, 2
				for j := 0; j < 4*n; j++ {
					insert(other)
					remove(cur)
					cur, other = other, cur
				}
				satomic.StoreInt32(&stop, 1)
				return
			}
			t := tally{minlen: 1 << 30}
			for satomic.LoadInt32(&stop) == 0 {
				t.reads++
				if l := length(); l < t.minlen {
					t.minlen = l
				}
				ks := keys()
				has := false
				for _, k := range ks {
					if k == 1 || k == 2 {
						has = true
					}
				}
				if !has {
					t.missing++
				}
				if len(ks) < static+1 {
					t.short++
				}
			}
			tl[i] = t
		}, seed)
		tot := tally{minlen: 1 << 30}
		for _, t := range tl[1:] {
			tot.reads += t.reads
			tot.missing += t.missing
			tot.short += t.short
			if t.reads > 0 && t.minlen < tot.minlen {
				tot.minlen = t.minlen
			}
		}
		if tot.reads == 0 {
			tot.minlen = static + 1
		}
		out = append(out, bulkLine(obj, "static", static, "reads", tot.reads, "minlen", tot.minlen, "missing", tot.missing, "short", tot.short))
	}
	m := container.NewMutexMap()
	useValues := seed%2 == 0 // Values() instead of Keys() on every other run (each value equals its key)
	run("snap", func(k int) { m.Insert(k, k) }, func(k int) { m.Remove(k) }, func() int { return m.Len() }, func() []int {
		var raw []interface{}
		if useValues {
			raw = m.Values()
		} else {
			raw = m.Keys()
		}
		ks := make([]int, 0, len(raw))
		for _, x := range raw {
			if v, ok := x.(int); ok {
				ks = append(ks, v)
			}
		}
		return ks
	})
	var c vmcommon.BuiltInFunctionContainer = builtInFunctions.NewBuiltInFunctionContainer()
	name := func(k int) string { return fmt.Sprintf("f%d", k) }
	run("snap", func(k int) { _ = c.Add(name(k), &StubFn{ID: k}) }, func(k int) { c.Remove(name(k)) }, func() int { return c.Len() }, func() []int {
		raw := c.Keys()
		ks := make([]int, 0, len(raw))
		for x := range raw {
			var v int
			if _, err := fmt.Sscanf(x, "f%d", &v); err == nil {
				ks = append(ks, v)
			}
		}
		return ks
	})
	return out
}

type triple struct{ c, m, n int }

// BulkGas: executors, one repricer and one epoch notifier hammer the shared container; every distinct
// (charge, m, n) observed is reported and decoded by the specification (P19_OneSchedule without the
// "current during the call" part, which needs the logged rounds).
func (e *GasEnv) BulkGas(seed int64, g, n int) (map[string]interface{}, error) {
	if g > 14 {
		g = 14
	}
	// every call is planned and measured beforehand, sequentially, on a fresh copy of its slot's account: a failure or a
	// different charge in the concurrent phase below can then only come from the concurrency
	plans := make([][]*gasCall, g)
	for i := 0; i < g; i++ {
		r := rand.New(rand.NewSource(seed*1000 + 500 + int64(i)))
		for j := 0; j < n; j++ {
			c := e.planCall(r, i)
			res := execute(e.Calib, c, e.Tmpl[i].Clone(nil), e.SC[i].Clone(nil))
			if res.charge < 0 {
				return nil, fmt.Errorf("calibration of %s failed: %s", c.Fn, res.err)
			}
			c.M, c.N = int(res.charge/BaseUnit), int(res.charge%BaseUnit)
			plans[i] = append(plans[i], c)
		}
	}
	seen := make([]map[triple]bool, g)
	stop := make(chan struct{})
	var bg sync.WaitGroup
	bg.Add(2)
	lastK, lastEp := e.CurK, e.Epoch
	go func() {
		defer bg.Done()
		r := rand.New(rand.NewSource(seed*7 + 1))
		for {
			select {
			case <-stop:
				return
			default:
			}
			lastK = 1 + r.Intn(MaxK)
			e.Reprice(lastK, r.Intn(3) == 0)
			if r.Intn(3) == 0 {
				yield()
			}
		}
	}()
	go func() {
		defer bg.Done()
		r := rand.New(rand.NewSource(seed*7 + 2))
		for {
			select {
			case <-stop:
				return
			default:
			}
			lastEp = uint32(r.Intn(10))
			e.Notifier.Confirm(lastEp)
			yield()
		}
	}()
	execs := 0
	var mu sync.Mutex
	par(g, func(i int, r *rand.Rand) {
		seen[i] = map[triple]bool{}
		for _, c := range plans[i] {
			if fn, err := e.Cont.Get(c.Fn); err == nil {
				fn.IsActive()
			}
			got := execute(e.Cont, c, e.Tmpl[i].Clone(nil), e.SC[i].Clone(nil))
			seen[i][triple{int(got.charge), c.M, c.N}] = true
		}
		mu.Lock()
		execs += len(plans[i])
		mu.Unlock()
	}, seed)
	close(stop)
	bg.Wait()
	e.CurK, e.Epoch, e.CurFlag = lastK, lastEp, lastEp >= activation
	all := map[triple]bool{}
	for _, s := range seen {
		for t := range s {
			all[t] = true
		}
	}
	var l []triple
	for t := range all {
		l = append(l, t)
	}
	sort.Slice(l, func(a, b int) bool {
		if l[a].c != l[b].c {
			return l[a].c < l[b].c
		}
		if l[a].m != l[b].m {
			return l[a].m < l[b].m
		}
		return l[a].n < l[b].n
	})
	charges := make([]interface{}, 0, len(l))
	for _, t := range l {
		charges = append(charges, map[string]interface{}{"c": t.c, "m": t.m, "n": t.n})
	}
	return bulkLine("gas", "execs", execs, "charges", charges), nil
}
