package conc

import (
	"fmt"
	"math/rand"
	"runtime"
	"sort"

	vmcommon "github.com/ElrondNetwork/elrond-vm-common"
	"github.com/ElrondNetwork/elrond-vm-common/atomic"
	"github.com/ElrondNetwork/elrond-vm-common/builtInFunctions"
	"github.com/ElrondNetwork/elrond-vm-common/container"
)

func yield() { runtime.Gosched() }

// Kinds of object rounds (the gas rounds are in gas.go).
var ObjectKinds = []string{"map", "cont", "flag", "counter", "i64", "u32", "u64", "str"}

func args(kv ...interface{}) map[string]interface{} {
	m := map[string]interface{}{}
	for i := 0; i+1 < len(kv); i += 2 {
		m[kv[i].(string)] = kv[i+1]
	}
	return m
}

// lockstep decides whether the goroutines of a round meet at a barrier before every operation. More than 8
// operations issued at the same instant make the search for a linearization expensive (2^n subsets of pending
// operations), so the large rounds run free.
func lockstep(r *rand.Rand, goroutines int) bool { return goroutines <= 8 && r.Intn(2) == 0 }

// MaxG bounds the number of goroutines of a round (2..MaxG). The race build runs with 8: its instrumented
// operations are slow, nearly all of them overlap, and the search for a linearization grows with 2^overlap.
var MaxG = 16

// shape draws the number of goroutines (2..MaxG) and distributes at most maxOps operations over them.
func shape(r *rand.Rand, maxOps int) []int {
	g := 2 + r.Intn(MaxG-1)
	if r.Intn(3) == 0 {
		g = 2 + r.Intn(3) // long per-goroutine programs
	}
	total := g
	if maxOps > g {
		total = g + r.Intn(maxOps-g+1)
	}
	if total < 6 && maxOps >= 6 {
		total = 6
	}
	n := make([]int, g)
	for i := 0; i < total; i++ {
		n[i%g]++
	}
	return n
}

// ObjectRound runs one round of the given kind on a fresh object of the real library.
func ObjectRound(kind string, r *rand.Rand, no int) *Round {
	switch kind {
	case "map":
		return mapRound(r, no)
	case "cont":
		return contRound(r, no)
	case "flag":
		return flagRound(r, no)
	case "counter":
		return counterRound(r, no)
	case "i64", "u32", "u64", "str":
		return regRound(kind, r, no)
	}
	panic("conc: unknown kind " + kind)
}

// ---- container.MutexMap: keys 1..3, pairwise distinct values

type getRes struct {
	v  interface{}
	ok bool
}

func intsOf(l []interface{}) []int {
	out := make([]int, 0, len(l))
	for _, x := range l {
		if i, ok := x.(int); ok {
			out = append(out, i)
		} else {
			out = append(out, -999) // a foreign element can never match the specification
		}
	}
	sort.Ints(out)
	return out
}

func mapSteps(m *container.MutexMap, r *rand.Rand, g, n int) []Step {
	var steps []Step
	for i := 0; i < n; i++ {
		k := 1 + r.Intn(3)
		if r.Intn(4) == 0 {
			k = 1 // contention on one key
		}
		v := (g+1)*100 + i + 1
		var s Step
		switch x := r.Intn(100); {
		case x < 25:
			s = Step{Name: "Get", Args: args("k", k, "v", 0), Do: func() interface{} { v, ok := m.Get(k); return getRes{v, ok} },
				Enc: func(raw interface{}) interface{} {
					gr := raw.(getRes)
					val := -1
					if gr.v != nil {
						val, _ = gr.v.(int)
					}
					return map[string]interface{}{"v": val, "ok": gr.ok}
				}}
		case x < 45:
			s = Step{Name: "Insert", Args: args("k", k, "v", v), Do: func() interface{} { return m.Insert(k, v) }}
		case x < 60:
			s = Step{Name: "Set", Args: args("k", k, "v", v), Do: func() interface{} { m.Set(k, v); return 0 }}
		case x < 75:
			s = Step{Name: "Remove", Args: args("k", k, "v", 0), Do: func() interface{} { m.Remove(k); return 0 }}
		case x < 85:
			s = Step{Name: "Len", Args: args("k", 0, "v", 0), Do: func() interface{} { return m.Len() }}
		case x < 94:
			s = Step{Name: "Keys", Args: args("k", 0, "v", 0), Do: func() interface{} { return m.Keys() },
				Enc: func(raw interface{}) interface{} { return intsOf(raw.([]interface{})) }}
		default:
			s = Step{Name: "Values", Args: args("k", 0, "v", 0), Do: func() interface{} { return m.Values() },
				Enc: func(raw interface{}) interface{} { return intsOf(raw.([]interface{})) }}
		}
		s.Yield, s.Spin = r.Intn(6) == 0, r.Intn(3)*r.Intn(120)
		steps = append(steps, s)
	}
	return steps
}

func mapRound(r *rand.Rand, no int) *Round {
	m := container.NewMutexMap()
	n := shape(r, 21)
	plans := make([][]Step, len(n))
	for g := range n {
		plans[g] = mapSteps(m, r, g, n[g])
	}
	ops := RunSteps(plans, lockstep(r, len(n)))
	// final observations after the join: what is in the map now
	fin := []Step{
		{Name: "Keys", Args: args("k", 0, "v", 0), Do: func() interface{} { return m.Keys() }, Enc: func(raw interface{}) interface{} { return intsOf(raw.([]interface{})) }},
		{Name: "Values", Args: args("k", 0, "v", 0), Do: func() interface{} { return m.Values() }, Enc: func(raw interface{}) interface{} { return intsOf(raw.([]interface{})) }},
		{Name: "Len", Args: args("k", 0, "v", 0), Do: func() interface{} { return m.Len() }},
	}
	ops = append(ops, After(fin)...)
	return &Round{No: no, Kind: "map", Init: 0, Ops: ops, Tag: fmt.Sprintf("g=%d", len(n))}
}

// ---- builtInFunctions.functionContainer: names f1..f3 and "", stub functions identified by a number

// StubFn is the smallest BuiltinFunction: only its identity matters.
type StubFn struct{ ID int }

func (s *StubFn) ProcessBuiltinFunction(_, _ vmcommon.UserAccountHandler, _ *vmcommon.ContractCallInput) (*vmcommon.VMOutput, error) {
	return &vmcommon.VMOutput{}, nil
}
func (s *StubFn) SetNewGasConfig(_ *vmcommon.GasCost) {}
func (s *StubFn) IsActive() bool                      { return true }
func (s *StubFn) IsInterfaceNil() bool                { return s == nil }

// ErrClass maps an error of the container to the result classes of spec/Concurrency.tla: "nil" (no error) or "err".  WHICH error a
// refused call reports (the key, the element, "already there") is not part of the property - a map is linearizable by what succeeds,
// what fails and what is returned - so a refusal is a refusal (a doubly-invalid call may name either reason).
func ErrClass(err error) string {
	if err == nil {
		return "nil"
	}
	return "err"
}

type contGet struct {
	fn  vmcommon.BuiltinFunction
	err error
}

func keysOf(m map[string]struct{}) []string {
	out := make([]string, 0, len(m))
	for k := range m {
		out = append(out, k)
	}
	sort.Strings(out)
	return out
}

func contSteps(c vmcommon.BuiltInFunctionContainer, r *rand.Rand, g, n int) []Step {
	names := []string{"f1", "f2", "f3"}
	var steps []Step
	for i := 0; i < n; i++ {
		k := names[r.Intn(3)]
		if r.Intn(4) == 0 {
			k = "f1"
		}
		id := (g+1)*100 + i + 1
		var fn vmcommon.BuiltinFunction = &StubFn{ID: id}
		if x := r.Intn(100); x < 6 {
			id, fn = 0, nil // untyped nil
		} else if x < 12 {
			id, fn = 0, (*StubFn)(nil) // typed nil pointer
		}
		if r.Intn(14) == 0 {
			k = ""
		}
		var s Step
		switch x := r.Intn(100); {
		case x < 25:
			s = Step{Name: "Get", Args: args("k", k, "v", 0), Do: func() interface{} { f, err := c.Get(k); return contGet{f, err} },
				Enc: func(raw interface{}) interface{} {
					cg := raw.(contGet)
					fid := 0
					if st, ok := cg.fn.(*StubFn); ok && st != nil {
						fid = st.ID
					} else if cg.fn != nil {
						fid = -999
					}
					return map[string]interface{}{"id": fid, "err": ErrClass(cg.err)}
				}}
		case x < 48:
			s = Step{Name: "Add", Args: args("k", k, "v", id), Do: func() interface{} { return c.Add(k, fn) }, Enc: encErr}
		case x < 64:
			s = Step{Name: "Replace", Args: args("k", k, "v", id), Do: func() interface{} { return c.Replace(k, fn) }, Enc: encErr}
		case x < 78:
			s = Step{Name: "Remove", Args: args("k", k, "v", 0), Do: func() interface{} { c.Remove(k); return 0 }}
		case x < 88:
			s = Step{Name: "Len", Args: args("k", "", "v", 0), Do: func() interface{} { return c.Len() }}
		default:
			s = Step{Name: "Keys", Args: args("k", "", "v", 0), Do: func() interface{} { return c.Keys() },
				Enc: func(raw interface{}) interface{} { return keysOf(raw.(map[string]struct{})) }}
		}
		s.Yield, s.Spin = r.Intn(6) == 0, r.Intn(3)*r.Intn(120)
		steps = append(steps, s)
	}
	return steps
}

func encErr(raw interface{}) interface{} {
	if raw == nil {
		return "nil"
	}
	return ErrClass(raw.(error))
}

func contRound(r *rand.Rand, no int) *Round {
	var c vmcommon.BuiltInFunctionContainer = builtInFunctions.NewBuiltInFunctionContainer()
	n := shape(r, 22)
	plans := make([][]Step, len(n))
	for g := range n {
		plans[g] = contSteps(c, r, g, n[g])
	}
	ops := RunSteps(plans, lockstep(r, len(n)))
	fin := []Step{
		{Name: "Keys", Args: args("k", "", "v", 0), Do: func() interface{} { return c.Keys() }, Enc: func(raw interface{}) interface{} { return keysOf(raw.(map[string]struct{})) }},
		{Name: "Len", Args: args("k", "", "v", 0), Do: func() interface{} { return c.Len() }},
	}
	ops = append(ops, After(fin)...)
	return &Round{No: no, Kind: "cont", Init: 0, Ops: ops, Tag: fmt.Sprintf("g=%d", len(n))}
}

// ---- atomic.Flag

func flagRound(r *rand.Rand, no int) *Round {
	f := &atomic.Flag{}
	init := r.Intn(2) == 0
	f.Toggle(init)
	n := shape(r, 23)
	plans := make([][]Step, len(n))
	for g := range n {
		for i := 0; i < n[g]; i++ {
			var s Step
			switch x := r.Intn(100); {
			case x < 30:
				s = Step{Name: "Set", Args: args("b", false), Do: func() interface{} { return f.Set() }}
			case x < 50:
				s = Step{Name: "Unset", Args: args("b", false), Do: func() interface{} { f.Unset(); return 0 }}
			case x < 70:
				b := r.Intn(2) == 0
				s = Step{Name: "Toggle", Args: args("b", b), Do: func() interface{} { f.Toggle(b); return 0 }}
			default:
				s = Step{Name: "IsSet", Args: args("b", false), Do: func() interface{} { return f.IsSet() }}
			}
			s.Yield, s.Spin = r.Intn(6) == 0, r.Intn(3)*r.Intn(120)
			plans[g] = append(plans[g], s)
		}
	}
	ops := RunSteps(plans, lockstep(r, len(n)))
	ops = append(ops, After([]Step{{Name: "IsSet", Args: args("b", false), Do: func() interface{} { return f.IsSet() }}})...)
	return &Round{No: no, Kind: "flag", Init: init, Ops: ops, Tag: fmt.Sprintf("g=%d", len(n))}
}

// ---- atomic.Counter (small operands: the specification computes with TLC's 32-bit integers)

func i64(v int64) interface{} { return int(v) }

func counterRound(r *rand.Rand, no int) *Round {
	c := &atomic.Counter{}
	init := int64(r.Intn(7) - 3)
	c.Set(init)
	n := shape(r, 22)
	addsOnly := r.Intn(3) == 0 // only commutative updates: the final Get must be init + sum (P19_NoLostUpdate in its plainest form)
	plans := make([][]Step, len(n))
	for g := range n {
		for i := 0; i < n[g]; i++ {
			v := int64(1 + r.Intn(9))
			var s Step
			x := r.Intn(100)
			if addsOnly {
				x = r.Intn(60)
			}
			switch {
			case x < 18:
				s = Step{Name: "Increment", Args: args("v", 0), Do: func() interface{} { return i64(c.Increment()) }}
			case x < 30:
				s = Step{Name: "Decrement", Args: args("v", 0), Do: func() interface{} { return i64(c.Decrement()) }}
			case x < 46:
				s = Step{Name: "Add", Args: args("v", int(v)), Do: func() interface{} { return i64(c.Add(v)) }}
			case x < 60:
				s = Step{Name: "Subtract", Args: args("v", int(v)), Do: func() interface{} { return i64(c.Subtract(v)) }}
			case x < 68:
				sv := v - 5
				s = Step{Name: "Set", Args: args("v", int(sv)), Do: func() interface{} { c.Set(sv); return 0 }}
			case x < 76:
				s = Step{Name: "Reset", Args: args("v", 0), Do: func() interface{} { return i64(c.Reset()) }}
			case x < 90:
				s = Step{Name: "Get", Args: args("v", 0), Do: func() interface{} { return i64(c.Get()) }}
			default:
				s = Step{Name: "GetUint64", Args: args("v", 0), Do: func() interface{} { return int(c.GetUint64()) }}
			}
			s.Yield, s.Spin = r.Intn(6) == 0, r.Intn(3)*r.Intn(120)
			plans[g] = append(plans[g], s)
		}
	}
	ops := RunSteps(plans, lockstep(r, len(n)))
	ops = append(ops, After([]Step{
		{Name: "Get", Args: args("v", 0), Do: func() interface{} { return i64(c.Get()) }},
		{Name: "GetUint64", Args: args("v", 0), Do: func() interface{} { return int(c.GetUint64()) }},
	})...)
	tag := fmt.Sprintf("g=%d", len(n))
	if addsOnly {
		tag += " addsOnly"
	}
	return &Round{No: no, Kind: "counter", Init: int(init), Ops: ops, Tag: tag}
}

// ---- atomic.Int64 / Uint32 / Uint64 / String: values are logged as strings (full-width patterns, opaque to the specification)

type register interface {
	set(i int)
	get() interface{} // raw value; formatted with fmt.Sprint after the round
}

var pat64 = []uint64{0, 1, 0xFFFFFFFFFFFFFFFF, 0xAAAAAAAA55555555, 0x55555555AAAAAAAA, 0x00000000FFFFFFFF, 0xFFFFFFFF00000000, 0x8000000000000000, 0x7FFFFFFFFFFFFFFF, 0x0123456789ABCDEF}

type regI64 struct{ x atomic.Int64 }

func (r *regI64) set(i int)        { r.x.Set(int64(pat64[i%len(pat64)])) }
func (r *regI64) get() interface{} { return r.x.Get() }

type regU64 struct{ x atomic.Uint64 }

func (r *regU64) set(i int)        { r.x.Set(pat64[i%len(pat64)]) }
func (r *regU64) get() interface{} { return r.x.Get() }

type regU32 struct{ x atomic.Uint32 }

func (r *regU32) set(i int)        { r.x.Set(uint32(pat64[i%len(pat64)] >> 7)) }
func (r *regU32) get() interface{} { return r.x.Get() }

type regStr struct{ x atomic.String }

var patStr = []string{"", "a", "bb", "a longer string value that does not fit a machine word", "ccc", "e e", "0", "x", "yy", "zzz"}

func (r *regStr) set(i int)        { r.x.Set(patStr[i%len(patStr)]) }
func (r *regStr) get() interface{} { return r.x.Get() }

func newReg(kind string) register {
	switch kind {
	case "i64":
		return &regI64{}
	case "u32":
		return &regU32{}
	case "u64":
		return &regU64{}
	}
	return &regStr{}
}

// written returns the logged form of the value set(i) stores.
func written(kind string, i int) string {
	r := newReg(kind)
	r.set(i)
	return fmt.Sprint(r.get())
}

func regRound(kind string, r *rand.Rand, no int) *Round {
	reg := newReg(kind)
	init := fmt.Sprint(reg.get()) // the zero value: "0" or ""
	str := func(raw interface{}) interface{} { return fmt.Sprint(raw) }
	n := shape(r, 23)
	plans := make([][]Step, len(n))
	for g := range n {
		for i := 0; i < n[g]; i++ {
			var s Step
			if r.Intn(100) < 45 {
				vi := r.Intn(10)
				s = Step{Name: "Set", Args: args("v", written(kind, vi)), Do: func() interface{} { reg.set(vi); return 0 }}
			} else {
				s = Step{Name: "Get", Args: args("v", ""), Do: reg.get, Enc: str}
			}
			s.Yield, s.Spin = r.Intn(6) == 0, r.Intn(3)*r.Intn(120)
			plans[g] = append(plans[g], s)
		}
	}
	ops := RunSteps(plans, lockstep(r, len(n)))
	ops = append(ops, After([]Step{{Name: "Get", Args: args("v", ""), Do: reg.get, Enc: str}})...)
	return &Round{No: no, Kind: kind, Init: init, Ops: ops, Tag: fmt.Sprintf("g=%d", len(n))}
}
