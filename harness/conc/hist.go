// Package conc drives the concurrent objects of the library (container.MutexMap, the built-in function
// container, the atomic types, the priced built-in functions under gas-schedule changes) from several
// goroutines and records call/return histories that spec/LinTrace.tla checks for linearizability
// (property C19).
//
// Every operation is bracketed by two draws from ONE atomic counter (Go's sync/atomic, not the library's
// atomic package, which is under test): one immediately before the call, one immediately after the
// return.  The log is ordered by these sequence numbers, never by wall-clock time, so "a's return
// precedes b's call in the log" implies real-time precedence.
package conc

import (
	"bufio"
	"encoding/json"
	"fmt"
	"os"
	"sort"
	"sync"
	"sync/atomic"
)

// Seq is the one shared sequence counter of the process.
var Seq int64

func tick() int64 { return atomic.AddInt64(&Seq, 1) }

// Op is one completed operation of a history.
type Op struct {
	G    int                    // goroutine id, 1..16 (0 = the driver after the join)
	Name string                 // operation name as in spec/Concurrency.tla
	Args map[string]interface{} // k, v, b, m, n
	Res  interface{}            // JSON-able result, shaped like the specification's result
	Raw  interface{}            // what the call returned (not logged)
	CSeq int64                  // drawn immediately before the call
	RSeq int64                  // drawn immediately after the return
}

// Round is one short history over one fresh object.
type Round struct {
	No    int
	Kind  string
	Init  interface{}
	Ops   []Op
	Extra []map[string]interface{} // bulk / race lines, placed after the operations
	Tag   string                   // free text for humans (driver parameters), not read by the specification
}

// Writer writes rounds in the line format of spec/LinTrace.tla.
type Writer struct {
	f        *os.File
	w        *bufio.Writer
	Lines    int
	Rounds   int
	Ops      int
	Overlaps int            // pairs of operations of one round that overlapped in the log (a vacuity counter)
	ByKind   map[string]int // rounds per kind
	OpNames  map[string]int // operations per kind.name
	raceLog  string
	raceSeen int64
	Races    int
	RaceText string
	mu       sync.Mutex
}

// NewWriter opens the trace file. raceLog is the log_path given to GORACE ("" = not a race build).
func NewWriter(path, raceLog string) (*Writer, error) {
	f, err := os.Create(path)
	if err != nil {
		return nil, err
	}
	return &Writer{f: f, w: bufio.NewWriterSize(f, 1<<20), ByKind: map[string]int{}, OpNames: map[string]int{}, raceLog: raceLog}, nil
}

// raceReport returns the text the race detector wrote since the last look (it writes its reports
// unbuffered to <log_path>.<pid>).
func (w *Writer) raceReport() string {
	if w.raceLog == "" {
		return ""
	}
	p := fmt.Sprintf("%s.%d", w.raceLog, os.Getpid())
	st, err := os.Stat(p)
	if err != nil || st.Size() <= w.raceSeen {
		return ""
	}
	b, err := os.ReadFile(p)
	if err != nil {
		return ""
	}
	txt := string(b[w.raceSeen:])
	w.raceSeen = st.Size()
	return txt
}

func (w *Writer) line(m map[string]interface{}) {
	b, err := json.Marshal(m)
	if err != nil {
		panic(err)
	}
	w.w.Write(b)
	w.w.WriteByte('\n')
	w.Lines++
}

// Write emits one round. A data race reported while the round ran becomes a {"e":"race"} line, for
// which the specification has no action.
func (w *Writer) Write(r *Round) {
	w.mu.Lock()
	defer w.mu.Unlock()
	if txt := w.raceReport(); txt != "" {
		w.Races++
		if w.RaceText == "" {
			w.RaceText = txt
			if len(w.RaceText) > 6000 {
				w.RaceText = w.RaceText[:6000]
			}
		}
		first := txt
		if len(first) > 1500 {
			first = first[:1500]
		}
		r.Extra = append(r.Extra, map[string]interface{}{"e": "race", "round": r.No, "report": first})
	}
	type ev struct {
		seq int64
		op  int
		ret bool
	}
	evs := make([]ev, 0, 2*len(r.Ops))
	for i, o := range r.Ops {
		evs = append(evs, ev{o.CSeq, i, false}, ev{o.RSeq, i, true})
		w.OpNames[r.Kind+"."+o.Name]++
	}
	sort.Slice(evs, func(a, b int) bool { return evs[a].seq < evs[b].seq })
	start := w.Lines + 1 // line number of the reset marker
	retLine := make([]int, len(r.Ops))
	for i, e := range evs {
		if e.ret {
			retLine[e.op] = start + 1 + i
		}
	}
	next := start + 1 + len(evs) + len(r.Extra)
	w.line(map[string]interface{}{"e": "reset", "round": r.No, "kind": r.Kind, "init": r.Init, "next": next, "tag": r.Tag})
	open := 0
	for _, e := range evs {
		o := &r.Ops[e.op]
		if e.ret {
			open--
			w.line(map[string]interface{}{"e": "ret", "g": o.G, "r": o.Res, "seq": e.seq})
			continue
		}
		w.Overlaps += open
		open++
		m := map[string]interface{}{"e": "call", "g": o.G, "op": o.Name, "rl": retLine[e.op], "seq": e.seq}
		for k, v := range o.Args {
			m[k] = v
		}
		w.line(m)
	}
	for _, x := range r.Extra {
		w.line(x)
	}
	w.Rounds++
	w.Ops += len(r.Ops)
	w.ByKind[r.Kind]++
}

// Close writes the end marker.
func (w *Writer) Close() error {
	w.line(map[string]interface{}{"e": "end"})
	if err := w.w.Flush(); err != nil {
		return err
	}
	return w.f.Close()
}

// Stats is what the subcommand prints.
func (w *Writer) Stats() map[string]interface{} {
	return map[string]interface{}{"lines": w.Lines, "rounds": w.Rounds, "ops": w.Ops, "overlaps": w.Overlaps, "by_kind": w.ByKind,
		"op_names": w.OpNames, "races": w.Races, "race_text": w.RaceText}
}

// ---- running a round: every goroutine executes its planned operations back to back

// Step is one planned operation: Do runs it on the real object and returns the raw result; the raw
// result is turned into its logged form only after the round (nothing but the call sits between the
// two draws of the sequence counter).
type Step struct {
	Name  string
	Args  map[string]interface{}
	Do    func() interface{}
	Enc   func(raw interface{}) interface{}
	Yield bool // runtime.Gosched() before the operation (varies the interleavings)
	Spin  int  // iterations of an empty loop before the operation
}

type done struct {
	raw        interface{}
	cseq, rseq int64
}

// gate is a spinning start barrier: the goroutines of a round must really start together, otherwise the first
// one has finished its few sub-microsecond operations before the second one is scheduled.
type gate struct {
	waiting int32
	open    int32
}

func newGate(n int) *gate { return &gate{waiting: int32(n)} }

// arrive is called by every goroutine; it returns when release has been called.
func (b *gate) arrive() {
	atomic.AddInt32(&b.waiting, -1)
	for i := 0; atomic.LoadInt32(&b.open) == 0; i++ {
		if i > 2000 {
			yield()
		}
	}
}

// release waits until everybody has arrived and opens the gate.
func (b *gate) release() {
	for atomic.LoadInt32(&b.waiting) > 0 {
		yield()
	}
	atomic.StoreInt32(&b.open, 1)
}

// spin burns a few nanoseconds outside the operation windows to de-synchronise the goroutines.
func spin(n int) int {
	x := 0
	for i := 0; i < n; i++ {
		x += i
	}
	return x
}

// phaser is a reusable spinning barrier.
type phaser struct {
	n, count, phase int32
}

func (p *phaser) wait() {
	ph := atomic.LoadInt32(&p.phase)
	if atomic.AddInt32(&p.count, 1) == p.n {
		atomic.StoreInt32(&p.count, 0)
		atomic.AddInt32(&p.phase, 1)
		return
	}
	for i := 0; atomic.LoadInt32(&p.phase) == ph; i++ {
		if i > 2000 {
			yield()
		}
	}
}

// RunSteps starts one goroutine per plan, releases them together and waits for all of them.
// With lockstep the goroutines also meet at a barrier before every operation, so that their i-th operations
// are issued at (nearly) the same instant: without it each core tends to run its few sub-microsecond
// operations in one burst and little real contention arises.
func RunSteps(plans [][]Step, lockstep bool) []Op {
	res := make([][]done, len(plans))
	var wg sync.WaitGroup
	start := newGate(len(plans))
	longest := 0
	for g := range plans {
		if len(plans[g]) > longest {
			longest = len(plans[g])
		}
	}
	ph := &phaser{n: int32(len(plans))}
	for g := range plans {
		res[g] = make([]done, len(plans[g]))
		wg.Add(1)
		go func(g int) {
			defer wg.Done()
			start.arrive()
			for i := 0; i < longest; i++ {
				if lockstep {
					ph.wait()
				}
				if i >= len(plans[g]) {
					if lockstep {
						continue
					}
					break
				}
				s := &plans[g][i]
				if s.Yield && !lockstep {
					yield()
				}
				if s.Spin > 0 {
					spin(s.Spin)
				}
				c := tick()
				raw := s.Do()
				r := tick()
				res[g][i] = done{raw, c, r}
			}
		}(g)
	}
	start.release()
	wg.Wait()
	var ops []Op
	for g := range plans {
		for i, s := range plans[g] {
			d := res[g][i]
			ops = append(ops, Op{G: g + 1, Name: s.Name, Args: s.Args, Res: enc(s, d.raw), Raw: d.raw, CSeq: d.cseq, RSeq: d.rseq})
		}
	}
	return ops
}

func enc(s Step, raw interface{}) interface{} {
	if s.Enc != nil {
		return s.Enc(raw)
	}
	return raw
}

// After runs steps sequentially on the driver's goroutine (id 0) after the join: the final observations.
func After(steps []Step) []Op {
	var ops []Op
	for _, s := range steps {
		c := tick()
		raw := s.Do()
		r := tick()
		ops = append(ops, Op{G: 0, Name: s.Name, Args: s.Args, Res: enc(s, raw), Raw: raw, CSeq: c, RSeq: r})
	}
	return ops
}
