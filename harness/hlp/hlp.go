// Package hlp executes case-table rows of property C20 against the real helper functions of the
// repository (code metadata, ESDT flag bytes, address classification, output-account merging,
// checked subtraction) and records what they returned. It contains no expectations: the laws live in
// spec/Helpers.tla and are evaluated by TLC on the recorded rows (spec/HelpersTrace.tla).
package hlp

import (
	"bytes"
	"encoding/json"
	"fmt"
	"math/big"
	"math/rand"
	"sort"

	vmcommon "github.com/ElrondNetwork/elrond-vm-common"
	"github.com/ElrondNetwork/elrond-vm-common/builtInFunctions"
)

// Bad marks an amount that is not an exact, in-range multiple of the row's scale.
const Bad = -(1 << 30)

// B is a byte string written as a JSON array of integers (never null).
type B []int

// MarshalJSON writes [] for an empty string.
func (b B) MarshalJSON() ([]byte, error) {
	if len(b) == 0 {
		return []byte("[]"), nil
	}
	return json.Marshal([]int(b))
}

// Bytes converts to a Go byte slice (non-nil).
func (b B) Bytes() []byte {
	r := make([]byte, len(b))
	for i, x := range b {
		r[i] = byte(x)
	}
	return r
}

// FromBytes converts a Go byte slice.
func FromBytes(x []byte) B {
	r := make(B, len(x))
	for i, v := range x {
		r[i] = int(v)
	}
	return r
}

// Limbs writes an unsigned number as n 16-bit limbs, most significant first.
func Limbs(v uint64, n int) B {
	r := make(B, n)
	for i := n - 1; i >= 0; i-- {
		r[i] = int(v & 0xffff)
		v >>= 16
	}
	return r
}

// Unlimbs reads a limb sequence.
func Unlimbs(b B) uint64 {
	var v uint64
	for _, x := range b {
		v = v<<16 | uint64(x&0xffff)
	}
	return v
}

// Opt is a *big.Int: nil flag and exact quotient by the row's scale.
type Opt struct {
	Nil bool  `json:"nil"`
	Q   int64 `json:"q"`
}

// Upd is one entry of a StorageUpdates map.
type Upd struct {
	K    B `json:"k"`
	Off  B `json:"off"`
	Data B `json:"data"`
}

// SU is a StorageUpdates map.
type SU struct {
	Nil bool  `json:"nil"`
	E   []Upd `json:"e"`
}

// Dep is CodeDeployerAddress (nil distinguished from empty).
type Dep struct {
	Nil bool `json:"nil"`
	B   B    `json:"b"`
}

// Tr is an output transfer.
type Tr struct {
	V    Opt `json:"v"`
	GL   B   `json:"gl"`
	GLK  B   `json:"glk"`
	Data B   `json:"data"`
	CT   int `json:"ct"`
	Snd  B   `json:"snd"`
}

// Acct is an output account in the format of spec/Helpers.tla.
type Acct struct {
	Addr  B    `json:"addr"`
	Nonce B    `json:"nonce"`
	Bal   Opt  `json:"bal"`
	Delta Opt  `json:"delta"`
	SU    SU   `json:"su"`
	Code  B    `json:"code"`
	CM    B    `json:"cm"`
	Dep   Dep  `json:"dep"`
	Tr    []Tr `json:"tr"`
	Gas   B    `json:"gas"`
	// construction details that are not part of the abstract value
	Spare int `json:"spare"` // spare capacity given to the transfer slice
}

// Row is a case (input fields) and, after execution, the observation (output fields).
type Row struct {
	K string `json:"k"`
	// inputs
	Bs    B      `json:"b"`   // bytes rows: the byte string
	M     []bool `json:"m"`   // enc rows: payable, upgradeable, readable
	S     B      `json:"s"`   // addr rows: the byte string
	IDs   []B    `json:"ids"` // addr rows: identifiers for IsSmartContractOnMetachain
	X     B      `json:"x"`   // sub rows: a (4 limbs)
	Y     B      `json:"y"`   // sub rows: b
	I     int    `json:"i"`   // merge rows: numbers into the domain, or -1 with o/a/c inline
	J     int    `json:"j"`
	H     int    `json:"h"`
	Scale string `json:"scale,omitempty"`
	O     *Acct  `json:"o,omitempty"`
	A     *Acct  `json:"a,omitempty"`
	C     *Acct  `json:"c,omitempty"`
	Dom   []Acct `json:"dom,omitempty"` // mergedom / hdr rows
	RD    []B    `json:"rd,omitempty"`  // rdata rows: VMOutput.ReturnData
	Kind  int    `json:"kind"`          // rdata rows: ReturnDataKind;  rcode rows: the return code
	VS    string `json:"vs"`            // rdata / rcode rows: the string observed
	// observations
	Res    string `json:"res"`
	Panic  string `json:"panic,omitempty"`
	CD     []bool `json:"cd,omitempty"` // decoded code metadata: payable, upgradeable, readable
	CE     B      `json:"ce"`           // its encoding
	CB     []bool `json:"cb,omitempty"` // enc rows: decoding of the encoding
	GD     bool   `json:"gd"`
	GE     B      `json:"ge"`
	GB     bool   `json:"gb"`
	UD     bool   `json:"ud"`
	UE     B      `json:"ue"`
	UB     bool   `json:"ub"`
	Sys    bool   `json:"sys"`
	SC     bool   `json:"sc"`
	Empty  bool   `json:"empty"`
	Mid    bool   `json:"mid"`
	Allow  bool   `json:"allowed"`
	SCM    []bool `json:"scm,omitempty"`
	Err    bool   `json:"err"`
	V      B      `json:"v"`
	O1     *Acct  `json:"o1,omitempty"`
	O2     *Acct  `json:"o2,omitempty"`
	ASame1 bool   `json:"aSame1"`
	ASame2 bool   `json:"aSame2"`
	CSame2 bool   `json:"cSame2"`
	A1     *Acct  `json:"a1,omitempty"`
	A2     *Acct  `json:"a2,omitempty"`
	C2     *Acct  `json:"c2,omitempty"`
}

// Out is the recorded form of the row: only the fields of its kind (the tables are large).
func (r *Row) Out() map[string]interface{} {
	m := map[string]interface{}{"k": r.K, "res": r.Res}
	if r.Panic != "" {
		m["panic"] = r.Panic
	}
	switch r.K {
	case "bytes":
		m["b"], m["cd"], m["ce"], m["gd"], m["ge"], m["ud"], m["ue"] = r.Bs, r.CD, r.CE, r.GD, r.GE, r.UD, r.UE
	case "enc":
		m["m"], m["ce"], m["cb"], m["ge"], m["gb"], m["ue"], m["ub"] = r.M, r.CE, r.CB, r.GE, r.GB, r.UE, r.UB
	case "addr":
		ids := r.IDs
		if ids == nil {
			ids = []B{}
		}
		m["s"], m["ids"], m["sys"], m["sc"], m["empty"], m["mid"], m["allowed"], m["scm"] = r.S, ids, r.Sys, r.SC, r.Empty, r.Mid, r.Allow, r.SCM
	case "sub":
		m["x"], m["y"], m["err"], m["v"] = r.X, r.Y, r.Err, r.V
	case "merge":
		m["i"], m["j"], m["h"], m["scale"], m["o1"], m["o2"], m["aSame1"], m["aSame2"], m["cSame2"] = r.I, r.J, r.H, r.Scale, r.O1, r.O2, r.ASame1, r.ASame2, r.CSame2
		for k, v := range map[string]*Acct{"o": r.O, "a": r.A, "c": r.C, "a1": r.A1, "a2": r.A2, "c2": r.C2} {
			if v != nil {
				m[k] = v.norm()
			}
		}
	case "rdata":
		rd := r.RD
		if rd == nil {
			rd = []B{}
		}
		m["rd"], m["kind"], m["err"], m["v"], m["vs"] = rd, r.Kind, r.Err, r.V, r.VS
	case "rcode":
		m["kind"], m["vs"] = r.Kind, r.VS
	case "hdr":
		d := r.Dom
		if d == nil {
			d = []Acct{}
		}
		m["dom"] = d
	}
	return m
}

// norm makes sure no slice of the description is nil (JSON null cannot be read by the trace specification).
func (a *Acct) norm() *Acct {
	if a.Tr == nil {
		a.Tr = []Tr{}
	}
	if a.SU.E == nil {
		a.SU.E = []Upd{}
	}
	return a
}

// ---------------------------------------------------------------- output accounts

func scaleOf(s string) *big.Int {
	v, ok := new(big.Int).SetString(s, 10)
	if !ok || v.Sign() <= 0 {
		return big.NewInt(1)
	}
	return v
}

func optBig(o Opt, scale *big.Int) *big.Int {
	if o.Nil {
		return nil
	}
	return new(big.Int).Mul(big.NewInt(o.Q), scale)
}

func bigOpt(v *big.Int, scale *big.Int) Opt {
	if v == nil {
		return Opt{Nil: true}
	}
	q, r := new(big.Int).QuoRem(v, scale, new(big.Int))
	if r.Sign() != 0 || q.CmpAbs(big.NewInt(1<<30)) >= 0 {
		return Opt{Q: Bad}
	}
	return Opt{Q: q.Int64()}
}

func optBytes(b B, keepNil bool) []byte {
	if len(b) == 0 && keepNil {
		return nil
	}
	return b.Bytes()
}

// Build constructs a fresh, independent OutputAccount from its description.
func Build(a *Acct, scale *big.Int) *vmcommon.OutputAccount {
	o := &vmcommon.OutputAccount{
		Address:      optBytes(a.Addr, true),
		Nonce:        Unlimbs(a.Nonce),
		Balance:      optBig(a.Bal, scale),
		BalanceDelta: optBig(a.Delta, scale),
		Code:         optBytes(a.Code, true),
		CodeMetadata: optBytes(a.CM, true),
		GasUsed:      Unlimbs(a.Gas),
	}
	if !a.Dep.Nil {
		o.CodeDeployerAddress = a.Dep.B.Bytes()
	}
	if !a.SU.Nil {
		o.StorageUpdates = make(map[string]*vmcommon.StorageUpdate, len(a.SU.E))
		for _, e := range a.SU.E {
			o.StorageUpdates[string(e.K.Bytes())] = &vmcommon.StorageUpdate{Offset: e.Off.Bytes(), Data: e.Data.Bytes()}
		}
	}
	if len(a.Tr) > 0 || a.Spare > 0 {
		o.OutputTransfers = make([]vmcommon.OutputTransfer, 0, len(a.Tr)+a.Spare)
		for _, t := range a.Tr {
			o.OutputTransfers = append(o.OutputTransfers, vmcommon.OutputTransfer{Value: optBig(t.V, scale), GasLimit: Unlimbs(t.GL), GasLocked: Unlimbs(t.GLK),
				Data: t.Data.Bytes(), CallType: vmcommon.CallType(t.CT), SenderAddress: t.Snd.Bytes()})
		}
	}
	return o
}

// Project describes an OutputAccount in the abstract format.
func Project(o *vmcommon.OutputAccount, scale *big.Int) *Acct {
	a := &Acct{Addr: FromBytes(o.Address), Nonce: Limbs(o.Nonce, 4), Bal: bigOpt(o.Balance, scale), Delta: bigOpt(o.BalanceDelta, scale),
		Code: FromBytes(o.Code), CM: FromBytes(o.CodeMetadata), Gas: Limbs(o.GasUsed, 4), Tr: []Tr{}, SU: SU{Nil: o.StorageUpdates == nil, E: []Upd{}},
		Dep: Dep{Nil: o.CodeDeployerAddress == nil, B: FromBytes(o.CodeDeployerAddress)}}
	keys := make([]string, 0, len(o.StorageUpdates))
	for k := range o.StorageUpdates {
		keys = append(keys, k)
	}
	sort.Strings(keys)
	for _, k := range keys {
		u := o.StorageUpdates[k]
		if u == nil {
			a.SU.E = append(a.SU.E, Upd{K: FromBytes([]byte(k)), Off: B{-1}, Data: B{-1}}) // a nil update: no byte is -1
			continue
		}
		a.SU.E = append(a.SU.E, Upd{K: FromBytes([]byte(k)), Off: FromBytes(u.Offset), Data: FromBytes(u.Data)})
	}
	for _, t := range o.OutputTransfers {
		a.Tr = append(a.Tr, Tr{V: bigOpt(t.Value, scale), GL: Limbs(t.GasLimit, 4), GLK: Limbs(t.GasLocked, 4), Data: FromBytes(t.Data), CT: int(t.CallType), Snd: FromBytes(t.SenderAddress)})
	}
	return a
}

// snapshot is a deep, exact copy of everything reachable from an OutputAccount (values, nil-ness, lengths).
type snapshot struct {
	addr, code, cm, dep []byte
	addrNil, codeNil    bool
	cmNil, depNil       bool
	nonce, gas          uint64
	bal, delta          *big.Int
	su                  map[string][2][]byte
	suNilEntry          map[string]bool
	suNil               bool
	tr                  []vmcommon.OutputTransfer
	trNil               bool
}

func cp(b []byte) []byte { return append([]byte(nil), b...) }

func cpBig(v *big.Int) *big.Int {
	if v == nil {
		return nil
	}
	return new(big.Int).Set(v)
}

func snap(o *vmcommon.OutputAccount) *snapshot {
	s := &snapshot{addr: cp(o.Address), code: cp(o.Code), cm: cp(o.CodeMetadata), dep: cp(o.CodeDeployerAddress),
		addrNil: o.Address == nil, codeNil: o.Code == nil, cmNil: o.CodeMetadata == nil, depNil: o.CodeDeployerAddress == nil,
		nonce: o.Nonce, gas: o.GasUsed, bal: cpBig(o.Balance), delta: cpBig(o.BalanceDelta), suNil: o.StorageUpdates == nil, trNil: o.OutputTransfers == nil,
		su: map[string][2][]byte{}, suNilEntry: map[string]bool{}}
	for k, u := range o.StorageUpdates {
		if u == nil {
			s.suNilEntry[k] = true
			continue
		}
		s.su[k] = [2][]byte{cp(u.Offset), cp(u.Data)}
	}
	for _, t := range o.OutputTransfers {
		s.tr = append(s.tr, vmcommon.OutputTransfer{Value: cpBig(t.Value), GasLimit: t.GasLimit, GasLocked: t.GasLocked, Data: cp(t.Data), CallType: t.CallType, SenderAddress: cp(t.SenderAddress)})
	}
	return s
}

func sameBig(a, b *big.Int) bool {
	if a == nil || b == nil {
		return a == nil && b == nil
	}
	return a.Cmp(b) == 0
}

// same reports whether the account still is what the snapshot recorded.
func (s *snapshot) same(o *vmcommon.OutputAccount) bool {
	if !bytes.Equal(s.addr, o.Address) || !bytes.Equal(s.code, o.Code) || !bytes.Equal(s.cm, o.CodeMetadata) || !bytes.Equal(s.dep, o.CodeDeployerAddress) {
		return false
	}
	if s.addrNil != (o.Address == nil) || s.codeNil != (o.Code == nil) || s.cmNil != (o.CodeMetadata == nil) || s.depNil != (o.CodeDeployerAddress == nil) {
		return false
	}
	if s.nonce != o.Nonce || s.gas != o.GasUsed || !sameBig(s.bal, o.Balance) || !sameBig(s.delta, o.BalanceDelta) {
		return false
	}
	if s.suNil != (o.StorageUpdates == nil) || s.trNil != (o.OutputTransfers == nil) {
		return false
	}
	if len(s.su)+len(s.suNilEntry) != len(o.StorageUpdates) || len(s.tr) != len(o.OutputTransfers) {
		return false
	}
	for k, u := range o.StorageUpdates {
		if u == nil {
			if !s.suNilEntry[k] {
				return false
			}
			continue
		}
		e, ok := s.su[k]
		if !ok || !bytes.Equal(e[0], u.Offset) || !bytes.Equal(e[1], u.Data) {
			return false
		}
	}
	for i, t := range o.OutputTransfers {
		x := s.tr[i]
		if !sameBig(x.Value, t.Value) || x.GasLimit != t.GasLimit || x.GasLocked != t.GasLocked || !bytes.Equal(x.Data, t.Data) || x.CallType != t.CallType || !bytes.Equal(x.SenderAddress, t.SenderAddress) {
			return false
		}
	}
	return true
}

// ---------------------------------------------------------------- execution

func guard(r *Row, f func()) {
	defer func() {
		if x := recover(); x != nil {
			r.Res, r.Panic = "panic", fmt.Sprint(x)
		}
	}()
	r.Res = "ok"
	f()
}

// Exec runs the real functions on the row's input and fills in the observation. dom is the merge domain.
func Exec(r *Row, dom []Acct) {
	r.CE, r.GE, r.UE, r.V = B{}, B{}, B{}, B{}
	switch r.K {
	case "bytes":
		b := r.Bs.Bytes()
		guard(r, func() {
			cd := vmcommon.CodeMetadataFromBytes(b)
			r.CD = []bool{cd.Payable, cd.Upgradeable, cd.Readable}
			r.CE = FromBytes(cd.ToBytes())
			gd := builtInFunctions.ESDTGlobalMetadataFromBytes(b)
			r.GD, r.GE = gd.Paused, FromBytes(gd.ToBytes())
			ud := builtInFunctions.ESDTUserMetadataFromBytes(b)
			r.UD, r.UE = ud.Frozen, FromBytes(ud.ToBytes())
		})
		if r.CD == nil {
			r.CD = []bool{false, false, false}
		}
	case "enc":
		guard(r, func() {
			m := vmcommon.CodeMetadata{Payable: r.M[0], Upgradeable: r.M[1], Readable: r.M[2]}
			e := m.ToBytes()
			r.CE = FromBytes(e)
			back := vmcommon.CodeMetadataFromBytes(e)
			r.CB = []bool{back.Payable, back.Upgradeable, back.Readable}
			g := builtInFunctions.ESDTGlobalMetadata{Paused: r.M[0]}
			ge := g.ToBytes()
			r.GE, r.GB = FromBytes(ge), builtInFunctions.ESDTGlobalMetadataFromBytes(ge).Paused
			u := builtInFunctions.ESDTUserMetadata{Frozen: r.M[1]}
			ue := u.ToBytes()
			r.UE, r.UB = FromBytes(ue), builtInFunctions.ESDTUserMetadataFromBytes(ue).Frozen
		})
		if r.CB == nil {
			r.CB = []bool{false, false, false}
		}
	case "addr":
		s := r.S.Bytes()
		r.SCM = make([]bool, len(r.IDs))
		guard(r, func() {
			r.Sys = vmcommon.IsSystemAccountAddress(s)
			r.SC = vmcommon.IsSmartContractAddress(s)
			r.Empty = vmcommon.IsEmptyAddress(s)
			r.Mid = vmcommon.IsMetachainIdentifier(s)
			r.Allow = vmcommon.IsAllowedToSaveUnderKey(s)
			for i, id := range r.IDs {
				r.SCM[i] = vmcommon.IsSmartContractOnMetachain(id.Bytes(), s)
			}
		})
		// a second pass with nil instead of an empty non-nil slice must agree (totality on "no bytes at all")
		if len(s) == 0 && r.Res == "ok" {
			guard(r, func() {
				if vmcommon.IsSystemAccountAddress(nil) != r.Sys || vmcommon.IsSmartContractAddress(nil) != r.SC || vmcommon.IsEmptyAddress(nil) != r.Empty ||
					vmcommon.IsMetachainIdentifier(nil) != r.Mid || vmcommon.IsAllowedToSaveUnderKey(nil) != r.Allow {
					r.Res = "nil-differs"
				}
			})
		}
	case "sub":
		guard(r, func() {
			v, err := vmcommon.SafeSubUint64(Unlimbs(r.X), Unlimbs(r.Y))
			r.Err, r.V = err != nil, Limbs(v, 4)
		})
	case "rdata":
		// VMOutput.GetFirstReturnData: the first return datum seen as a number, a decimal string, a string or a hex string
		guard(r, func() {
			out := &vmcommon.VMOutput{}
			for _, d := range r.RD {
				out.ReturnData = append(out.ReturnData, d.Bytes())
			}
			v, err := out.GetFirstReturnData(vmcommon.ReturnDataKind(r.Kind))
			r.Err = err != nil
			switch x := v.(type) {
			case *big.Int:
				r.V = FromBytes(x.Bytes())
			case string:
				r.VS = x
				r.V = FromBytes([]byte(x))
			}
		})
	case "rcode":
		guard(r, func() { r.VS = vmcommon.ReturnCode(r.Kind).String() })
	case "merge":
		execMerge(r, dom)
	default:
		r.Res = "unknown-kind"
	}
}

func pickAcct(i int, inline *Acct, dom []Acct) *Acct {
	if i >= 0 && i < len(dom) {
		return &dom[i]
	}
	return inline
}

func execMerge(r *Row, dom []Acct) {
	if r.Scale == "" {
		r.Scale = "1"
	}
	scale := scaleOf(r.Scale)
	do, da, dc := pickAcct(r.I, r.O, dom), pickAcct(r.J, r.A, dom), pickAcct(r.H, r.C, dom)
	if do == nil || da == nil || dc == nil {
		r.Res = "bad-case"
		return
	}
	o, a, c := Build(do, scale), Build(da, scale), Build(dc, scale)
	sa, sc := snap(a), snap(c)
	empty := &Acct{Nonce: Limbs(0, 4), Gas: Limbs(0, 4), Tr: []Tr{}, SU: SU{Nil: true, E: []Upd{}}, Dep: Dep{Nil: true}, Bal: Opt{Nil: true}, Delta: Opt{Nil: true}}
	r.O1, r.O2 = empty, empty
	guard(r, func() {
		o.MergeOutputAccounts(a)
		r.O1 = Project(o, scale)
		r.ASame1 = sa.same(a)
		if !r.ASame1 {
			r.A1 = Project(a, scale)
		}
		o.MergeOutputAccounts(c)
		r.O2 = Project(o, scale)
		r.ASame2, r.CSame2 = sa.same(a), sc.same(c)
		if !r.ASame2 {
			r.A2 = Project(a, scale)
		}
		if !r.CSame2 {
			r.C2 = Project(c, scale)
		}
	})
}

// ---------------------------------------------------------------- seeded random cases

var namedAddrs = [][]byte{
	bytes.Repeat([]byte{255}, 32),
	{0, 0, 0, 0, 0, 0, 0, 0, 0, 1, 0, 0, 0, 0, 0, 0, 0, 0, 0, 0, 0, 0, 0, 0, 0, 0, 0, 0, 0, 2, 255, 255},
}

// RandomAddr draws a byte string of length 0..40 with the structure the classifiers look at.
func RandomAddr(rnd *rand.Rand) B {
	n := rnd.Intn(41)
	b := make([]byte, n)
	switch rnd.Intn(6) {
	case 0: // uniformly random
		rnd.Read(b)
	case 1: // zero prefix of random length, random tail
		rnd.Read(b)
		z := rnd.Intn(27)
		for i := 0; i < z && i < n; i++ {
			b[i] = 0
		}
	case 2: // 0xff prefix of random length
		rnd.Read(b)
		z := rnd.Intn(34)
		for i := 0; i < z && i < n; i++ {
			b[i] = 255
		}
	case 3: // a named address with a few bytes changed, truncated or extended
		base := namedAddrs[rnd.Intn(2)]
		b = append([]byte(nil), base...)
		for k := rnd.Intn(3); k > 0; k-- {
			b[rnd.Intn(len(b))] = byte(rnd.Intn(256))
		}
		switch rnd.Intn(4) {
		case 0:
			b = b[:rnd.Intn(len(b)+1)]
		case 1:
			b = append(b, byte(rnd.Intn(256)))
		}
	case 4: // contract shape: 8 zeros, VM type, zeros or not up to 25, tail
		rnd.Read(b)
		for i := 0; i < 8 && i < n; i++ {
			b[i] = 0
		}
		if rnd.Intn(2) == 0 {
			for i := 10; i < 25 && i < n; i++ {
				b[i] = 0
			}
		}
		if rnd.Intn(4) == 0 && n > 0 {
			b[rnd.Intn(n)] ^= byte(1 << uint(rnd.Intn(8)))
		}
	default: // protected-key shapes
		b = []byte("ELROND")
		b = b[:rnd.Intn(7)]
		for k := rnd.Intn(5); k > 0; k-- {
			b = append(b, "ELRONDesdtx\x00"[rnd.Intn(12)])
		}
	}
	return FromBytes(b)
}

var u64Interesting = []uint64{0, 1, 2, 0xffff, 0x10000, 1<<31 - 1, 1 << 31, 1<<32 - 1, 1 << 32, 1<<63 - 1, 1 << 63, ^uint64(0) - 1, ^uint64(0)}

// RandomU64 mixes boundary values, their neighbours and uniform draws.
func RandomU64(rnd *rand.Rand) uint64 {
	switch rnd.Intn(3) {
	case 0:
		return u64Interesting[rnd.Intn(len(u64Interesting))]
	case 1:
		return u64Interesting[rnd.Intn(len(u64Interesting))] + uint64(rnd.Intn(3)) - 1
	}
	return rnd.Uint64()
}

var scales = []string{"1", "18446744073709551616", "1606938044258990275541962092341162602522202993782792835301376", "1000000000000000000000000000007"}

func randOpt(rnd *rand.Rand) Opt {
	if rnd.Intn(4) == 0 {
		return Opt{Nil: true}
	}
	return Opt{Q: int64(rnd.Intn(11) - 5)}
}

func randBytes(rnd *rand.Rand, max int) B {
	b := make([]byte, rnd.Intn(max+1))
	rnd.Read(b)
	return FromBytes(b)
}

func randTr(rnd *rand.Rand) Tr {
	return Tr{V: randOpt(rnd), GL: Limbs(RandomU64(rnd), 4), GLK: Limbs(uint64(rnd.Intn(5)), 4), Data: randBytes(rnd, 6), CT: rnd.Intn(4), Snd: randBytes(rnd, 3)}
}

func randAcct(rnd *rand.Rand, pool []Tr, other *Acct) *Acct {
	a := &Acct{Addr: randBytes(rnd, 3), Nonce: Limbs(RandomU64(rnd), 4), Bal: randOpt(rnd), Delta: randOpt(rnd), Code: randBytes(rnd, 2), CM: randBytes(rnd, 2),
		Gas: Limbs(RandomU64(rnd), 4), Tr: []Tr{}, SU: SU{E: []Upd{}}, Spare: rnd.Intn(4)}
	if rnd.Intn(3) == 0 {
		a.Addr = B{}
	}
	switch rnd.Intn(3) {
	case 0:
		a.Dep = Dep{Nil: true, B: B{}}
	case 1:
		a.Dep = Dep{B: B{}}
	default:
		a.Dep = Dep{B: randBytes(rnd, 3)}
	}
	switch rnd.Intn(5) {
	case 0:
		a.SU.Nil = true
	case 1:
	default:
		for _, k := range []string{"k0", "k1", "k2", "k3", ""} {
			if rnd.Intn(2) == 0 {
				off := FromBytes([]byte(k))
				if rnd.Intn(5) == 0 {
					off = randBytes(rnd, 2)
				}
				a.SU.E = append(a.SU.E, Upd{K: FromBytes([]byte(k)), Off: off, Data: randBytes(rnd, 3)})
			}
		}
	}
	// transfer lists: related to the other account's list (prefix, extension, same length but different) or independent
	switch {
	case other != nil && rnd.Intn(2) == 0:
		n := rnd.Intn(len(other.Tr) + 3)
		for i := 0; i < n; i++ {
			if i < len(other.Tr) && rnd.Intn(8) != 0 {
				a.Tr = append(a.Tr, other.Tr[i])
			} else {
				a.Tr = append(a.Tr, pool[rnd.Intn(len(pool))])
			}
		}
	default:
		for n := rnd.Intn(4); n > 0; n-- {
			a.Tr = append(a.Tr, pool[rnd.Intn(len(pool))])
		}
	}
	return a
}

// RandomRow draws one case of the given kind.
func RandomRow(rnd *rand.Rand, kind string, ids []B) *Row {
	r := &Row{K: kind, I: -1, J: -1, H: -1}
	switch kind {
	case "bytes":
		r.Bs = randBytes(rnd, 6)
		if rnd.Intn(3) == 0 {
			r.Bs = FromBytes([]byte{byte(rnd.Intn(256)), byte(rnd.Intn(256))})
		}
	case "addr":
		r.S, r.IDs = RandomAddr(rnd), ids
	case "sub":
		x, y := RandomU64(rnd), RandomU64(rnd)
		switch rnd.Intn(4) {
		case 0:
			y = x
		case 1:
			y = x + 1
		case 2:
			y = x - 1
		}
		r.X, r.Y = Limbs(x, 4), Limbs(y, 4)
	case "rdata":
		for n := rnd.Intn(3); n > 0; n-- {
			b := randBytes(rnd, 3)
			if rnd.Intn(3) == 0 {
				b = FromBytes(append([]byte{0}, b.Bytes()...)) // leading zero bytes: the number is the same, the string is not
			}
			r.RD = append(r.RD, b)
		}
		r.Kind = []int{1, 2, 4, 8, 0, 3, 16}[rnd.Intn(7)]
	case "rcode":
		r.Kind = rnd.Intn(16) - 2
	case "merge":
		r.Scale = scales[rnd.Intn(len(scales))]
		pool := []Tr{randTr(rnd), randTr(rnd), randTr(rnd), randTr(rnd)}
		r.O = randAcct(rnd, pool, nil)
		r.A = randAcct(rnd, pool, r.O)
		if rnd.Intn(2) == 0 {
			r.C = randAcct(rnd, pool, r.A)
		} else {
			r.C = randAcct(rnd, pool, r.O)
		}
	}
	return r
}
