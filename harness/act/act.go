// Package act drives the real factory-built containers of the repository for property C18:
// activation behaviours (containers built for an activation epoch, epoch notifications played through
// the subscribers the factory registered, IsActive of every function and the key set recorded after
// every notification) and binding scenarios (one call per protocol name through container.Get(name)
// on a small real world, the complete projected world recorded before and after).
// It contains no expectations: those live in spec/Activation.tla and are evaluated by TLC.
package act

import (
	"bytes"
	"encoding/hex"
	"encoding/json"
	"fmt"
	"math/big"
	"math/rand"
	"sort"
	"strings"

	vmcommon "github.com/ElrondNetwork/elrond-vm-common"
	"github.com/ElrondNetwork/elrond-vm-common/builtInFunctions"

	"verif/harness/world"
)

// Cfg is a factory configuration.
type Cfg struct {
	Enable  bool `json:"enable"`  // EnableUserNameChange
	NShards int  `json:"nshards"` // shard count of the coordinator
	Self    int  `json:"self"`    // the coordinator's own shard
	GasV    int  `json:"gasv"`    // gas schedule variant
	DNS     bool `json:"dns"`     // non-empty DNS address map
}

// Case is one input: an activation behaviour or a binding scenario.
type Case struct {
	K    string   `json:"k"`            // beh | bound | cross
	Act  []int    `json:"act"`          // activation epoch, two 16-bit limbs
	Seq  [][]int  `json:"seq"`          // beh: confirmed epochs; bound/cross: epochs confirmed before the call
	Cfg  *Cfg     `json:"cfg"`          // nil: derived from the index and the seed
	Name string   `json:"name"`         // bound/cross: the protocol name under test
	Via  string   `json:"via"`          // cross: the behaviour deliberately put under Name (self-test of the scenarios)
	TS   []uint64 `json:"ts,omitempty"` // beh: the timestamps of the notifications (replay); absent: derived from index and seed
}

// FnObs is what one function of the container reports.
type FnObs struct {
	N   string `json:"n"`
	Got bool   `json:"got"`
	A   bool   `json:"a"`
}

// Line is one recorded line.
type Line struct {
	K     string   `json:"k"` // build | confirm | bound | cross
	Beh   int      `json:"beh"`
	Act   []int    `json:"act"`
	E     []int    `json:"e"`
	Cfg   Cfg      `json:"cfg"`
	Subs  int      `json:"subs"`
	Fns   []FnObs  `json:"fns"`
	Keys  []string `json:"keys"`
	Len   int      `json:"len"`
	Res   string   `json:"res"`
	Panic string   `json:"panic"`
	Name  string   `json:"name"`
	Via   string   `json:"via"`
	Seq   [][]int  `json:"seq"`
	Setup []string `json:"setup"`
	Pre   []string `json:"pre"`
	Post  []string `json:"post"`
	Err   string   `json:"err"`
	TS    uint64   `json:"ts"` // confirm lines: the timestamp the notification carried (the specification ignores it, so must the code)
}

// stamp is the timestamp of the i-th notification of behaviour idx: all zero, growing, shrinking (a later notification for an older
// header) or scattered, depending on the behaviour.
func stamp(idx int, seed int64, i int) uint64 {
	switch (idx + int(seed%5)) % 4 {
	case 0:
		return 0
	case 1:
		return 1000 + 100*uint64(i)
	case 2:
		return 1000000 - 100*uint64(i)
	}
	return []uint64{5000, 0, 4500, ^uint64(0), 3900, 1, 4000, 7, 2}[i%9]
}

func (l *Line) norm() *Line {
	if l.Act == nil {
		l.Act = []int{}
	}
	if l.E == nil {
		l.E = []int{}
	}
	if l.Fns == nil {
		l.Fns = []FnObs{}
	}
	if l.Keys == nil {
		l.Keys = []string{}
	}
	if l.Seq == nil {
		l.Seq = [][]int{}
	}
	if l.Setup == nil {
		l.Setup = []string{}
	}
	if l.Pre == nil {
		l.Pre = []string{}
	}
	if l.Post == nil {
		l.Post = []string{}
	}
	return l
}

// Epoch converts two 16-bit limbs.
func Epoch(l []int) uint32 {
	if len(l) != 2 {
		return 0
	}
	return uint32(l[0]&0xffff)<<16 | uint32(l[1]&0xffff)
}

// EpochLimbs converts back.
func EpochLimbs(e uint32) []int { return []int{int(e >> 16), int(e & 0xffff)} }

// ProtocolNames are the names the harness probes with Get besides whatever Keys() reports.
var ProtocolNames = []string{"ClaimDeveloperRewards", "ChangeOwnerAddress", "SetUserName", "SaveKeyValue", "ESDTTransfer", "ESDTBurn", "ESDTFreeze",
	"ESDTUnFreeze", "ESDTWipe", "ESDTPause", "ESDTUnPause", "ESDTSetRole", "ESDTUnSetRole", "ESDTLocalBurn", "ESDTLocalMint", "ESDTNFTAddQuantity",
	"ESDTNFTBurn", "ESDTNFTCreate", "ESDTNFTTransfer", "ESDTNFTCreateRoleTransfer", "ESDTNFTUpdateAttributes", "ESDTNFTAddURI", "MultiESDTNFTTransfer"}

// DeriveCfg picks a configuration from an index (and the seed) when the case does not fix one.
func DeriveCfg(idx int, seed int64) *Cfg {
	x := idx + int(seed%7)*5
	n := 1 + x%3
	return &Cfg{Enable: x%2 == 0, NShards: n, Self: (x/3)%(n+1) - 1, GasV: (x / 2) % 2, DNS: (x/5)%2 == 0}
}

// AllCfgs enumerates the configuration product.
func AllCfgs() []*Cfg {
	var l []*Cfg
	for n := 1; n <= 3; n++ {
		for s := -1; s < n; s++ { // -1: the coordinator of the metachain (uint32(-1) is its shard id)
			for _, en := range []bool{false, true} {
				for g := 0; g < 2; g++ {
					for _, d := range []bool{false, true} {
						l = append(l, &Cfg{Enable: en, NShards: n, Self: s, GasV: g, DNS: d})
					}
				}
			}
		}
	}
	return l
}

func observe(c vmcommon.BuiltInFunctionContainer, l *Line) {
	keys := c.Keys()
	names := map[string]bool{}
	for k := range keys {
		l.Keys = append(l.Keys, k)
		names[k] = true
	}
	sort.Strings(l.Keys)
	for _, n := range ProtocolNames {
		names[n] = true
	}
	all := make([]string, 0, len(names))
	for n := range names {
		all = append(all, n)
	}
	sort.Strings(all)
	for _, n := range all {
		fn, err := c.Get(n)
		o := FnObs{N: n, Got: err == nil && fn != nil}
		if o.Got {
			o.A = fn.IsActive()
		}
		l.Fns = append(l.Fns, o)
	}
	l.Len = c.Len()
}

func guard(l *Line, f func()) {
	defer func() {
		if x := recover(); x != nil {
			l.Res, l.Panic = "panic", fmt.Sprint(x)
		}
	}()
	l.Res = "ok"
	f()
}

// RunBehaviour builds a real container for the case's activation epoch and configuration and plays the
// notification sequence through the subscribers the factory registered.
func RunBehaviour(idx int, c *Case, seed int64, emit func(*Line)) {
	cfg := c.Cfg
	if cfg == nil {
		cfg = DeriveCfg(idx, seed)
	}
	act := Epoch(c.Act)
	sh := &world.Shard{ID: uint32(cfg.Self), N: uint32(cfg.NShards), Accounts: map[string]*world.Account{}, Oracle: &world.Oracle{Table: map[string]string{}}}
	dns := map[string]struct{}{}
	if cfg.DNS {
		for _, a := range world.StdAddrs(cfg.NShards) {
			if a.DNS {
				dns[string(a.Bytes)] = struct{}{}
			}
		}
	}
	l := &Line{K: "build", Beh: idx, Act: EpochLimbs(act), Cfg: *cfg}
	seq := c.Seq
	if len(seq) > 0 && (idx+int(seed%3))%3 == 0 {
		// a node's notifier tells every new subscriber the current epoch at once: the first notification of this behaviour arrives
		// DURING the build (recorded in the build line's "e"), the rest afterwards
		first := Epoch(seq[0])
		sh.StartEpoch = &first
		l.E = EpochLimbs(first)
		seq = seq[1:]
	}
	guard(l, func() {
		if err := sh.BuildContainer(world.StdGas(cfg.GasV), dns, cfg.Enable, act); err != nil {
			l.Res, l.Err = "err", err.Error()
			return
		}
		l.Subs = len(sh.Notifier.Subs)
		observe(sh.Container, l)
	})
	emit(l.norm())
	if l.Res != "ok" {
		return
	}
	for i, e := range seq {
		ep := Epoch(e)
		cl := &Line{K: "confirm", Beh: idx, Act: EpochLimbs(act), E: EpochLimbs(ep), Cfg: *cfg, TS: stamp(idx, seed, i)}
		if i < len(c.TS) {
			cl.TS = c.TS[i]
		}
		guard(cl, func() {
			sh.Notifier.ConfirmAt(ep, cl.TS)
			cl.Subs = len(sh.Notifier.Subs)
			observe(sh.Container, cl)
		})
		emit(cl.norm())
	}
}

// ---------------------------------------------------------------- binding scenarios

// Tokens of the scenario world.
var (
	TokF = []byte("FUNG-01") // fungible: a holds 10, b holds 4; a may mint and burn locally
	TokG = []byte("GFRZ-02") // fungible: a holds 6 and is frozen
	TokH = []byte("HPAU-03") // paused on the shard
	TokN = []byte("NFTK-04") // semi-fungible: a holds 5 of nonce 1 and every NFT role
)

func nb(n uint64) []byte { return new(big.Int).SetUint64(n).Bytes() }

const gasPlenty = 10000000

func call(w *world.World, fn, caller, rcpt string, args ...[]byte) *world.Call {
	return &world.Call{Fn: fn, Caller: w.Addr(caller), Rcpt: w.Addr(rcpt), Args: args, Gas: gasPlenty, Value: big.NewInt(0)}
}

// Setup brings a fresh world into the scenarios' common start state through the real functions
// (issue, freeze, pause, roles, NFT create) and two node-level fields no built-in function creates.
func Setup(w *world.World) []string {
	var res []string
	run := func(c *world.Call) {
		r := w.Run(0, c)
		res = append(res, c.Fn+":"+r.Res)
	}
	run(call(w, "ESDTTransfer", "esdtsc", "u0a", TokF, nb(10)))
	run(call(w, "ESDTTransfer", "esdtsc", "u0b", TokF, nb(4)))
	run(call(w, "ESDTTransfer", "esdtsc", "u0a", TokG, nb(6)))
	run(call(w, "ESDTFreeze", "esdtsc", "u0a", TokG))
	run(&world.Call{Fn: "ESDTPause", Caller: w.Addr("esdtsc"), Rcpt: world.SysAddr, Args: [][]byte{TokH}, Gas: gasPlenty, Value: big.NewInt(0)})
	run(call(w, "ESDTSetRole", "esdtsc", "u0a", TokF, []byte("ESDTRoleLocalMint"), []byte("ESDTRoleLocalBurn")))
	run(call(w, "ESDTSetRole", "esdtsc", "u0a", TokN, []byte("ESDTRoleNFTCreate"), []byte("ESDTRoleNFTAddQuantity"), []byte("ESDTRoleNFTBurn"),
		[]byte("ESDTRoleNFTAddURI"), []byte("ESDTRoleNFTUpdateAttributes")))
	run(call(w, "ESDTNFTCreate", "u0a", "u0a", TokN, nb(5), []byte("name1"), nb(100), []byte("hash1"), []byte("attr1"), []byte("uri1")))
	ai := w.Info("c0a")
	acc := world.NewAccount(ai.Bytes, w.Shards[0])
	acc.Owner = append([]byte(nil), w.Addr("u0a")...)
	acc.DevReward = big.NewInt(7)
	w.Shards[0].Accounts[string(ai.Bytes)] = acc
	return res
}

// Scenario returns the one distinguishing call of a protocol name (all on shard 0).
func Scenario(w *world.World, name string) *world.Call {
	switch name {
	case "ClaimDeveloperRewards":
		return call(w, name, "u0a", "c0a")
	case "ChangeOwnerAddress":
		return call(w, name, "u0a", "c0a", w.Addr("u0b"))
	case "SetUserName":
		return call(w, name, "d0", "u0b", []byte("user1"))
	case "SaveKeyValue":
		return call(w, name, "u0a", "u0a", []byte("key1"), []byte("val1"))
	case "ESDTTransfer":
		return call(w, name, "u0a", "u0b", TokF, nb(3))
	case "ESDTBurn":
		return call(w, name, "u0a", "esdtsc", TokF, nb(3))
	case "ESDTFreeze":
		return call(w, name, "esdtsc", "u0b", TokF)
	case "ESDTUnFreeze":
		return call(w, name, "esdtsc", "u0a", TokG)
	case "ESDTWipe":
		return call(w, name, "esdtsc", "u0a", TokG)
	case "ESDTPause":
		return &world.Call{Fn: name, Caller: w.Addr("esdtsc"), Rcpt: world.SysAddr, Args: [][]byte{TokF}, Gas: gasPlenty, Value: big.NewInt(0)}
	case "ESDTUnPause":
		return &world.Call{Fn: name, Caller: w.Addr("esdtsc"), Rcpt: world.SysAddr, Args: [][]byte{TokH}, Gas: gasPlenty, Value: big.NewInt(0)}
	case "ESDTSetRole":
		return call(w, name, "esdtsc", "u0b", TokF, []byte("ESDTRoleLocalMint"))
	case "ESDTUnSetRole":
		return call(w, name, "esdtsc", "u0a", TokF, []byte("ESDTRoleLocalMint"))
	case "ESDTLocalBurn":
		return call(w, name, "u0a", "u0a", TokF, nb(2))
	case "ESDTLocalMint":
		return call(w, name, "u0a", "u0a", TokF, nb(2))
	case "ESDTNFTAddQuantity":
		return call(w, name, "u0a", "u0a", TokN, nb(1), nb(2))
	case "ESDTNFTBurn":
		return call(w, name, "u0a", "u0a", TokN, nb(1), nb(2))
	case "ESDTNFTCreate":
		return call(w, name, "u0a", "u0a", TokN, nb(3), []byte("name2"), nb(200), []byte("hash2"), []byte("attr2"), []byte("uri2"))
	case "ESDTNFTTransfer":
		return call(w, name, "u0a", "u0a", TokN, nb(1), nb(2), w.Addr("u0b"))
	case "ESDTNFTCreateRoleTransfer":
		return call(w, name, "esdtsc", "u0a", TokN, w.Addr("u0b"))
	case "ESDTNFTUpdateAttributes":
		return call(w, name, "u0a", "u0a", TokN, nb(1), []byte("attr9"))
	case "ESDTNFTAddURI":
		return call(w, name, "u0a", "u0a", TokN, nb(1), []byte("uri9"))
	case "MultiESDTNFTTransfer":
		return call(w, name, "u0a", "u0a", w.Addr("u0b"), nb(2), TokF, nb(0), nb(2), TokN, nb(1), nb(1))
	}
	return nil
}

// RunBound executes the scenario of c.Name on a fresh world. For a cross case the behaviour registered
// under c.Via is first put under c.Name (what a factory that binds the wrong behaviour would build).
func RunBound(idx int, c *Case, seed int64, emit func(*Line)) {
	cfg := c.Cfg
	if cfg == nil {
		cfg = DeriveCfg(idx, seed)
	}
	act := Epoch(c.Act)
	l := &Line{K: c.K, Beh: idx, Act: EpochLimbs(act), Cfg: *cfg, Name: c.Name, Via: c.Via, Seq: c.Seq}
	if l.Via == "" {
		l.Via = c.Name
	}
	guard(l, func() {
		w, err := world.New(world.Config{NShards: cfg.NShards, Gas: world.StdGas(cfg.GasV), EnableChange: cfg.Enable, Activation: act}, world.StdAddrs(cfg.NShards))
		if err != nil {
			l.Res, l.Err = "err", err.Error()
			return
		}
		for _, e := range c.Seq {
			w.ConfirmEpoch(Epoch(e))
		}
		l.Setup = Setup(w)
		l.Pre = Flatten(w, nil)
		if c.K == "cross" {
			for _, sh := range w.Shards {
				fn, err := sh.Container.Get(c.Via)
				if err != nil {
					l.Res, l.Err = "err", err.Error()
					return
				}
				if err := sh.Container.Replace(c.Name, fn); err != nil {
					l.Res, l.Err = "err", err.Error()
					return
				}
			}
		}
		sc := Scenario(w, c.Name)
		if sc == nil {
			l.Res, l.Err = "err", "no scenario for this name"
			return
		}
		r := w.Run(0, sc)
		l.Res, l.Err = r.Res, r.Err
		if r.Panic != "" {
			l.Panic = r.Panic
		}
		l.Post = Flatten(w, r)
	})
	emit(l.norm())
}

// ---------------------------------------------------------------- flattening of the projected world

func printable(b []byte) bool {
	if len(b) == 0 {
		return false
	}
	for _, c := range b {
		if c < 0x20 || c > 0x7e || c == '"' || c == '\\' || c == '\'' {
			return false
		}
	}
	return true
}

// pretty renders a hex string: 'text' when it is printable ASCII, 'text'#hex for a printable prefix followed by
// other bytes (token id followed by nonce bytes), the hex string itself otherwise.
func pretty(h string) string {
	b, err := hex.DecodeString(h)
	if err != nil || len(b) == 0 {
		return h
	}
	if printable(b) {
		return "'" + string(b) + "'"
	}
	n := 0
	for n < len(b) && printable(b[:n+1]) {
		n++
	}
	if n >= 3 {
		return "'" + string(b[:n]) + "'#" + hex.EncodeToString(b[n:])
	}
	return h
}

func flat(prefix string, v interface{}, out *[]string) {
	switch x := v.(type) {
	case map[string]interface{}:
		keys := make([]string, 0, len(x))
		for k := range x {
			keys = append(keys, k)
		}
		sort.Strings(keys)
		for _, k := range keys {
			flat(prefix+"."+pretty(k), x[k], out)
		}
	case []interface{}:
		for i, e := range x {
			flat(fmt.Sprintf("%s.%d", prefix, i), e, out)
		}
	case string:
		if x != "" {
			*out = append(*out, prefix+"="+pretty(x))
		}
	case json.Number:
		if x.String() != "0" {
			*out = append(*out, prefix+"="+x.String())
		}
	case bool:
		if x {
			*out = append(*out, prefix+"=true")
		}
	}
}

// Flatten lists every non-default leaf of the projected world (accounts of every shard, system accounts,
// messages in flight) as "path=value"; with a step result also the emitted messages and the return data.
func Flatten(w *world.World, r *world.StepResult) []string {
	p := &world.Proj{W: w, Scale: big.NewInt(1)}
	aw := p.World()
	m := map[string]interface{}{"acct": aw.Acct, "paused": aw.Paused, "sysx": aw.Sysx, "msgs": len(aw.Msgs)}
	if r != nil {
		var em []map[string]interface{}
		for _, x := range r.Emitted {
			args := make([]string, len(x.Args))
			for i, a := range x.Args {
				args[i] = hex.EncodeToString(a)
			}
			v := "nil"
			if x.Value != nil {
				v = x.Value.String()
			}
			em = append(em, map[string]interface{}{"fn": x.Fn, "from": w.NameOf(x.From), "to": w.NameOf(x.To), "args": args, "value": v, "ct": int(x.CT), "tx": x.Tx})
		}
		m["emitted"] = em
		if r.Out != nil {
			ret := make([]string, len(r.Out.ReturnData))
			for i, d := range r.Out.ReturnData {
				ret[i] = "0x" + hex.EncodeToString(d)
			}
			m["ret"] = ret
		}
	}
	b, err := json.Marshal(m)
	if err != nil {
		return []string{"flatten-error=" + err.Error()}
	}
	dec := json.NewDecoder(bytes.NewReader(b))
	dec.UseNumber()
	var g interface{}
	if err := dec.Decode(&g); err != nil {
		return []string{"flatten-error=" + err.Error()}
	}
	raw := []string{}
	flat("w", g, &raw)
	out := []string{}
	for _, s := range raw {
		s = strings.ReplaceAll(strings.ReplaceAll(s, "\"", "?"), "\\", "?")
		// the frozen and paused flags are shown as the real decoders read them (their byte layout is C20's business, not C18's)
		eq := strings.LastIndex(s, "=")
		path, val := s[:eq], s[eq+1:]
		switch {
		case strings.HasSuffix(path, ".props"):
			b, err := hex.DecodeString(val)
			if err != nil {
				out = append(out, s)
				continue
			}
			m := builtInFunctions.ESDTUserMetadataFromBytes(b)
			if m.Frozen {
				out = append(out, strings.TrimSuffix(path, ".props")+".frozen=true")
			}
			if !bytes.Equal(m.ToBytes(), b) {
				out = append(out, path+"_noncanonical="+val)
			}
		case strings.HasPrefix(path, "w.paused."):
			b, err := hex.DecodeString(val)
			if err != nil {
				out = append(out, s)
				continue
			}
			m := builtInFunctions.ESDTGlobalMetadataFromBytes(b)
			if m.Paused {
				out = append(out, path+"=true")
			}
			if !bytes.Equal(m.ToBytes(), b) {
				out = append(out, path+"_noncanonical="+val)
			}
		default:
			out = append(out, s)
		}
	}
	sort.Strings(out)
	return out
}

// ---------------------------------------------------------------- seeded random behaviours

var epochInteresting = []uint32{0, 1, 2, 1<<31 - 1, 1 << 31, 1<<32 - 1, 1<<32 - 2, 1 << 16, 1<<16 - 1}

// RandomEpoch mixes the 32-bit boundaries, their neighbours and uniform draws.
func RandomEpoch(rnd *rand.Rand) uint32 {
	switch rnd.Intn(4) {
	case 0, 1:
		return epochInteresting[rnd.Intn(len(epochInteresting))]
	case 2:
		return epochInteresting[rnd.Intn(len(epochInteresting))] + uint32(rnd.Intn(3)) - 1
	}
	return rnd.Uint32()
}

// RandomBehaviour draws an activation epoch and a notification sequence of length 0..8 (with repeats and
// regressions, and often close to the activation epoch).
func RandomBehaviour(rnd *rand.Rand) *Case {
	act := RandomEpoch(rnd)
	c := &Case{K: "beh", Act: EpochLimbs(act)}
	for n := rnd.Intn(9); n > 0; n-- {
		var e uint32
		switch rnd.Intn(4) {
		case 0:
			e = act + uint32(rnd.Intn(3)) - 1
		case 1:
			if len(c.Seq) > 0 {
				e = Epoch(c.Seq[rnd.Intn(len(c.Seq))])
			}
		default:
			e = RandomEpoch(rnd)
		}
		c.Seq = append(c.Seq, EpochLimbs(e))
	}
	return c
}
